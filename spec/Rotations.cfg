SPECIFICATION Spec
INVARIANT ReportR
INVARIANT AllValid
