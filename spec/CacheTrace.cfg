SPECIFICATION Spec
INVARIANT ReportC
INVARIANT KeySound
