------------------------------ MODULE RowAlloc ------------------------------
(* Constraint-row allocation of one world (constraint.py row builders, forward.py:_next_time).

   Every constraint kernel thread that has rows to emit
     1. atomically adds its row count to the kind counter ne / nf / nl   (not contacts)
     2. atomically fetch-adds its row count to nefc                      -> efcid
     3. guards against njmax            (non-contact kinds drop the whole block; contacts keep
                                         the rows that fit and give the rest address -1)
     4. sparse only: atomically fetch-adds nrows*rownnz to the nnz counter -> rowadr, guards njmax_nnz
     5. writes its rows
   Kernels are launched one after the other: equality kernels, friction, limits, contacts
   (the solver classifies rows by position: [0,ne) equality, [ne,ne+nf) friction, then limits,
   then contacts).  _next_time finally sets the NEFC / NJMAX_NNZ bits.

   Threads of one launch interleave at atomic-operation granularity; capacities NJ and NNZ are
   chosen nondeterministically in Init (0 .. need+1), so exact fit and off-by-one are explored.
   The spec describes the INTENDED design: guard  efcid + nrows > njmax ; detector reads the
   counters.  Constant Detector = "lastrow" instead models forward.py's original detector (look
   at rowadr+rownnz of the last stored row), for which TLC finds NoSilentDrop violated.  *)
EXTENDS Integers, Sequences, FiniteSets, TLC, Json

CONSTANTS MaxT,        \* thread ids 1..MaxT
          Profiles,    \* set of request profiles: [1..MaxT -> [launch, kind, n, rnz]]; kind "none" = inactive thread
          NLaunch,
          Sparse,      \* BOOLEAN
          Detector,    \* "counter" | "lastrow"
          NJChoices(_),       \* capacities explored, given the largest row need   (DefaultNJ)
          NnzChoices(_),      \* nnz capacities explored, given the nnz need        (DefaultNnz)
          ConnectGuardSlack   \* 0 = intended guard (e + n > NJ); 1 models `efcid >= njmax - n` (drops at exact fit)

Threads == 1..MaxT
Kinds == {"E", "F", "L", "C"}
Empty == [kind |-> "none", id |-> 0, sub |-> 0, rowadr |-> -1, rownnz |-> 0]

Need(p) == LET RECURSIVE S(_) S(t) == IF t = 0 THEN 0 ELSE S(t-1) + (IF p[t].kind = "none" THEN 0 ELSE p[t].n) IN S(MaxT)
NeedNnz(p) == LET RECURSIVE S(_) S(t) == IF t = 0 THEN 0 ELSE S(t-1) + (IF p[t].kind = "none" THEN 0 ELSE p[t].n * p[t].rnz) IN S(MaxT)
MaxNeed == LET RECURSIVE M(_) M(S) == IF S = {} THEN 0 ELSE LET p == CHOOSE q \in S : TRUE IN
                                        LET r == M(S \ {p}) IN IF Need(p) > r THEN Need(p) ELSE r
           IN M(Profiles)

\* nnz capacities explored by default: none, about half, one short, exact fit, one spare
DefaultNnz(need) == {0, need \div 2, need - 1, need, need + 1} \cap Nat
DefaultNJ(maxneed) == 0..(maxneed + 1)

(* --fair algorithm RowAlloc {
  variables
    req \in Profiles,
    NJ \in NJChoices(MaxNeed),
    NNZ \in IF Sparse THEN NnzChoices(NeedNnz(req)) ELSE {0},
    nefc = 0,
    cnt = [k \in {"E", "F", "L"} |-> 0],
    nnz = 0,
    rows = [r \in 0..(MaxNeed + 1) |-> Empty],      \* only cells < NJ may be written (IndexInRange)
    addr = [t \in Threads |-> <<>>],
    launch = 1,
    fin = [t \in Threads |-> FALSE],
    bits = {},
    oob = FALSE,
    finished = FALSE;

  define {
    Active(t) == req[t].kind # "none"
    N(t) == req[t].n
    InLaunch(l) == {t \in Threads : Active(t) /\ req[t].launch = l}
  }

  process (T \in Threads)
    variables e = -1, a = -1;
  {
    t0: await launch = req[self].launch \/ ~Active(self);
        if (~Active(self)) { goto tdone; };
    t1: if (req[self].kind # "C") { cnt[req[self].kind] := cnt[req[self].kind] + N(self); };
    t2: e := nefc; nefc := nefc + N(self);
    t3: if (req[self].kind # "C") {
          if (e + N(self) > NJ - ConnectGuardSlack * (IF N(self) > 1 THEN 1 ELSE 0)) { goto tdone; };
        } else {
          addr[self] := [i \in 1..N(self) |-> IF e + i - 1 >= NJ THEN -1 ELSE e + i - 1];
        };
    t4: if (Sparse) { a := nnz; nnz := nnz + N(self) * req[self].rnz; };
    t5: if (Sparse /\ a + N(self) * req[self].rnz > NNZ) { goto tdone; };
    t6: oob := oob \/ (\E i \in 0..(N(self)-1) : e + i < NJ /\ e + i > MaxNeed + 1)
                   \/ (req[self].kind # "C" /\ e + N(self) > NJ);
        rows := [r \in DOMAIN rows |->
                   IF r >= e /\ r < e + N(self) /\ r < NJ
                   THEN [kind |-> req[self].kind, id |-> self, sub |-> r - e,
                         rowadr |-> IF Sparse THEN a + (r - e) * req[self].rnz ELSE -1,
                         rownnz |-> IF Sparse THEN req[self].rnz ELSE 0]
                   ELSE rows[r]];
    tdone: fin[self] := TRUE;
  }

  process (Host = 0)
  {
    h0: while (launch <= NLaunch) {
          await \A t \in InLaunch(launch) : fin[t];
          launch := launch + 1;
        };
    nt: if (nefc > NJ) { bits := bits \cup {"NEFC"}; };
    nz: if (Sparse) {
          if (Detector = "counter") {
            if (nnz > NNZ) { bits := bits \cup {"NNZ"}; };
          } else if (nefc <= NJ /\ nefc > 0) {
            \* original detector: rowadr + rownnz of the last row below nefc (stale cells read as written earlier or 0)
            if ((IF rows[nefc - 1].rowadr < 0 THEN 0 ELSE rows[nefc - 1].rowadr) + rows[nefc - 1].rownnz > NNZ) {
              bits := bits \cup {"NNZ"};
            };
          };
        };
    hf: finished := TRUE;
  }
} *)
\* BEGIN TRANSLATION
VARIABLES pc, req, NJ, NNZ, nefc, cnt, nnz, rows, addr, launch, fin, bits, 
          oob, finished

(* define statement *)
Active(t) == req[t].kind # "none"
N(t) == req[t].n
InLaunch(l) == {t \in Threads : Active(t) /\ req[t].launch = l}

VARIABLES e, a

vars == << pc, req, NJ, NNZ, nefc, cnt, nnz, rows, addr, launch, fin, bits, 
           oob, finished, e, a >>

ProcSet == (Threads) \cup {0}

Init == (* Global variables *)
        /\ req \in Profiles
        /\ NJ \in NJChoices(MaxNeed)
        /\ NNZ \in IF Sparse THEN NnzChoices(NeedNnz(req)) ELSE {0}
        /\ nefc = 0
        /\ cnt = [k \in {"E", "F", "L"} |-> 0]
        /\ nnz = 0
        /\ rows = [r \in 0..(MaxNeed + 1) |-> Empty]
        /\ addr = [t \in Threads |-> <<>>]
        /\ launch = 1
        /\ fin = [t \in Threads |-> FALSE]
        /\ bits = {}
        /\ oob = FALSE
        /\ finished = FALSE
        (* Process T *)
        /\ e = [self \in Threads |-> -1]
        /\ a = [self \in Threads |-> -1]
        /\ pc = [self \in ProcSet |-> CASE self \in Threads -> "t0"
                                        [] self = 0 -> "h0"]

t0(self) == /\ pc[self] = "t0"
            /\ launch = req[self].launch \/ ~Active(self)
            /\ IF ~Active(self)
                  THEN /\ pc' = [pc EXCEPT ![self] = "tdone"]
                  ELSE /\ pc' = [pc EXCEPT ![self] = "t1"]
            /\ UNCHANGED << req, NJ, NNZ, nefc, cnt, nnz, rows, addr, launch, 
                            fin, bits, oob, finished, e, a >>

t1(self) == /\ pc[self] = "t1"
            /\ IF req[self].kind # "C"
                  THEN /\ cnt' = [cnt EXCEPT ![req[self].kind] = cnt[req[self].kind] + N(self)]
                  ELSE /\ TRUE
                       /\ cnt' = cnt
            /\ pc' = [pc EXCEPT ![self] = "t2"]
            /\ UNCHANGED << req, NJ, NNZ, nefc, nnz, rows, addr, launch, fin, 
                            bits, oob, finished, e, a >>

t2(self) == /\ pc[self] = "t2"
            /\ e' = [e EXCEPT ![self] = nefc]
            /\ nefc' = nefc + N(self)
            /\ pc' = [pc EXCEPT ![self] = "t3"]
            /\ UNCHANGED << req, NJ, NNZ, cnt, nnz, rows, addr, launch, fin, 
                            bits, oob, finished, a >>

t3(self) == /\ pc[self] = "t3"
            /\ IF req[self].kind # "C"
                  THEN /\ IF e[self] + N(self) > NJ - ConnectGuardSlack * (IF N(self) > 1 THEN 1 ELSE 0)
                             THEN /\ pc' = [pc EXCEPT ![self] = "tdone"]
                             ELSE /\ pc' = [pc EXCEPT ![self] = "t4"]
                       /\ addr' = addr
                  ELSE /\ addr' = [addr EXCEPT ![self] = [i \in 1..N(self) |-> IF e[self] + i - 1 >= NJ THEN -1 ELSE e[self] + i - 1]]
                       /\ pc' = [pc EXCEPT ![self] = "t4"]
            /\ UNCHANGED << req, NJ, NNZ, nefc, cnt, nnz, rows, launch, fin, 
                            bits, oob, finished, e, a >>

t4(self) == /\ pc[self] = "t4"
            /\ IF Sparse
                  THEN /\ a' = [a EXCEPT ![self] = nnz]
                       /\ nnz' = nnz + N(self) * req[self].rnz
                  ELSE /\ TRUE
                       /\ UNCHANGED << nnz, a >>
            /\ pc' = [pc EXCEPT ![self] = "t5"]
            /\ UNCHANGED << req, NJ, NNZ, nefc, cnt, rows, addr, launch, fin, 
                            bits, oob, finished, e >>

t5(self) == /\ pc[self] = "t5"
            /\ IF Sparse /\ a[self] + N(self) * req[self].rnz > NNZ
                  THEN /\ pc' = [pc EXCEPT ![self] = "tdone"]
                  ELSE /\ pc' = [pc EXCEPT ![self] = "t6"]
            /\ UNCHANGED << req, NJ, NNZ, nefc, cnt, nnz, rows, addr, launch, 
                            fin, bits, oob, finished, e, a >>

t6(self) == /\ pc[self] = "t6"
            /\ oob' = (oob \/ (\E i \in 0..(N(self)-1) : e[self] + i < NJ /\ e[self] + i > MaxNeed + 1)
                           \/ (req[self].kind # "C" /\ e[self] + N(self) > NJ))
            /\ rows' = [r \in DOMAIN rows |->
                          IF r >= e[self] /\ r < e[self] + N(self) /\ r < NJ
                          THEN [kind |-> req[self].kind, id |-> self, sub |-> r - e[self],
                                rowadr |-> IF Sparse THEN a[self] + (r - e[self]) * req[self].rnz ELSE -1,
                                rownnz |-> IF Sparse THEN req[self].rnz ELSE 0]
                          ELSE rows[r]]
            /\ pc' = [pc EXCEPT ![self] = "tdone"]
            /\ UNCHANGED << req, NJ, NNZ, nefc, cnt, nnz, addr, launch, fin, 
                            bits, finished, e, a >>

tdone(self) == /\ pc[self] = "tdone"
               /\ fin' = [fin EXCEPT ![self] = TRUE]
               /\ pc' = [pc EXCEPT ![self] = "Done"]
               /\ UNCHANGED << req, NJ, NNZ, nefc, cnt, nnz, rows, addr, 
                               launch, bits, oob, finished, e, a >>

T(self) == t0(self) \/ t1(self) \/ t2(self) \/ t3(self) \/ t4(self)
              \/ t5(self) \/ t6(self) \/ tdone(self)

h0 == /\ pc[0] = "h0"
      /\ IF launch <= NLaunch
            THEN /\ \A t \in InLaunch(launch) : fin[t]
                 /\ launch' = launch + 1
                 /\ pc' = [pc EXCEPT ![0] = "h0"]
            ELSE /\ pc' = [pc EXCEPT ![0] = "nt"]
                 /\ UNCHANGED launch
      /\ UNCHANGED << req, NJ, NNZ, nefc, cnt, nnz, rows, addr, fin, bits, oob, 
                      finished, e, a >>

nt == /\ pc[0] = "nt"
      /\ IF nefc > NJ
            THEN /\ bits' = (bits \cup {"NEFC"})
            ELSE /\ TRUE
                 /\ bits' = bits
      /\ pc' = [pc EXCEPT ![0] = "nz"]
      /\ UNCHANGED << req, NJ, NNZ, nefc, cnt, nnz, rows, addr, launch, fin, 
                      oob, finished, e, a >>

nz == /\ pc[0] = "nz"
      /\ IF Sparse
            THEN /\ IF Detector = "counter"
                       THEN /\ IF nnz > NNZ
                                  THEN /\ bits' = (bits \cup {"NNZ"})
                                  ELSE /\ TRUE
                                       /\ bits' = bits
                       ELSE /\ IF nefc <= NJ /\ nefc > 0
                                  THEN /\ IF (IF rows[nefc - 1].rowadr < 0 THEN 0 ELSE rows[nefc - 1].rowadr) + rows[nefc - 1].rownnz > NNZ
                                             THEN /\ bits' = (bits \cup {"NNZ"})
                                             ELSE /\ TRUE
                                                  /\ bits' = bits
                                  ELSE /\ TRUE
                                       /\ bits' = bits
            ELSE /\ TRUE
                 /\ bits' = bits
      /\ pc' = [pc EXCEPT ![0] = "hf"]
      /\ UNCHANGED << req, NJ, NNZ, nefc, cnt, nnz, rows, addr, launch, fin, 
                      oob, finished, e, a >>

hf == /\ pc[0] = "hf"
      /\ finished' = TRUE
      /\ pc' = [pc EXCEPT ![0] = "Done"]
      /\ UNCHANGED << req, NJ, NNZ, nefc, cnt, nnz, rows, addr, launch, fin, 
                      bits, oob, e, a >>

Host == h0 \/ nt \/ nz \/ hf

(* Allow infinite stuttering to prevent deadlock on termination. *)
Terminating == /\ \A self \in ProcSet: pc[self] = "Done"
               /\ UNCHANGED vars

Next == Host
           \/ (\E self \in Threads: T(self))
           \/ Terminating

Spec == /\ Init /\ [][Next]_vars
        /\ WF_vars(Next)

Termination == <>(\A self \in ProcSet: pc[self] = "Done")

\* END TRANSLATION

------------------------------------------------------------------------
Stored(t) ==   \* every row of thread t is in the table where the thread put it
  \E b \in 0..(MaxNeed + 1) :
    \A i \in 0..(req[t].n - 1) :
      /\ b + i < NJ
      /\ rows[b + i].kind = req[t].kind /\ rows[b + i].id = t /\ rows[b + i].sub = i
      /\ (Sparse => rows[b + i].rowadr >= 0 /\ rows[b + i].rowadr + rows[b + i].rownnz <= NNZ)

ActiveT == {t \in Threads : req[t].kind # "none"}

\* C16: something requested was not stored  =>  a bit is set ;  with the right bit
NoSilentDrop == finished => ((\E t \in ActiveT : ~Stored(t)) => bits # {})
RightBit == finished => /\ (Need(req) > NJ <=> "NEFC" \in bits)
                        /\ ("NNZ" \in bits => Sparse /\ NeedNnz(req) > NNZ)
                        /\ (Detector = "counter" /\ Sparse /\ NeedNnz(req) > NNZ /\ "NEFC" \notin bits => "NNZ" \in bits)
NoBitAllStored == finished => (bits = {} => \A t \in ActiveT : Stored(t))

\* C05: counts and kind-by-position (only meaningful when nothing overflowed)
CountsOK == finished =>
  /\ cnt["E"] = Need([t \in Threads |-> IF req[t].kind = "E" THEN req[t] ELSE [req[t] EXCEPT !.kind = "none"]])
  /\ cnt["E"] + cnt["F"] + cnt["L"] <= nefc
  /\ nefc = Need(req)
KindByPosition == (finished /\ bits = {}) =>
  \A r \in 0..(nefc - 1) :
     rows[r].kind = (IF r < cnt["E"] THEN "E" ELSE IF r < cnt["E"] + cnt["F"] THEN "F"
                     ELSE IF r < cnt["E"] + cnt["F"] + cnt["L"] THEN "L" ELSE "C")
\* every contact row address is -1 or a row of that contact, blocks contiguous
AddrConsistent == finished =>
  \A t \in ActiveT : req[t].kind = "C" /\ (bits \cap {"NNZ"}) = {} =>
     /\ Len(addr[t]) = req[t].n
     /\ \A i \in 1..req[t].n :
          \/ addr[t][i] = -1 /\ "NEFC" \in bits
          \/ addr[t][i] >= 0 /\ addr[t][i] < NJ /\ rows[addr[t][i]].id = t /\ rows[addr[t][i]].kind = "C" /\ rows[addr[t][i]].sub = i - 1
     /\ \A i \in 2..req[t].n : addr[t][i] # -1 => addr[t][i] = addr[t][i-1] + 1
\* sparse rows occupy disjoint address ranges
RowadrDisjoint == (finished /\ Sparse /\ bits = {}) =>
  \A r1, r2 \in 0..(nefc - 1) : r1 < r2 =>
     \/ rows[r1].rowadr + rows[r1].rownnz <= rows[r2].rowadr
     \/ rows[r2].rowadr + rows[r2].rownnz <= rows[r1].rowadr
\* C17: no write outside the row table
IndexInRange == ~oob
\* C11: when no bit is set the stored rows, as a multiset keyed by (kind, id, sub), are exactly the requests
ScheduleIndependent == (finished /\ bits = {}) =>
  /\ \A t \in ActiveT : \A i \in 0..(req[t].n - 1) : Cardinality({r \in 0..(NJ - 1) : rows[r].id = t /\ rows[r].sub = i}) = 1
  /\ \A r \in 0..(NJ - 1) : r >= nefc => rows[r] = Empty

Terminates == <>finished

\* expected result of the serial forward-order schedule, for replay into the code
EmitOutcome == finished =>
  PrintT(<<"EMIT", "outcome", ToJson([req |-> req, NJ |-> NJ, NNZ |-> NNZ, nefc |-> nefc, cnt |-> cnt, nnz |-> nnz,
                                      bits |-> bits, rows |-> rows, addr |-> addr])>>)
=============================================================================
