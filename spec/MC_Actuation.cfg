CONSTANTS
  Ctrls <- McCtrls
  Acts <- McActs
  Dyns <- McDyns
  Gears <- McGears
  Qs <- McQs
  Vs <- McVs
  GainPrms <- McGain
  BiasPrms <- McBias
  CtrlRange <- McCtrlRange
  ActRange <- McActRange
  ForceRange <- McForceRange
  JntRange <- McJntRange
  Mode = "all"
  NCase = 1
SPECIFICATION Spec
INVARIANT Lattice
INVARIANT ForceWithinLimits
INVARIANT QfrcWithinLimits
INVARIANT ActWithinLimits
INVARIANT ClampFlagOnlyCtrl
INVARIANT InRangeUnclamped
INVARIANT StatefulIgnoresCtrl
INVARIANT EarlyUsesNext
