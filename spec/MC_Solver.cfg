CONSTANTS
  NWorld = 3
  Limit = 3
  Cond = TRUE
  MaxIter = 3
SPECIFICATION Spec
INVARIANT NiterBound
INVARIANT NsolvingCount
INVARIANT ExitCorrect
PROPERTY DoneFrozen
PROPERTY Terminates
