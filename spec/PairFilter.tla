----------------------------- MODULE PairFilter -----------------------------
(* Which geom pairs may produce contacts (io.py:put_model nxn_pairid table; MuJoCo's rules).

   Bodies 1..NB form a forest numbered depth-first (parent[b] on the root path of b-1 or 0); a body is
   either jointed or rigidly welded to its parent.  Every body carries one geom (geom b), the world
   carries geom 0.  contype / conaffinity are 2-bit masks.  *)
EXTENDS Integers, FiniteSets, Sequences, TLC, Json

CONSTANTS NB, Masks, Mode, NCfg

VARIABLES c, k
vars == <<c, k>>
Bodies == 1..NB
Geoms == 0..NB                          \* geom g lives on body g (geom 0 on the world)

RECURSIVE RootPath(_, _)
RootPath(par, b) == IF b = 0 THEN {} ELSE {b} \cup RootPath(par, par[b])
ValidForest(par) == \A b \in Bodies : par[b] = 0 \/ (b > 1 /\ par[b] \in RootPath(par, b - 1))

\* weld body: nearest ancestor-or-self that has a joint, 0 (world) if none  (MuJoCo body_weldid)
RECURSIVE Weld(_, _, _)
Weld(par, jointed, b) == IF b = 0 THEN 0 ELSE IF jointed[b] THEN b ELSE Weld(par, jointed, par[b])
WeldParent(par, jointed, w) == IF w = 0 THEN 0 ELSE Weld(par, jointed, par[w])

BitAnd(a, b) == (IF a % 2 = 1 /\ b % 2 = 1 THEN 1 ELSE 0) + (IF a \div 2 = 1 /\ b \div 2 = 1 THEN 2 ELSE 0)

\* ---- the rule as the property states it
MaskOK(x, g1, g2) == BitAnd(x.contype[g1], x.conaffinity[g2]) # 0 \/ BitAnd(x.contype[g2], x.conaffinity[g1]) # 0
SameWeld(x, g1, g2) == Weld(x.parent, x.jointed, g1) = Weld(x.parent, x.jointed, g2)
ParentChild(x, g1, g2) ==
  LET w1 == Weld(x.parent, x.jointed, g1)  w2 == Weld(x.parent, x.jointed, g2) IN
  w1 # 0 /\ w2 # 0 /\ (w1 = WeldParent(x.parent, x.jointed, w2) \/ w2 = WeldParent(x.parent, x.jointed, w1))
Excluded(x, g1, g2) == {g1, g2} \in x.exclude                         \* exclude is a set of body pairs; geom g is on body g
Explicit(x, g1, g2) == {g1, g2} \in x.pairs
Dynamic(x, g1, g2) == MaskOK(x, g1, g2) /\ ~SameWeld(x, g1, g2) /\ ~(x.filterparent /\ ParentChild(x, g1, g2)) /\ ~Excluded(x, g1, g2)
MayCollide(x, g1, g2) == Explicit(x, g1, g2) \/ Dynamic(x, g1, g2)
\* table value of put_model: explicit pair id / -1 dynamic / -2 filtered
Kind(x, g1, g2) == IF Explicit(x, g1, g2) THEN "explicit" ELSE IF Dynamic(x, g1, g2) THEN "dynamic" ELSE "filtered"

PairsOf == {p \in SUBSET Geoms : Cardinality(p) = 2}
Rand2(S) == LET RECURSIVE Go(_) Go(T) == IF T = {} THEN {} ELSE LET e == CHOOSE z \in T : TRUE IN (IF RandomElement({TRUE, FALSE, FALSE, FALSE}) THEN {e} ELSE {}) \cup Go(T \ {e}) IN Go(S)
RandParent(u) ==
  LET RECURSIVE Go(_, _)
      Go(b, par) == IF b > NB THEN par ELSE Go(b + 1, [par EXCEPT ![b] = IF b = 1 THEN 0 ELSE RandomElement({0} \cup RootPath(par, b - 1))])
  IN Go(1, [b \in Bodies |-> 0])
RandCfg(u) == [parent |-> RandParent(u), jointed |-> [b \in Bodies |-> RandomElement({TRUE, TRUE, FALSE})],
               contype |-> [g \in Geoms |-> RandomElement(Masks)], conaffinity |-> [g \in Geoms |-> RandomElement(Masks)],
               exclude |-> Rand2({p \in PairsOf : 0 \notin p}), pairs |-> Rand2(PairsOf), filterparent |-> RandomElement({TRUE, TRUE, FALSE})]

\* Mode "enum": every forest x every jointed/welded assignment x filterparent, with masks that let every pair through and no excludes /
\* explicit pairs - the weld-root and weld-parent rules exhaustively for NB bodies
Forests == {p \in [Bodies -> 0..NB] : ValidForest(p)}
EnumCfgs == {[parent |-> p, jointed |-> j, contype |-> [g \in Geoms |-> 1], conaffinity |-> [g \in Geoms |-> 1], exclude |-> {}, pairs |-> {}, filterparent |-> f] :
               p \in Forests, j \in [Bodies -> BOOLEAN], f \in BOOLEAN}
Init == k = 1 /\ (IF Mode = "enum" THEN c \in EnumCfgs ELSE c = RandCfg(0))
Next == Mode = "sim" /\ k < NCfg /\ c' = RandCfg(k) /\ k' = k + 1
Spec == Init /\ [][Next]_vars
------------------------------------------------------------------------
\* sanity of the rule itself
Symmetric == \A g1, g2 \in Geoms : g1 # g2 => MayCollide(c, g1, g2) = MayCollide(c, g2, g1)
StaticNeverDynamic == \A g1, g2 \in Geoms : (g1 # g2 /\ Weld(c.parent, c.jointed, g1) = 0 /\ Weld(c.parent, c.jointed, g2) = 0) => ~Dynamic(c, g1, g2)
ExplicitWins == \A g1, g2 \in Geoms : (g1 # g2 /\ Explicit(c, g1, g2)) => MayCollide(c, g1, g2)
EmitCfg == PrintT(<<"EMIT", "cfg", ToJson([c |-> [parent |-> c.parent, jointed |-> c.jointed, contype |-> c.contype, conaffinity |-> c.conaffinity,
                                                   exclude |-> {<<CHOOSE a \in p : \A b \in p : a <= b, CHOOSE a \in p : \A b \in p : a >= b>> : p \in c.exclude},
                                                   pairs |-> {<<CHOOSE a \in p : \A b \in p : a <= b, CHOOSE a \in p : \A b \in p : a >= b>> : p \in c.pairs},
                                                   filterparent |-> c.filterparent],
                                            kinds |-> {<<g1, g2, Kind(c, g1, g2)>> : g1 \in Geoms, g2 \in Geoms} ])>>)
=============================================================================
