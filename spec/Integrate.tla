----------------------------- MODULE Integrate -----------------------------
(* Time integration (forward.py: euler / implicit / rungekutta4 -> _advance: _next_activation,
   _next_velocity, _next_position, _next_time, warmstart copy) on an exactly representable lattice.

   Model: two unit-mass slide bodies, no gravity, timestep dt = 1/4.
     A  driven by a motor:                 force = ctrlA
     B  driven by an integrator actuator:  act' = act + dt*ctrlB ,  force = act   (the activation BEFORE the update)
   All quantities are integers in units of 1/64:  v' = v + dt*a ,  q' = q + dt*v'  (semi-implicit Euler;
   implicitfast / implicit coincide because no force depends on velocity; RK4 is exact for A only when B is idle).
   The step also advances time by exactly dt and stores qacc as the next warmstart.  *)
EXTENDS Integers, Sequences, TLC, Json

CONSTANTS Ctrls,        \* integer controls
          MaxLevel, Record, Pick(_),
          RK4           \* TRUE: Runge-Kutta 4 (only motor A is driven; B's control is 0)

VARIABLES qA, vA, qB, vB, act, t, warmA, warmB, op, hist
vars == <<qA, vA, qB, vB, act, t, warmA, warmB, op, hist>>

PickAll(S) == S
PickRand(S) == {RandomElement(S)}

Init == /\ qA = 0 /\ vA = 0 /\ qB = 0 /\ vB = 0 /\ act = 0 /\ t = 0 /\ warmA = 0 /\ warmB = 0
        /\ op = [kind |-> "init"] /\ hist = <<>>

\* one step(): units of 1/64, dt = 1/4 -> multiply by 16 for dt*x when x is an integer, divide by 4 when x is in 1/64 units
Step(cA, cB) ==
  LET accA == 64 * cA                       \* qacc of A in 1/64 units
      accB == act                           \* qacc of B = act / mass
      vA2 == vA + accA \div 4
      vB2 == vB + accB \div 4
  IN /\ vA' = vA2 /\ vB' = vB2
     /\ qA' = IF RK4 THEN qA + vA \div 4 + accA \div 32 ELSE qA + vA2 \div 4      \* RK4: q + dt v + dt^2/2 a (exact for constant force)
     /\ qB' = qB + vB2 \div 4
     /\ act' = act + 16 * cB
     /\ t' = t + 16
     /\ warmA' = accA /\ warmB' = accB
     /\ op' = [kind |-> "step", cA |-> cA, cB |-> cB]

Next == /\ TLCGet("level") < MaxLevel
        /\ \E cA \in Pick(Ctrls), cB \in Pick(IF RK4 THEN {0} ELSE Ctrls) : Step(cA, cB)
        /\ hist' = IF Record THEN Append(hist, [op |-> op', qA |-> qA', vA |-> vA', qB |-> qB', vB |-> vB', act |-> act', t |-> t', warmA |-> warmA', warmB |-> warmB'])
                   ELSE hist

Spec == Init /\ [][Next]_vars
------------------------------------------------------------------------
\* everything stays on the lattice (the divisions above are exact)
Lattice == vA % 4 = 0 /\ vB % 4 = 0 /\ act % 16 = 0
TimeAdvances == [][t' = t + 16]_vars
WarmstartIsQacc == [][warmA' = 64 * op'.cA /\ warmB' = act]_vars
\* semi-implicit: the position update uses the NEW velocity (Euler family)
SemiImplicit == [][~RK4 => (qA' - qA) * 4 = vA' /\ (qB' - qB) * 4 = vB']_vars
\* the activation used for the force is the one before the update
ActLags == [][vB' - vB = act \div 4]_vars

EmitBeh == TLCGet("level") = MaxLevel => PrintT(<<"EMIT", "beh", ToJson(hist)>>)
=============================================================================
