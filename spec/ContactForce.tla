---------------------------- MODULE ContactForce ----------------------------
(* support.py:contact_force / _decode_pyramid : the contact wrench decoded from the solved row forces.

   Integer model: edge / row forces are small integers, friction coefficients integers
   (mu = <<slide, slide, torsion, roll, roll>>), so the decoded wrench is exact.
   Pyramidal cone, condim d > 1 : rows come in pairs (d1_i, d2_i), i = 1..d-1:
        normal = SUM_i (d1_i + d2_i) ,   f_i = (d1_i - d2_i) * mu_i
   Elliptic cone: the rows are the wrench components.  A contact without rows (address -1) has zero
   wrench; rows at or beyond njmax (cut by the capacity) count as zero.  *)
EXTENDS Integers, Sequences, FiniteSets, TLC, Json
CONSTANTS Forces, Mus, Mode, NCase
VARIABLES c, k
vars == <<c, k>>
Dims == {1, 3, 4, 6}
NRows(cone, dim) == IF dim = 1 THEN 1 ELSE IF cone = "pyramidal" THEN 2 * (dim - 1) ELSE dim
Mu(x) == <<x.mu[1], x.mu[1], x.mu[2], x.mu[3], x.mu[3]>>
RowF(x, r) == IF r <= x.navail THEN x.rows[r] ELSE 0            \* rows cut off by njmax read as zero
RECURSIVE SumPairs(_, _)
SumPairs(x, i) == IF i = 0 THEN 0 ELSE RowF(x, 2 * i - 1) + RowF(x, 2 * i) + SumPairs(x, i - 1)
Wrench(x) ==
  IF ~x.hasrows THEN [i \in 1..6 |-> 0]
  ELSE IF x.dim = 1 THEN [i \in 1..6 |-> IF i = 1 THEN RowF(x, 1) ELSE 0]
  ELSE IF x.cone = "pyramidal"
       THEN [i \in 1..6 |-> IF i = 1 THEN SumPairs(x, x.dim - 1)
                            ELSE IF i <= x.dim THEN (RowF(x, 2 * (i - 1) - 1) - RowF(x, 2 * (i - 1))) * Mu(x)[i - 1] ELSE 0]
       ELSE [i \in 1..6 |-> IF i <= x.dim THEN RowF(x, i) ELSE 0]
RandCase(u) ==
  LET cone == RandomElement({"pyramidal", "elliptic"})  dim == RandomElement(Dims)  n == NRows(cone, dim) IN
  [cone |-> cone, dim |-> dim, mu |-> <<RandomElement(Mus), RandomElement(Mus), RandomElement(Mus)>>, hasrows |-> RandomElement({TRUE, TRUE, TRUE, FALSE}),
   rows |-> [r \in 1..n |-> IF cone = "pyramidal" \/ r = 1 THEN RandomElement(Forces) ELSE RandomElement(Forces) - RandomElement(Forces)],
   navail |-> n]
Init == c = RandCase(0) /\ k = 1
Next == k < NCase /\ c' = RandCase(k) /\ k' = k + 1
Spec == Init /\ [][Next]_vars
------------------------------------------------------------------------
W == Wrench(c)
NoRowsNoForce == ~c.hasrows => \A i \in 1..6 : W[i] = 0
\* non-negative pyramid edges give a non-negative normal force and tangential components inside the (linearised) cone
PyramidInCone == (c.hasrows /\ c.cone = "pyramidal" /\ c.dim > 1) => (W[1] >= 0 /\ \A i \in 2..c.dim : W[i] <= Mu(c)[i - 1] * W[1] /\ -W[i] <= Mu(c)[i - 1] * W[1])
UnusedZero == \A i \in 1..6 : i > c.dim => W[i] = 0
EmitCase == PrintT(<<"EMIT", "case", ToJson([c |-> c, w |-> W])>>)
=============================================================================
