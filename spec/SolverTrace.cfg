CONSTANTS
  NWorld = 1
  Limit = 1
  Cond = TRUE
  MaxIter = 1
SPECIFICATION Spec
INVARIANT ReportT
INVARIANT CoverageT
INVARIANT AllAccepted
