----------------------------- MODULE ContactBuf -----------------------------
(* The shared collision buffers (collision_driver.py:_add_geom_pair, collision_core.py:write_contact,
   forward.py:fwd_position two-pass sleeping collision, forward.py:_next_time).

   All worlds share ONE pair buffer and ONE contact buffer of capacity naconmax, filled through
   the global atomic counters ncollision and nacon.
     broadphase thread (one per candidate pair):  pid = fetch-add(ncollision); if pid < cap: slot[pid] = pair
     narrowphase thread (one per slot):            for each contact of the pair in its slot:
                                                     cid = fetch-add(nacon); if cid < cap: con[cid] = contact
   With sleeping enabled collision runs twice per step: pass 2 re-zeroes ncollision (nacon is kept)
   and emits only pairs of newly woken bodies.  _next_time sets BROADPHASE / NARROWPHASE for every
   world from the final counter values.

   Pass2 = "zero"   : the pass-1 value of ncollision is forgotten (code as found; TLC: NoSilentDrop fails)
   Pass2 = "sticky" : a pass-1 broadphase overflow is recorded before the counter is reset (intended). *)
EXTENDS Integers, Sequences, FiniteSets, TLC, Json, ContactExp

CONSTANTS P1,        \* pass-1 candidate pairs: set of records [id, w, k]  (k = contacts the pair yields)
          P2,        \* pass-2 candidate pairs (only when Sleep)
          Sleep,     \* BOOLEAN
          Pass2,     \* "zero" | "sticky"
          CapChoices,
          MaxCap

Pairs == P1 \cup (IF Sleep THEN P2 ELSE {})
PairIds == {p.id : p \in Pairs}
PairOf(i) == CHOOSE p \in Pairs : p.id = i
None == [id |-> 0, w |-> -1, k |-> 0]
NoCon == [pair |-> 0, w |-> -1, j |-> 0]
Slots == 0..(MaxCap - 1)
NTotal(S) == LET RECURSIVE Sum(_) Sum(T) == IF T = {} THEN 0 ELSE LET p == CHOOSE q \in T : TRUE IN p.k + Sum(T \ {p}) IN Sum(S)

(* --fair algorithm ContactBuf {
  variables
    cap \in CapChoices,
    ncoll = 0, nacon = 0,
    slot = [i \in Slots |-> None],
    con = [i \in Slots |-> NoCon],
    phase = "bp1",
    stored = {},            \* ids of pairs that obtained a slot
    sticky = FALSE,
    bits = {},
    oob = FALSE,
    finished = FALSE,
    bdone = {}, ndone = {};

  define {
    PassPairs(ph) == IF ph = "bp1" THEN P1 ELSE IF Sleep THEN P2 ELSE {}
  }

  process (B \in {0} \X PairIds)
    variables pid = -1;
  {
    b0: await (phase = "bp1" /\ PairOf(self[2]) \in P1) \/ (phase = "bp2" /\ PairOf(self[2]) \in P2 /\ PairOf(self[2]) \notin P1);
    b1: pid := ncoll; ncoll := ncoll + 1;
    b2: if (pid < cap) {
          oob := oob \/ pid >= MaxCap;
          slot[pid] := PairOf(self[2]);
          stored := stored \cup {self[2]};
        };
    b3: bdone := bdone \cup {self[2]};
  }

  \* narrowphase: thread <<pass, i>> handles slot i of that pass
  process (N \in {1, 2} \X Slots)
    variables j = 1, cid = -1;
  {
    n0: await phase = (IF self[1] = 1 THEN "np1" ELSE "np2");
        if (~(self[2] < ncoll /\ self[2] < cap)) { goto n3; };
    n1: while (j <= slot[self[2]].k) {
          cid := nacon; nacon := nacon + 1;
    n2:   if (cid < cap) {
            oob := oob \/ cid >= MaxCap;
            con[cid] := [pair |-> slot[self[2]].id, w |-> slot[self[2]].w, j |-> j];
          };
          j := j + 1;
        };
    n3: ndone := ndone \cup {self};
  }

  process (Host = <<3, 0>>)
  {
    h1: await \A p \in P1 : p.id \in bdone;
        phase := "np1";
    h2: await \A i \in Slots : <<1, i>> \in ndone;
        if (Sleep) {
          if (Pass2 = "sticky" /\ ncoll > cap) { sticky := TRUE; };
          ncoll := 0;
          phase := "bp2";
    h3:   await \A p \in P2 \ P1 : p.id \in bdone;
          phase := "np2";
    h4:   await \A i \in Slots : <<2, i>> \in ndone;
        };
    nt: phase := "done";
        bits := (IF ncoll > cap \/ sticky THEN {"BROADPHASE"} ELSE {}) \cup (IF nacon > cap THEN {"NARROWPHASE"} ELSE {});
        finished := TRUE;
  }
} *)
\* BEGIN TRANSLATION
VARIABLES pc, cap, ncoll, nacon, slot, con, phase, stored, sticky, bits, oob, 
          finished, bdone, ndone

(* define statement *)
PassPairs(ph) == IF ph = "bp1" THEN P1 ELSE IF Sleep THEN P2 ELSE {}

VARIABLES pid, j, cid

vars == << pc, cap, ncoll, nacon, slot, con, phase, stored, sticky, bits, oob, 
           finished, bdone, ndone, pid, j, cid >>

ProcSet == ({0} \X PairIds) \cup ({1, 2} \X Slots) \cup {<<3, 0>>}

Init == (* Global variables *)
        /\ cap \in CapChoices
        /\ ncoll = 0
        /\ nacon = 0
        /\ slot = [i \in Slots |-> None]
        /\ con = [i \in Slots |-> NoCon]
        /\ phase = "bp1"
        /\ stored = {}
        /\ sticky = FALSE
        /\ bits = {}
        /\ oob = FALSE
        /\ finished = FALSE
        /\ bdone = {}
        /\ ndone = {}
        (* Process B *)
        /\ pid = [self \in {0} \X PairIds |-> -1]
        (* Process N *)
        /\ j = [self \in {1, 2} \X Slots |-> 1]
        /\ cid = [self \in {1, 2} \X Slots |-> -1]
        /\ pc = [self \in ProcSet |-> CASE self \in {0} \X PairIds -> "b0"
                                        [] self \in {1, 2} \X Slots -> "n0"
                                        [] self = <<3, 0>> -> "h1"]

b0(self) == /\ pc[self] = "b0"
            /\ (phase = "bp1" /\ PairOf(self[2]) \in P1) \/ (phase = "bp2" /\ PairOf(self[2]) \in P2 /\ PairOf(self[2]) \notin P1)
            /\ pc' = [pc EXCEPT ![self] = "b1"]
            /\ UNCHANGED << cap, ncoll, nacon, slot, con, phase, stored, 
                            sticky, bits, oob, finished, bdone, ndone, pid, j, 
                            cid >>

b1(self) == /\ pc[self] = "b1"
            /\ pid' = [pid EXCEPT ![self] = ncoll]
            /\ ncoll' = ncoll + 1
            /\ pc' = [pc EXCEPT ![self] = "b2"]
            /\ UNCHANGED << cap, nacon, slot, con, phase, stored, sticky, bits, 
                            oob, finished, bdone, ndone, j, cid >>

b2(self) == /\ pc[self] = "b2"
            /\ IF pid[self] < cap
                  THEN /\ oob' = (oob \/ pid[self] >= MaxCap)
                       /\ slot' = [slot EXCEPT ![pid[self]] = PairOf(self[2])]
                       /\ stored' = (stored \cup {self[2]})
                  ELSE /\ TRUE
                       /\ UNCHANGED << slot, stored, oob >>
            /\ pc' = [pc EXCEPT ![self] = "b3"]
            /\ UNCHANGED << cap, ncoll, nacon, con, phase, sticky, bits, 
                            finished, bdone, ndone, pid, j, cid >>

b3(self) == /\ pc[self] = "b3"
            /\ bdone' = (bdone \cup {self[2]})
            /\ pc' = [pc EXCEPT ![self] = "Done"]
            /\ UNCHANGED << cap, ncoll, nacon, slot, con, phase, stored, 
                            sticky, bits, oob, finished, ndone, pid, j, cid >>

B(self) == b0(self) \/ b1(self) \/ b2(self) \/ b3(self)

n0(self) == /\ pc[self] = "n0"
            /\ phase = (IF self[1] = 1 THEN "np1" ELSE "np2")
            /\ IF ~(self[2] < ncoll /\ self[2] < cap)
                  THEN /\ pc' = [pc EXCEPT ![self] = "n3"]
                  ELSE /\ pc' = [pc EXCEPT ![self] = "n1"]
            /\ UNCHANGED << cap, ncoll, nacon, slot, con, phase, stored, 
                            sticky, bits, oob, finished, bdone, ndone, pid, j, 
                            cid >>

n1(self) == /\ pc[self] = "n1"
            /\ IF j[self] <= slot[self[2]].k
                  THEN /\ cid' = [cid EXCEPT ![self] = nacon]
                       /\ nacon' = nacon + 1
                       /\ pc' = [pc EXCEPT ![self] = "n2"]
                  ELSE /\ pc' = [pc EXCEPT ![self] = "n3"]
                       /\ UNCHANGED << nacon, cid >>
            /\ UNCHANGED << cap, ncoll, slot, con, phase, stored, sticky, bits, 
                            oob, finished, bdone, ndone, pid, j >>

n2(self) == /\ pc[self] = "n2"
            /\ IF cid[self] < cap
                  THEN /\ oob' = (oob \/ cid[self] >= MaxCap)
                       /\ con' = [con EXCEPT ![cid[self]] = [pair |-> slot[self[2]].id, w |-> slot[self[2]].w, j |-> j[self]]]
                  ELSE /\ TRUE
                       /\ UNCHANGED << con, oob >>
            /\ j' = [j EXCEPT ![self] = j[self] + 1]
            /\ pc' = [pc EXCEPT ![self] = "n1"]
            /\ UNCHANGED << cap, ncoll, nacon, slot, phase, stored, sticky, 
                            bits, finished, bdone, ndone, pid, cid >>

n3(self) == /\ pc[self] = "n3"
            /\ ndone' = (ndone \cup {self})
            /\ pc' = [pc EXCEPT ![self] = "Done"]
            /\ UNCHANGED << cap, ncoll, nacon, slot, con, phase, stored, 
                            sticky, bits, oob, finished, bdone, pid, j, cid >>

N(self) == n0(self) \/ n1(self) \/ n2(self) \/ n3(self)

h1 == /\ pc[<<3, 0>>] = "h1"
      /\ \A p \in P1 : p.id \in bdone
      /\ phase' = "np1"
      /\ pc' = [pc EXCEPT ![<<3, 0>>] = "h2"]
      /\ UNCHANGED << cap, ncoll, nacon, slot, con, stored, sticky, bits, oob, 
                      finished, bdone, ndone, pid, j, cid >>

h2 == /\ pc[<<3, 0>>] = "h2"
      /\ \A i \in Slots : <<1, i>> \in ndone
      /\ IF Sleep
            THEN /\ IF Pass2 = "sticky" /\ ncoll > cap
                       THEN /\ sticky' = TRUE
                       ELSE /\ TRUE
                            /\ UNCHANGED sticky
                 /\ ncoll' = 0
                 /\ phase' = "bp2"
                 /\ pc' = [pc EXCEPT ![<<3, 0>>] = "h3"]
            ELSE /\ pc' = [pc EXCEPT ![<<3, 0>>] = "nt"]
                 /\ UNCHANGED << ncoll, phase, sticky >>
      /\ UNCHANGED << cap, nacon, slot, con, stored, bits, oob, finished, 
                      bdone, ndone, pid, j, cid >>

h3 == /\ pc[<<3, 0>>] = "h3"
      /\ \A p \in P2 \ P1 : p.id \in bdone
      /\ phase' = "np2"
      /\ pc' = [pc EXCEPT ![<<3, 0>>] = "h4"]
      /\ UNCHANGED << cap, ncoll, nacon, slot, con, stored, sticky, bits, oob, 
                      finished, bdone, ndone, pid, j, cid >>

h4 == /\ pc[<<3, 0>>] = "h4"
      /\ \A i \in Slots : <<2, i>> \in ndone
      /\ pc' = [pc EXCEPT ![<<3, 0>>] = "nt"]
      /\ UNCHANGED << cap, ncoll, nacon, slot, con, phase, stored, sticky, 
                      bits, oob, finished, bdone, ndone, pid, j, cid >>

nt == /\ pc[<<3, 0>>] = "nt"
      /\ phase' = "done"
      /\ bits' = ((IF ncoll > cap \/ sticky THEN {"BROADPHASE"} ELSE {}) \cup (IF nacon > cap THEN {"NARROWPHASE"} ELSE {}))
      /\ finished' = TRUE
      /\ pc' = [pc EXCEPT ![<<3, 0>>] = "Done"]
      /\ UNCHANGED << cap, ncoll, nacon, slot, con, stored, sticky, oob, bdone, 
                      ndone, pid, j, cid >>

Host == h1 \/ h2 \/ h3 \/ h4 \/ nt

(* Allow infinite stuttering to prevent deadlock on termination. *)
Terminating == /\ \A self \in ProcSet: pc[self] = "Done"
               /\ UNCHANGED vars

Next == Host
           \/ (\E self \in {0} \X PairIds: B(self))
           \/ (\E self \in {1, 2} \X Slots: N(self))
           \/ Terminating

Spec == /\ Init /\ [][Next]_vars
        /\ WF_vars(Next)

Termination == <>(\A self \in ProcSet: pc[self] = "Done")

\* END TRANSLATION

------------------------------------------------------------------------
AllContacts == {[pair |-> p.id, w |-> p.w, j |-> jj] : p \in Pairs, jj \in 1..MaxCap} \cap
               {c \in [pair : PairIds, w : {p.w : p \in Pairs}, j : 1..MaxCap] : c.j <= PairOf(c.pair).k /\ c.w = PairOf(c.pair).w}
Held == {con[i] : i \in {s \in Slots : s < cap /\ s < nacon}}

NoSilentDrop == finished =>
  /\ ((\E p \in Pairs : p.id \notin stored) => "BROADPHASE" \in bits)
  /\ ((\E c \in AllContacts : c.pair \in stored /\ c \notin Held) => "NARROWPHASE" \in bits)
\* with no bit set every contact of every candidate pair is held exactly once, tagged with its own world
NoBitComplete == (finished /\ bits = {}) =>
  /\ Held = AllContacts
  /\ nacon = Cardinality(AllContacts)
  /\ \A i1, i2 \in Slots : (i1 < nacon /\ i2 < nacon /\ i1 # i2) => con[i1] # con[i2]
\* a bit is only set when something really exceeded the capacity
NoSpuriousBit == finished =>
  /\ ("NARROWPHASE" \in bits => NTotal(Pairs) > cap)
  /\ ("BROADPHASE" \in bits => Cardinality(P1) > cap \/ (Sleep /\ Cardinality(P2 \ P1) > cap))
IndexInRange == ~oob
\* C09: a world's contacts are exactly its own pairs' contacts (no leak across worlds) when no bit is set
WorldIsolation == (finished /\ bits = {}) =>
  \A w \in {p.w : p \in Pairs} : {c \in Held : c.w = w} = {c \in AllContacts : PairOf(c.pair).w = w}
Terminates == <>finished

\* closed form used to predict the bits for measured scenes (checked against the model by ExpectedOK)
ExpectedOK == finished =>
  LET c1 == Cardinality(P1)  c2 == IF Sleep THEN Cardinality(P2 \ P1) ELSE 0  IN
  /\ ("BROADPHASE" \in bits) = ExpBroad(c1, c2, cap)
  /\ (ExpNarrow(c1, c2, NTotal(Pairs), cap) = "set" => "NARROWPHASE" \in bits)
  /\ (ExpNarrow(c1, c2, NTotal(Pairs), cap) = "clear" => "NARROWPHASE" \notin bits)
=============================================================================
