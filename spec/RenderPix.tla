------------------------------ MODULE RenderPix ------------------------------
(* render.py / render_util.py: which buffer cell holds which pixel of which camera, and what it must contain.

   A render context renders the ACTIVE cameras, in model order (render index r = 0, 1, ...).  Every active camera owns
   w*h rays of the flat ray index space; the depth / segmentation / rgb buffers hold only the cameras that produce that
   output, packed in render order (depth_adr, seg_adr, rgb_adr; -1 when the camera does not produce the output).

     thread rayid  ->  (r, local)              _render_megakernel: cumulative scan over cam_res
     pixel         ->  px = local % w, py = local / w
     cell          ->  adr[out][r] + local

   Layout invariants (mode "mc", every camera list of the small universe):
     RayBijection   every rayid below the total belongs to exactly one (r, local), local < w*h
     CellsDisjoint  two different pixels never share a cell of an output buffer
     CellsOnto      every cell of an output buffer belongs to a pixel (no gaps: buffer size = sum of producers)
     NoOutputNoCell a camera that does not produce an output has address -1 and no cell

   What a cell contains is RayPick's pick restricted to the rendered geoms (those in an enabled group; visibility,
   static flag and body exclusion play no part), with back-face culling per geom when the context asks for it; depth
   is the distance projected on the optical axis.  That part is evaluated by the replay (per-geom MuJoCo distances).

   Mode "sim": TLC emits camera lists and context options with the spec's addresses for the replay. *)
EXTENDS Integers, Sequences, FiniteSets, TLC, Json

CONSTANTS Mode, NCfg, MaxCam

Outs == {"rgb", "depth", "seg"}
Npix(cam) == cam.w * cam.h
Produces(cam, out) == CASE out = "rgb" -> cam.rgb [] out = "depth" -> cam.depth [] out = "seg" -> cam.seg

\* active cameras in model order: sequence of model indices
RECURSIVE ActiveFrom(_, _)
ActiveFrom(cams, i) == IF i > Len(cams) THEN <<>> ELSE (IF cams[i].active THEN <<i>> ELSE <<>>) \o ActiveFrom(cams, i + 1)
Active(cams) == ActiveFrom(cams, 1)
NRender(cams) == Len(Active(cams))
CamAt(cams, r) == cams[Active(cams)[r + 1]]                      \* r is 0-based as in the code

RECURSIVE SumBefore(_, _, _)
\* number of cells that cameras of render index < r put into buffer out ("ray": every active camera)
SumBefore(cams, out, r) == IF r = 0 THEN 0 ELSE SumBefore(cams, out, r - 1) + (IF out = "ray" \/ Produces(CamAt(cams, r - 1), out) THEN Npix(CamAt(cams, r - 1)) ELSE 0)
Adr(cams, out, r) == IF Produces(CamAt(cams, r), out) THEN SumBefore(cams, out, r) ELSE -1
Size(cams, out) == SumBefore(cams, out, NRender(cams))
Total(cams) == SumBefore(cams, "ray", NRender(cams))

\* the megakernel's scan
RECURSIVE Scan(_, _, _, _)
Scan(cams, rayid, i, accum) == IF i >= NRender(cams) THEN <<-1, -1>>
                               ELSE IF rayid < accum + Npix(CamAt(cams, i)) THEN <<i, rayid - accum>> ELSE Scan(cams, rayid, i + 1, accum + Npix(CamAt(cams, i)))
CamOfRay(cams, rayid) == Scan(cams, rayid, 0, 0)

Pixels(cams) == {<<r, px, py>> \in (0..(NRender(cams) - 1)) \X (0..20) \X (0..20) : px < CamAt(cams, r).w /\ py < CamAt(cams, r).h}
Local(cams, p) == p[3] * CamAt(cams, p[1]).w + p[2]
Cell(cams, out, p) == Adr(cams, out, p[1]) + Local(cams, p)
RayId(cams, p) == SumBefore(cams, "ray", p[1]) + Local(cams, p)

\* ------------------------------------------------------------------ universe
McRes == {<<1, 1>>, <<2, 1>>, <<1, 3>>, <<2, 2>>}
McCam == {[w |-> rs[1], h |-> rs[2], rgb |-> a, depth |-> b, seg |-> s, active |-> act, proj |-> "fovy", home |-> "world"] :
            rs \in McRes, a \in BOOLEAN, b \in BOOLEAN, s \in BOOLEAN, act \in BOOLEAN}
McCams == UNION {[1..n -> McCam] : n \in 1..MaxCam}

SimRes == {<<8, 6>>, <<12, 9>>, <<5, 7>>, <<16, 4>>, <<3, 3>>, <<9, 12>>}
Coin(n) == RandomElement(1..n) = 1
RandCam(i) == LET rs == RandomElement(SimRes) IN
  [w |-> rs[1], h |-> rs[2], rgb |-> Coin(4), depth |-> ~Coin(4), seg |-> ~Coin(4), active |-> ~Coin(4),
   proj |-> RandomElement({"fovy", "fovy", "intrinsic", "ortho"} \cup {"fovy"}), home |-> RandomElement({"world", "moving", "target"})]
RandSub(S) == LET RECURSIVE Go(_) Go(T) == IF T = {} THEN {} ELSE LET e == CHOOSE z \in T : TRUE IN (IF Coin(3) THEN {} ELSE {e}) \cup Go(T \ {e}) IN Go(S)
RandCfg(u) == LET n == RandomElement(1..MaxCam)
                  cs0 == [i \in 1..n |-> RandCam(i)]
                  \* at least one active camera that produces depth and segmentation
                  cs == [cs0 EXCEPT ![1] = [cs0[1] EXCEPT !.active = TRUE, !.depth = TRUE, !.seg = TRUE]]
                  g0 == RandSub(0..5)
                  pre == Coin(2)
              IN [cams |-> cs, nworld |-> RandomElement(1..3), cull |-> ~Coin(3), groups |-> IF g0 = {} THEN {0, 1, 2} ELSE g0,
                  precomputed |-> pre, batched |-> (~pre /\ Coin(2)), room |-> Coin(2), ngeom |-> RandomElement(4..8)]

VARIABLES c, k
vars == <<c, k>>
Init == k = 1 /\ (IF Mode = "sim" THEN c = RandCfg(0) ELSE c \in [cams : McCams])
Next == Mode = "sim" /\ k < NCfg /\ c' = RandCfg(k) /\ k' = k + 1
Spec == Init /\ [][Next]_vars

\* ------------------------------------------------------------------ properties
RayBijection == LET cs == c.cams IN
  /\ \A rayid \in 0..(Total(cs) - 1) : LET rl == CamOfRay(cs, rayid) IN
       rl[1] >= 0 /\ rl[2] >= 0 /\ rl[2] < Npix(CamAt(cs, rl[1])) /\ SumBefore(cs, "ray", rl[1]) + rl[2] = rayid
  /\ CamOfRay(cs, Total(cs)) = <<-1, -1>>
  /\ \A p \in Pixels(cs) : CamOfRay(cs, RayId(cs, p)) = <<p[1], Local(cs, p)>>
CellsDisjoint == LET cs == c.cams IN \A out \in Outs : \A p, q \in Pixels(cs) :
  (p # q /\ Produces(CamAt(cs, p[1]), out) /\ Produces(CamAt(cs, q[1]), out)) => Cell(cs, out, p) # Cell(cs, out, q)
CellsOnto == LET cs == c.cams IN \A out \in Outs :
  {Cell(cs, out, p) : p \in {q \in Pixels(cs) : Produces(CamAt(cs, q[1]), out)}} = 0..(Size(cs, out) - 1)
NoOutputNoCell == LET cs == c.cams IN \A out \in Outs : \A r \in 0..(NRender(cs) - 1) : (~Produces(CamAt(cs, r), out)) <=> Adr(cs, out, r) = -1
TypeOK == k >= 1
Layout(cs) == [nrender |-> NRender(cs), active |-> Active(cs), total |-> Total(cs),
               adr |-> [out \in Outs |-> [r \in 1..NRender(cs) |-> Adr(cs, out, r - 1)]], size |-> [out \in Outs |-> Size(cs, out)]]
EmitCfg == Mode = "sim" => PrintT(<<"EMIT", "cfg", ToJson([c |-> c, layout |-> Layout(c.cams)])>>)
=============================================================================
