------------------------------ MODULE PutModel ------------------------------
(* Acceptance table of io.py:put_model : which option / flag / feature combinations are converted and
   which are rejected with an exception (C31: "either rejects a model using an unsupported feature
   with an exception or produces a Model whose MuJoCo fields equal the MjModel's").  *)
EXTENDS Integers, FiniteSets, TLC, Json
CONSTANTS Mode, NCfg
VARIABLES c, k
vars == <<c, k>>
Solvers == {"PGS", "CG", "Newton"}
Integrators == {"Euler", "RK4", "implicit", "implicitfast"}
Flags == {"dis_midphase", "dis_autoreset", "dis_island", "dis_multiccd", "dis_nativeccd", "en_override", "en_fwdinv", "en_energy", "en_sleep", "en_invdiscrete"}
UnsupportedFlags == {"dis_midphase", "dis_autoreset", "en_override", "en_fwdinv"}
Accepts(x) ==
  /\ x.solver # "PGS"                                       \* only CG and Newton are implemented
  /\ x.noslip = 0                                           \* no noslip post-processing
  /\ x.flags \cap UnsupportedFlags = {}
  /\ ~("en_sleep" \in x.flags /\ x.solver # "Newton")       \* sleeping needs the Newton solver
  /\ ~(x.jacobian = "dense" /\ x.size = "big")              \* dense Jacobian only up to 60 dofs
  /\ ~x.distance_eq                                         \* removed equality type
RandSub(S) == LET RECURSIVE Go(_) Go(T) == IF T = {} THEN {} ELSE LET e == CHOOSE z \in T : TRUE IN (IF RandomElement(1..8) = 1 THEN {e} ELSE {}) \cup Go(T \ {e}) IN Go(S)
RandCfg(u) == [solver |-> (LET r == RandomElement(1..6) IN IF r = 1 THEN "PGS" ELSE IF r <= 3 THEN "CG" ELSE "Newton"), integrator |-> RandomElement(Integrators), noslip |-> (IF RandomElement(1..6) = 1 THEN 3 ELSE 0), flags |-> RandSub(Flags),
               jacobian |-> RandomElement({"dense", "sparse", "auto"}), size |-> (LET r == RandomElement(1..5) IN IF r = 1 THEN "big" ELSE IF r = 2 THEN "mid" ELSE "small"), cone |-> RandomElement({"pyramidal", "elliptic"}),
               distance_eq |-> FALSE]
Init == c = RandCfg(0) /\ k = 1
Next == k < NCfg /\ c' = RandCfg(k) /\ k' = k + 1
Spec == Init /\ [][Next]_vars
\* sanity of the table: a fully default configuration is accepted; rejection is monotone in the unsupported choices
DefaultAccepted == Accepts([solver |-> "Newton", integrator |-> "Euler", noslip |-> 0, flags |-> {}, jacobian |-> "auto", size |-> "small", cone |-> "pyramidal", distance_eq |-> FALSE])
Monotone == ~Accepts(c) => \A f \in Flags : ~Accepts([c EXCEPT !.flags = c.flags \cup {f}])
\* model sizes: small = 6 dofs, mid = 45 dofs, big = 63 dofs.  With jacobian="auto" the device representation turns sparse above 32 dofs, the
\* host's (MuJoCo, mj_isSparse) at 60: for "mid" the two differ, and get_data_into must still hand back rows MuJoCo reads correctly.
Nv(x) == CASE x.size = "small" -> 6 [] x.size = "mid" -> 45 [] x.size = "big" -> 63
SparseDevice(x) == x.jacobian = "sparse" \/ (x.jacobian = "auto" /\ Nv(x) > 32)
SparseHost(x) == x.jacobian = "sparse" \/ (x.jacobian = "auto" /\ Nv(x) >= 60)
EmitCfg == PrintT(<<"EMIT", "cfg", ToJson([c |-> c, accepted |-> Accepts(c), nv |-> Nv(c), sparse_device |-> SparseDevice(c), sparse_host |-> SparseHost(c)])>>)
=============================================================================
