CONSTANTS
  MaxT = 6
  Profiles <- McProfiles
  NLaunch = 5
  Sparse = TRUE
  Detector = "counter"
  ConnectGuardSlack = 0
  NJChoices <- DefaultNJ
  NnzChoices <- DefaultNnz
SPECIFICATION Spec
INVARIANT NoSilentDrop
INVARIANT RightBit
INVARIANT NoBitAllStored
INVARIANT CountsOK
INVARIANT KindByPosition
INVARIANT AddrConsistent
INVARIANT RowadrDisjoint
INVARIANT IndexInRange
INVARIANT ScheduleIndependent
PROPERTY Terminates
