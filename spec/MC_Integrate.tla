---- MODULE MC_Integrate ----
EXTENDS Integrate
McCtrls == {-2, 0, 1, 3}
====
