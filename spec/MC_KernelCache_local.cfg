CONSTANTS
  Configs <- McConfigs
  MaxLen = 3
  Dispatch = "local"
  Emit = FALSE
SPECIFICATION Spec
INVARIANT DispatchIndependent
INVARIANT KeyInjective
