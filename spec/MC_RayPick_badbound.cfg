CONSTANTS
  Mode = "mc"
  NCfg = 1
  NGeom = 2
  MaxD = 2
SPECIFICATION Spec
INVARIANT BvhSameAnyBound
CHECK_DEADLOCK FALSE
