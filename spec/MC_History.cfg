CONSTANTS
  N = 3
  Delay = 2
  Interp = 1
  Vals <- McVals
  TMin <- McTMin
  TMax = 6
  MaxLevel = 7
  Record = FALSE
  Pick <- PickAll
SPECIFICATION Spec
INVARIANT Sorted
INVARIANT CursorOK
INVARIANT FindOK
INVARIANT ReadZohOK
INVARIANT ReadLinOK
INVARIANT HoldsLastN
PROPERTY DelayOK
