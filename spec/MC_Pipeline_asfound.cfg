CONSTANTS
  NWorld = 2
  NKey = 1
  Ctrls <- McCtrls
  MaxLevel = 4
  Record = FALSE
  Pick <- PickAll
  Ops <- McOps
  ResetContacts = "as_found"
SPECIFICATION Spec
PROPERTY ResetSelected
PROPERTY ResetContactsOK
PROPERTY KeyframeOK
PROPERTY KeyScalarOK
PROPERTY ForwardKeepsState
INVARIANT NoPhantom
