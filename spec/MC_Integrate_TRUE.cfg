CONSTANTS
  Ctrls <- McCtrls
  MaxLevel = 6
  Record = FALSE
  Pick <- PickAll
  RK4 = TRUE
SPECIFICATION Spec
INVARIANT Lattice
PROPERTY TimeAdvances
PROPERTY WarmstartIsQacc
PROPERTY SemiImplicit
PROPERTY ActLags
