------------------------------- MODULE Island -------------------------------
(* Constraint islands (island.py): the tree-tree adjacency built from the constraint rows, the
   sequential DFS flood fill (_flood_fill, transcribed with its explicit stack), and the dof map
   kernel (_island_map_dofs, whose threads run in an arbitrary order and take slots with atomic_add).

   A configuration is a set of undirected edges over trees 0..NTree-1; an edge {i,i} is a constraint
   touching only tree i (dof friction, contact with a static body).  *)
EXTENDS Integers, Sequences, FiniteSets, TLC, Json

CONSTANTS NTree, DofsPerTree, Mode, NCfg

Trees == 0..(NTree - 1)
\* an edge is the set of trees one constraint row touches: 1 (dof friction, floor contact), 2 (connect, contact between trees) or 3 (a tendon
\* that runs over three trees: a single generic row)
AllEdges == {e \in SUBSET Trees : Cardinality(e) \in {1, 2, 3}}

VARIABLES edges, order, k
vars == <<edges, order, k>>

Adj(E, i, j) == \E e \in E : i \in e /\ j \in e

\* ---------------- _flood_fill, transcribed: state <<labels, stack, nisland, maxstack>>
RECURSIVE Pushes(_, _, _, _, _)
Pushes(E, labels, v, nb, stack) ==        \* for neighbor in range(ntree): push unlabeled neighbours of v
  IF nb = NTree THEN stack
  ELSE Pushes(E, labels, v, nb + 1, IF Adj(E, v, nb) /\ labels[nb] = -1 THEN Append(stack, nb) ELSE stack)

RECURSIVE Dfs(_, _, _, _, _)
Dfs(E, labels, stack, isl, maxs) ==
  IF stack = <<>> THEN <<labels, maxs>>
  ELSE LET v == stack[Len(stack)]  rest == SubSeq(stack, 1, Len(stack) - 1) IN
       IF labels[v] # -1 THEN Dfs(E, labels, rest, isl, maxs)
       ELSE LET l2 == [labels EXCEPT ![v] = isl]
                s2 == Pushes(E, l2, v, 0, rest)
            IN Dfs(E, l2, s2, isl, IF Len(s2) > maxs THEN Len(s2) ELSE maxs)

RECURSIVE Fill(_, _, _, _, _)
Fill(E, i, labels, nisland, maxs) ==
  IF i = NTree THEN [labels |-> labels, nisland |-> nisland, maxstack |-> maxs]
  ELSE IF labels[i] # -1 \/ ~(\E j \in Trees : Adj(E, i, j)) THEN Fill(E, i + 1, labels, nisland, maxs)
  ELSE LET r == Dfs(E, labels, <<i>>, nisland, IF maxs < 1 THEN 1 ELSE maxs) IN Fill(E, i + 1, r[1], nisland + 1, r[2])

FloodFill(E) == Fill(E, 0, [t \in Trees |-> -1], 0, 0)

\* ---------------- declarative meaning: connected components of the touched trees, numbered by smallest member
Touched(E) == {t \in Trees : \E j \in Trees : Adj(E, t, j)}
RECURSIVE Reach(_, _)
Reach(E, S) == LET S2 == S \cup {j \in Trees : \E i \in S : Adj(E, i, j)} IN IF S2 = S THEN S ELSE Reach(E, S2)
Comp(E, t) == Reach(E, {t})
MinOf(S) == CHOOSE x \in S : \A y \in S : x <= y
Roots(E) == {MinOf(Comp(E, t)) : t \in Touched(E)}
Expected(E) == [t \in Trees |-> IF t \in Touched(E) THEN Cardinality({r \in Roots(E) : r < MinOf(Comp(E, t))}) ELSE -1]

\* ---------------- _island_map_dofs under an arbitrary thread order (a permutation of the dofs)
Dofs == 0..(NTree * DofsPerTree - 1)
TreeOfDof(d) == d \div DofsPerTree
Perms == {p \in [1..Cardinality(Dofs) -> Dofs] : \A a, b \in 1..Cardinality(Dofs) : a # b => p[a] # p[b]}
MapDofs(labels, nisl, perm) ==
  LET islOf(d) == labels[TreeOfDof(d)]
      nvI == [i \in 0..(NTree - 1) |-> Cardinality({d \in Dofs : islOf(d) = i})]
      RECURSIVE Pre(_)
      Pre(i) == IF i = 0 THEN 0 ELSE Pre(i - 1) + nvI[i - 1]           \* island_idofadr (exclusive scan)
      nidof == Cardinality({d \in Dofs : islOf(d) >= 0})
      RECURSIVE Run(_, _, _, _)
      Run(n, cnt, unc, m) ==                                             \* thread perm[n] executes atomically (one atomic_add each)
        IF n > Len(perm) THEN m
        ELSE LET d == perm[n]  i == islOf(d) IN
             IF i >= 0 THEN Run(n + 1, [cnt EXCEPT ![i] = @ + 1], unc, [m EXCEPT ![d] = Pre(i) + cnt[i]])
             ELSE Run(n + 1, cnt, unc + 1, [m EXCEPT ![d] = nidof + unc])
  IN [dof2idof |-> Run(1, [i \in 0..(NTree - 1) |-> 0], 0, [d \in Dofs |-> -1]), idofadr |-> [i \in 0..(NTree - 1) |-> Pre(i)], nv |-> nvI, nidof |-> nidof]

RandEdges(u) ==     \* built element by element (a filtered set would stay lazy and re-draw on every membership test)
  LET RECURSIVE Go(_)
      Go(S) == IF S = {} THEN {} ELSE LET e == CHOOSE x \in S : TRUE IN (IF RandomElement({TRUE, FALSE, FALSE}) THEN {e} ELSE {}) \cup Go(S \ {e})
  IN Go(AllEdges)
Init == /\ edges \in (IF Mode \in {"all", "graphs"} THEN SUBSET AllEdges ELSE {RandEdges(0)})
        /\ order \in (IF Mode = "all" THEN Perms ELSE {CHOOSE p \in Perms : TRUE})
        /\ k = 1
Next == /\ Mode = "sim" /\ k < NCfg /\ edges' = RandEdges(k) /\ k' = k + 1 /\ UNCHANGED order
Spec == Init /\ [][Next]_vars
------------------------------------------------------------------------
FF == FloodFill(edges)
ComponentsOK == FF.labels = Expected(edges)                      \* C28: component of every touched tree, numbered by smallest tree, -1 otherwise
CountOK == FF.nisland = Cardinality(Roots(edges))
StackBound == FF.maxstack <= NTree * NTree                       \* the scratch stack of size ntree^2 never overflows (C17)
M == MapDofs(FF.labels, FF.nisland, order)
MapsOK ==                                                        \* for EVERY thread order: a permutation, islands contiguous and in island order
  /\ \A d1, d2 \in Dofs : d1 # d2 => M.dof2idof[d1] # M.dof2idof[d2]
  /\ \A d \in Dofs : M.dof2idof[d] \in 0..(Cardinality(Dofs) - 1)
  /\ \A d \in Dofs : LET i == FF.labels[TreeOfDof(d)] IN
        IF i >= 0 THEN M.dof2idof[d] >= M.idofadr[i] /\ M.dof2idof[d] < M.idofadr[i] + M.nv[i] ELSE M.dof2idof[d] >= M.nidof
EmitCfg == PrintT(<<"EMIT", "cfg", ToJson([edges |-> {<<MinOf(e), CHOOSE x \in e : \A y \in e : x >= y>> : e \in {e2 \in edges : Cardinality(e2) <= 2}},
                                            hyper |-> {<<MinOf(e), CHOOSE x \in e : x # MinOf(e) /\ \E y \in e : y > x, CHOOSE x \in e : \A y \in e : x >= y>> : e \in {e2 \in edges : Cardinality(e2) = 3}}, labels |-> FF.labels, nisland |-> FF.nisland, maxstack |-> FF.maxstack])>>)
=============================================================================
