------------------------------ MODULE RayPick ------------------------------
(* ray.py: which geom a ray reports (mjw.ray / mjw.rays), brute-force path (_ray) and BVH path (_ray_bvh).

   Part 1  ELIGIBILITY.  _ray_eliminate / mj_ray: a geom takes part unless
            - it belongs to the excluded body,
            - it is invisible (no material: geom alpha = 0;  material: material alpha = 0, the geom's own alpha is ignored),
            - it is static (its body is welded to the world) and flg_static is off,
            - a group mask is given and the flag of its (clamped) group is 0.
   Part 2  PICK.  The answer is the eligible geom with the smallest non-negative intersection distance, or "no hit" (-1).
   Part 3  BVH.  _ray_bvh visits leaves in an order chosen by the BVH; a leaf is skipped when the entry distance of its
            bounding box is not below the best distance so far.  Traverse is the set of results over ALL visiting orders
            and all admissible bounds; BvhSame says it is the brute-force answer whenever every bound is a lower bound of
            the geom's distance - the obligation the scene BVH has to meet (checked on the real boxes by the replay).

   Mode "mc": TLC enumerates every scene/query of the small universe and checks the invariants.
   Mode "sim": TLC emits random scene configurations and queries, with the eligible set per query, for the replay. *)
EXTENDS Integers, Sequences, FiniteSets, TLC, Json

CONSTANTS Mode, NCfg, NGeom, MaxD

Geoms == 0..(NGeom - 1)
Types == {"plane", "hfield", "sphere", "capsule", "ellipsoid", "cylinder", "box", "mesh"}
Homes == {"world", "static_child", "moving1", "moving2", "moving2_child"}     \* which body carries the geom
Vis == {"visible", "geom_alpha0", "mat_alpha0", "mat_visible_geom_alpha0"}
BodyOf(h) == CASE h = "world" -> 0 [] h = "static_child" -> 1 [] h = "moving1" -> 2 [] h = "moving2" -> 3 [] h = "moving2_child" -> 4
WeldOf(h) == CASE h = "world" -> 0 [] h = "static_child" -> 0 [] h = "moving1" -> 2 [] h = "moving2" -> 3 [] h = "moving2_child" -> 4   \* body_weldid
Bodies == 0..4

\* ------------------------------------------------------------------ eligibility
Invisible(v) == v \in {"geom_alpha0", "mat_alpha0"}
Clamp(g) == IF g < 0 THEN 0 ELSE IF g > 5 THEN 5 ELSE g
Eligible(geom, q) ==
  /\ BodyOf(geom.home) # q.bodyexclude
  /\ ~Invisible(geom.vis)
  /\ (q.flg_static \/ WeldOf(geom.home) # 0)
  /\ (q.mask = <<>> \/ q.mask[Clamp(geom.group) + 1] # 0)

\* ------------------------------------------------------------------ pick
\* dist[g] \in -1..MaxD : -1 = the ray misses geom g
Hits(scene, q, dist) == {g \in DOMAIN scene : Eligible(scene[g], q) /\ dist[g] >= 0}
PickDist(scene, q, dist) == LET H == Hits(scene, q, dist) IN IF H = {} THEN -1 ELSE CHOOSE x \in {dist[g] : g \in H} : \A g \in H : x <= dist[g]
PickSet(scene, q, dist) == {g \in Hits(scene, q, dist) : dist[g] = PickDist(scene, q, dist)}       \* ties: any of them may be reported

\* ------------------------------------------------------------------ BVH traversal
Inf == MaxD + 1
\* state of the loop: best distance, best geom; leaves still to be offered by the query
RECURSIVE Traverse(_, _, _, _, _, _)
Traverse(scene, q, dist, lb, todo, best) ==       \* best = <<min_dist, geom>>; returns the set of possible final <<dist, geom>>
  IF todo = {} THEN {best}
  ELSE UNION {LET rest == todo \ {g} IN
              IF lb[g] >= best[1] THEN Traverse(scene, q, dist, lb, rest, best)                       \* bvh_query_next prunes the leaf
              ELSE IF Eligible(scene[g], q) /\ dist[g] >= 0 /\ dist[g] < best[1] THEN Traverse(scene, q, dist, lb, rest, <<dist[g], g>>)
              ELSE Traverse(scene, q, dist, lb, rest, best) : g \in todo}
BvhResults(scene, q, dist, lb, leaves) == {IF r[1] >= Inf THEN <<-1, -1>> ELSE r : r \in Traverse(scene, q, dist, lb, leaves, <<Inf, -1>>)}
BruteResults(scene, q, dist) == IF Hits(scene, q, dist) = {} THEN {<<-1, -1>>} ELSE {<<PickDist(scene, q, dist), g>> : g \in PickSet(scene, q, dist)}

\* ------------------------------------------------------------------ universe
Masks == {<<>>} \cup [1..6 -> {0, 1}]
Queries == [mask : Masks, flg_static : BOOLEAN, bodyexclude : {-1} \cup Bodies]
GeomRecs == [type : Types, home : Homes, group : 0..5, vis : Vis]

RandSeq(n, S) == [i \in 1..n |-> RandomElement(S)]
RandMask(u) == IF RandomElement(1..3) = 1 THEN <<>> ELSE [i \in 1..6 |-> IF RandomElement(1..3) = 1 THEN 0 ELSE 1]
RandQuery(u) == [mask |-> RandMask(u), flg_static |-> RandomElement(1..3) # 1, bodyexclude |-> (IF RandomElement(1..2) = 1 THEN -1 ELSE RandomElement(Bodies))]
RandGeom(i) == LET t == RandomElement(Types) IN                    \* MuJoCo accepts planes and height fields on static bodies only
               [type |-> t, home |-> IF t \in {"plane", "hfield"} THEN RandomElement({"world", "static_child"}) ELSE RandomElement(Homes), group |-> RandomElement(0..5),
                vis |-> IF RandomElement(1..3) = 1 THEN RandomElement(Vis) ELSE "visible"]
RandCfg(u) == LET n == RandomElement(3..NGeom)
                  sc == [i \in 1..n |-> RandGeom(i)]
                  qs == [i \in 1..6 |-> RandQuery(i)]
              IN [scene |-> sc, queries |-> qs,
                  eligible |-> [i \in 1..6 |-> [g \in 1..n |-> Eligible(sc[g], qs[i])]],
                  nworld |-> RandomElement(1..3), shared_rays |-> RandomElement(BOOLEAN),
                  \* a flex in the scene: rays ignore it (as mj_ray does), but the scene BVH of a render context also holds its boxes
                  \* (put_model rejects a flex next to a height field: "Flex-HField collision is not implemented")
                  flex |-> IF RandomElement(1..3) = 1 /\ (\A i \in 1..n : sc[i].type # "hfield") THEN RandomElement({"cloth", "rope"}) ELSE "none"]

VARIABLES c, k
vars == <<c, k>>

\* model checking: a small scene of fixed homes/groups/visibility, every query, every distance and bound assignment
McKinds == {<<"world", 0, "visible">>, <<"world", 5, "visible">>, <<"moving1", 5, "visible">>, <<"moving1", 0, "geom_alpha0">>}
McScenes == {[g \in Geoms |-> [type |-> "sphere", home |-> kd[g][1], group |-> kd[g][2], vis |-> kd[g][3]]] : kd \in [Geoms -> McKinds]}
McQueries == [mask : {<<>>, <<1, 1, 1, 1, 1, 0>>, <<0, 1, 1, 1, 1, 1>>}, flg_static : BOOLEAN, bodyexclude : {-1, 0, 2}]

Init == /\ k = 1
        /\ IF Mode = "sim" THEN c = RandCfg(0)
           ELSE c \in [scene : McScenes, q : McQueries, dist : [Geoms -> -1..MaxD], lb : [Geoms -> 0..MaxD]]
Next == /\ Mode = "sim" /\ k < NCfg /\ c' = RandCfg(k) /\ k' = k + 1
Spec == Init /\ [][Next]_vars

\* ------------------------------------------------------------------ properties (mode "mc")
BoundsAdmissible(x) == \A g \in Geoms : x.dist[g] >= 0 => x.lb[g] <= x.dist[g]
\* C34: the BVH path reports the brute-force answer (same distance; a geom of the tie set) for every visiting order, given admissible bounds
BvhSame == Mode = "mc" => (BoundsAdmissible(c) =>
              \A r \in BvhResults(c.scene, c.q, c.dist, c.lb, Geoms) : r[1] = PickDist(c.scene, c.q, c.dist) /\ (r[1] >= 0 => r[2] \in PickSet(c.scene, c.q, c.dist)))
\* the reported geom is eligible and nothing eligible is nearer
PickSound == Mode = "mc" => LET d == PickDist(c.scene, c.q, c.dist) IN
              /\ (d = -1 <=> \A g \in Geoms : ~(Eligible(c.scene[g], c.q) /\ c.dist[g] >= 0))
              /\ \A g \in PickSet(c.scene, c.q, c.dist) : Eligible(c.scene[g], c.q) /\ \A h \in Geoms : (Eligible(c.scene[h], c.q) /\ c.dist[h] >= 0) => c.dist[g] <= c.dist[h]
\* NOT an invariant (MC_RayPick_badbound.cfg expects the violation): without admissible bounds the BVH path can lose the nearest hit
BvhSameAnyBound == Mode = "mc" => \A r \in BvhResults(c.scene, c.q, c.dist, c.lb, Geoms) : r[1] = PickDist(c.scene, c.q, c.dist)
TypeOK == k >= 1
EmitCfg == Mode = "sim" => PrintT(<<"EMIT", "cfg", ToJson([c |-> c])>>)
=============================================================================
