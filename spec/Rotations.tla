----------------------------- MODULE Rotations -----------------------------
(* C23 as an invariant over executions RECORDED from step(): after every step, every free / ball joint
   quaternion in qpos has unit norm and every reported orientation (xmat, ximat, geom_xmat, site_xmat,
   cam_xmat; xquat) is a proper rotation.  The recorder evaluates the float predicates (tolerance 1e-4);
   TLC checks them on every state of every trace, that step indices are consecutive (no state was
   skipped) and that time advances. *)
EXTENDS Integers, Sequences, TLC, Json, IOUtils
Traces == JsonDeserialize(IOEnv.TRACE_FILE)
VARIABLE done
Init == done = FALSE
Next == done' = TRUE /\ done = FALSE
Spec == Init /\ [][Next]_done
StateOK(s) == s.quat_unit /\ s.xquat_unit /\ s.rot_orthonormal /\ s.rot_det_positive /\ s.finite
TraceOK(t) == /\ \A i \in 1..Len(t.st) : StateOK(t.st[i])
              /\ \A i \in 1..Len(t.st) : t.st[i].step = i
              /\ \A i \in 1..(Len(t.st) - 1) : t.st[i + 1].tick > t.st[i].tick
FirstBad(t) == IF \E i \in 1..Len(t.st) : ~StateOK(t.st[i]) THEN CHOOSE i \in 1..Len(t.st) : ~StateOK(t.st[i]) /\ \A j \in 1..(i - 1) : StateOK(t.st[j]) ELSE 0
Bad == {i \in 1..Len(Traces) : ~TraceOK(Traces[i])}
ReportR == PrintT(<<"EMIT", "bad", ToJson([bad |-> [i \in Bad |-> FirstBad(Traces[i])], n |-> Len(Traces)])>>)
AllValid == Bad = {}
=============================================================================
