----------------------------- MODULE SleepTrace -----------------------------
(* Validation of sleep / wake calls RECORDED from real step() runs against Sleep.tla's functions.
   One event per call of sleep.sleep, sleep.wake_collision, sleep.wake (taken at the call's return), plus one
   "step" event per step carrying the frozen-state check of the trees that stayed asleep.  *)
EXTENDS Sleep, Json, IOUtils
Traces == JsonDeserialize(IOEnv.TRACE_FILE)
\* the state machine of Sleep.tla is NOT explored here: one idle state, the recorded events are checked by constant-level invariants
TSpec == Init /\ [][UNCHANGED vars]_vars
F(x) == [t \in Trees |-> x[t + 1]]                      \* JSON arrays are 1-based sequences
ConSet(e) == {<<e.cons[i][1], e.cons[i][2]>> : i \in 1..Len(e.cons)}
EventOK(e) ==
  CASE e.kind = "sleep" -> /\ F(e.after) = SleepFn(F(e.before), F(e.isl), e.nisl, F(e.quiet))
                           /\ CyclesOK(F(e.after))
    [] e.kind = "wakecol" -> /\ F(e.after) \in WakeOutcomes(F(e.before), F(e.awake), ConSet(e))
                             /\ CyclesOK(F(e.after))
    [] e.kind = "wake" -> /\ F(e.after) = WakeUser(F(e.before), F(e.awake), {t \in Trees : e.disturbed[t + 1]})
                          /\ CyclesOK(F(e.after))
    [] e.kind = "step" -> e.frozen                        \* trees asleep before and after the step: qpos / qvel bitwise unchanged
Bad(tr) == {i \in 1..Len(tr) : ~EventOK(tr[i])}
BadTraces == {n \in 1..Len(Traces) : Bad(Traces[n]) # {}}
ReportS == PrintT(<<"EMIT", "bad", ToJson([bad |-> [n \in BadTraces |-> CHOOSE i \in Bad(Traces[n]) : \A j \in Bad(Traces[n]) : i <= j], n |-> Len(Traces)])>>)
AllOK == BadTraces = {}
FellAsleep == \E n \in 1..Len(Traces) : \E i \in 1..Len(Traces[n]) : Traces[n][i].kind = "sleep" /\ \E t \in Trees : Traces[n][i].before[t + 1] < 0 /\ Traces[n][i].after[t + 1] >= 0
WokeByContact == \E n \in 1..Len(Traces) : \E i \in 1..Len(Traces[n]) : Traces[n][i].kind = "wakecol" /\ Traces[n][i].before # Traces[n][i].after
CoverageS == PrintT(<<"EMIT", "cov", ToJson([fell_asleep |-> FellAsleep, woke_by_contact |-> WokeByContact])>>)
=============================================================================
