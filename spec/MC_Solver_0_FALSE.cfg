CONSTANTS
  NWorld = 3
  Limit = 0
  Cond = FALSE
  MaxIter = 1
SPECIFICATION Spec
INVARIANT NiterBound
INVARIANT NsolvingCount
INVARIANT ExitCorrect
PROPERTY DoneFrozen
PROPERTY Terminates
