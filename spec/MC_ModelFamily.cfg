CONSTANTS
  MaxBody = 4
  JointCodes <- McJoints
  GeomCodes <- McGeoms
  Integrators <- McOne
  Cones <- McOne
  Solvers <- McOne
  Jacobians <- McOne
  FeatUniverse <- McNone
  MaxFeat = 0
  QClasses <- McOne
  VClasses <- McOne
  NCfg = 1
  Mode = "all"
SPECIFICATION Spec
INVARIANT WellFormed
INVARIANT LevelsOK
INVARIANT BranchesOK
INVARIANT BranchPrefixOK
INVARIANT DofParentOK
INVARIANT TreesOK
