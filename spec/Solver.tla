------------------------------- MODULE Solver -------------------------------
(* Termination protocol of the constraint solver (solver.py:_solve, _solver_iteration, _solve_done,
   _solve_cg_finalize) for a batch of worlds.

   Every kernel of an iteration is guarded by done[w]; the last kernel of the iteration
   (_solve_done / _solve_cg_finalize) increments niter[w], evaluates the tolerance test, and when the
   world converged or reached the iteration limit marks it done, decrements the shared counter
   nsolving and - only when it stopped WITHOUT meeting the tolerance test - sets the ITERATIONS
   overflow bit.  The loop is either `while nsolving > 0` (graph_conditional) or a fixed
   `for _ in range(iterations)`.

   The numerical behaviour is abstracted by an oracle conv[w][k] : "world w meets the tolerance test
   at the end of its k-th iteration" (monotone is NOT assumed).  ver[w] counts how many iterations
   modified world w's result (qacc, efc.force, ...).

   IterRel is the transition relation of ONE call of _solver_iteration; it is used both by Next
   (model checking, all oracles) and by SolverTrace.tla (validation of recorded executions, with
   the recorded tolerance-test outcome as oracle).  *)
EXTENDS Integers, FiniteSets, TLC

CONSTANTS NWorld, Limit, Cond, MaxIter

Worlds == 0..(NWorld - 1)

VARIABLES done, niter, bit, nsolving, ver, loops, pc, conv
vars == <<done, niter, bit, nsolving, ver, loops, pc, conv>>

\* s: record [done, niter, bit, nsolving, ver];  c[w]: tolerance test outcome of this iteration for world w
IterFun(s, c, limit) ==
  LET nd == [w \in DOMAIN s.done |-> s.done[w] \/ c[w] \/ s.niter[w] + 1 = limit] IN
  [done |-> nd,
   niter |-> [w \in DOMAIN s.done |-> IF s.done[w] THEN s.niter[w] ELSE s.niter[w] + 1],       \* guarded by done: nothing changes
   bit |-> [w \in DOMAIN s.done |-> s.bit[w] \/ (~s.done[w] /\ ~c[w] /\ s.niter[w] + 1 = limit)],
   ver |-> [w \in DOMAIN s.done |-> IF s.done[w] THEN s.ver[w] ELSE s.ver[w] + 1],
   nsolving |-> s.nsolving - Cardinality({w \in DOMAIN s.done : ~s.done[w] /\ nd[w]})]
IterRel(s, t, c, limit) == t = IterFun(s, c, limit)

State == [done |-> done, niter |-> niter, bit |-> bit, nsolving |-> nsolving, ver |-> ver]

Init ==
  /\ done = [w \in Worlds |-> FALSE]
  /\ niter = [w \in Worlds |-> 0]
  /\ bit = [w \in Worlds |-> FALSE]
  /\ nsolving = NWorld
  /\ ver = [w \in Worlds |-> 0]
  /\ loops = 0
  /\ pc = "loop"
  /\ conv \in [Worlds -> [1..MaxIter -> BOOLEAN]]

Continue == IF Limit # 0 /\ Cond THEN nsolving > 0 ELSE loops < Limit

Iterate ==
  /\ pc = "loop" /\ Continue
  /\ LET t == IterFun(State, [w \in Worlds |-> IF niter[w] + 1 \in 1..MaxIter THEN conv[w][niter[w] + 1] ELSE FALSE], Limit) IN
        done' = t.done /\ niter' = t.niter /\ bit' = t.bit /\ nsolving' = t.nsolving /\ ver' = t.ver
  /\ loops' = loops + 1
  /\ UNCHANGED <<pc, conv>>

Exit ==
  /\ pc = "loop" /\ ~Continue
  /\ pc' = "exit"
  /\ UNCHANGED <<done, niter, bit, nsolving, ver, loops, conv>>

Next == Iterate \/ Exit
Spec == Init /\ [][Next]_vars /\ WF_vars(Next)

------------------------------------------------------------------------
\* first iteration (1..Limit) at which the oracle says converged, Limit+1 if none
FirstConv(w) == IF \E k \in 1..Limit : conv[w][k] THEN CHOOSE k \in 1..Limit : conv[w][k] /\ \A j \in 1..(k - 1) : ~conv[w][j] ELSE Limit + 1

NiterBound == \A w \in Worlds : niter[w] <= Limit
NsolvingCount == nsolving = Cardinality({w \in Worlds : ~done[w]})
\* C25: a converged world is left alone by every later iteration
DoneFrozen == [][\A w \in Worlds : done[w] => (ver'[w] = ver[w] /\ niter'[w] = niter[w] /\ done'[w])]_vars
\* at exit: iteration count and bit are exactly what the oracle dictates, in both loop modes
ExitCorrect ==
  pc = "exit" =>
    \A w \in Worlds :
      IF Limit = 0 THEN niter[w] = 0 /\ ~bit[w]                       \* no tolerance test is ever evaluated
      ELSE /\ niter[w] = (IF FirstConv(w) <= Limit THEN FirstConv(w) ELSE Limit)
           /\ bit[w] = (FirstConv(w) > Limit)                          \* set exactly when it stopped without meeting the test
           /\ done[w]
           /\ ver[w] = niter[w]
Terminates == <>(pc = "exit")
=============================================================================
