CONSTANTS
  Mode = "mc"
  NCfg = 1
  NGeom = 3
  MaxD = 2
SPECIFICATION Spec
INVARIANT TypeOK
INVARIANT BvhSame
INVARIANT PickSound
CHECK_DEADLOCK FALSE
