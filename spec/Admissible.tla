----------------------------- MODULE Admissible -----------------------------
(* Row-classification table of the constraint solver (solver.py:_update_constraint_efc /
   MuJoCo mj_constraintUpdate) and the admissibility conditions C24 states, evaluated by TLC on
   rows RECORDED from real forward() calls (code -> spec trace validation).

   Each recorded row carries only discrete facts computed at record time in float64:
     kind   "eq" | "fric" | "limit" | "con1" (frictionless contact) | "pyr" (pyramid edge) | "ell" (elliptic contact row)
     state  0 SATISFIED, 1 QUADRATIC, 2 LINEARNEG, 3 LINEARPOS, 4 CONE
     fsign  sign of the row force (-1, 0, 1; |f| <= eps counts as 0)
     within |f| <= frictionloss (+eps)           (friction rows)
     atloss |f| = frictionloss within tolerance  (friction rows)
     first  TRUE for the normal row of an elliptic contact
     incone the contact's force lies in its friction cone   (elliptic rows, per contact)
   and each recorded world:  jtf  = || qfrc_constraint - J^T f || within tolerance.  *)
EXTENDS Integers, Sequences, FiniteSets, TLC, Json, IOUtils

Trace == JsonDeserialize(IOEnv.TRACE_FILE)
Rows == Trace.rows
Worlds == Trace.worlds

VARIABLE done
Init == done = FALSE
Next == done' = TRUE /\ done = FALSE
Spec == Init /\ [][Next]_done

\* which states a row kind may be in
StateOK(r) ==
  CASE r.kind = "eq"    -> r.state = 1
    [] r.kind = "fric"  -> r.state \in {1, 2, 3}
    [] r.kind = "limit" -> r.state \in {0, 1}
    [] r.kind = "con1"  -> r.state \in {0, 1}
    [] r.kind = "pyr"   -> r.state \in {0, 1}
    [] r.kind = "ell"   -> r.state \in {0, 1, 4}

\* what the state implies for the force
ForceOK(r) ==
  /\ r.state = 0 => r.fsign = 0                                   \* satisfied rows carry zero force
  /\ r.kind \in {"limit", "con1", "pyr"} => r.fsign >= 0           \* unilateral rows push only
  /\ (r.kind = "ell" /\ r.first) => r.fsign >= 0                   \* normal force of an elliptic contact
  /\ r.kind = "ell" => r.incone                                    \* friction cone
  /\ r.kind = "fric" => r.within                                   \* never exceeds the friction loss
  /\ (r.kind = "fric" /\ r.state = 2) => (r.fsign >= 0 /\ r.atloss)    \* saturated: force = +loss
  /\ (r.kind = "fric" /\ r.state = 3) => (r.fsign <= 0 /\ r.atloss)    \* saturated: force = -loss

RowOK(r) == StateOK(r) /\ ForceOK(r)
BadRows == {i \in 1..Len(Rows) : ~RowOK(Rows[i])}
BadWorlds == {i \in 1..Len(Worlds) : ~Worlds[i].jtf}

Report == PrintT(<<"EMIT", "bad", ToJson([rows |-> BadRows, worlds |-> BadWorlds, nrows |-> Len(Rows), nworlds |-> Len(Worlds)])>>)
Admissible == BadRows = {} /\ BadWorlds = {}
\* vacuity guards: the trace exercises every kind and the interesting states
Kinds == {Rows[i].kind : i \in 1..Len(Rows)}
States == {<<Rows[i].kind, Rows[i].state>> : i \in 1..Len(Rows)}
Coverage == PrintT(<<"EMIT", "cov", ToJson([kinds |-> Kinds, states |-> States])>>)
=============================================================================
