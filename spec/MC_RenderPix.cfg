CONSTANTS
  Mode = "mc"
  NCfg = 1
  MaxCam = 2
SPECIFICATION Spec
INVARIANT TypeOK
INVARIANT RayBijection
INVARIANT CellsDisjoint
INVARIANT CellsOnto
INVARIANT NoOutputNoCell
CHECK_DEADLOCK FALSE
