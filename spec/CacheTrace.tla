----------------------------- MODULE CacheTrace -----------------------------
(* Lookups of warp_util.cache_kernel RECORDED in multi-model processes: each event is the key the code
   computed and a description (builder qualified name + repr of the arguments).  The cache is sound
   iff equal keys imply equal descriptions (otherwise a model would be served a kernel specialised
   for another model's arguments). *)
EXTENDS Integers, Sequences, FiniteSets, TLC, Json, IOUtils
Ev == JsonDeserialize(IOEnv.TRACE_FILE)
VARIABLE done
Init == done = FALSE
Next == done' = TRUE /\ done = FALSE
Spec == Init /\ [][Next]_done
Keys == {Ev[i].key : i \in 1..Len(Ev)}
Descs(k) == {Ev[i].desc : i \in {j \in 1..Len(Ev) : Ev[j].key = k}}
BadKeys == {k \in Keys : Cardinality(Descs(k)) > 1}
ReportC == PrintT(<<"EMIT", "bad", ToJson([bad |-> BadKeys, nkeys |-> Cardinality(Keys), nev |-> Len(Ev)])>>)
KeySound == BadKeys = {}
=============================================================================
