-------------------------------- MODULE Sleep --------------------------------
(* Sleeping of kinematic trees (sleep.py; call order of forward.py) for one world.

   asleep[t]  < 0 : awake; the value counts up from AwakeVal = -(1+MinAwake) to -1 while the tree is quiet
   asleep[t] >= 0 : asleep; the value is the next tree of the sleep cycle of its island (a permutation)

   The module gives, as FUNCTIONS over plain values (so that the same definitions serve model checking
   and validation of recorded executions):
     SleepFn       sleep(): _sweep_awake_trees ; _check_island_can_sleep ; _build_cycles
     WakeTree      _wake_tree, the cycle walk
     WakeOrder     _wake_collision_kernel executed for a given ORDER of the contacts (each contact is one
                   thread; a thread runs _wake_tree atomically here - sub-thread interleavings are explored by
                   the PlusCal-free model below through the order only, see DESIGN.md C11/C29)
     WakeUser      _wake_kernel (perturbations)
   and a state machine  Step = WakeUser ; WakeCollision (nondeterministic order) ; Sleep  over nondeterministic
   quiet flags, contact graphs and perturbations, for model checking. *)
EXTENDS Integers, Sequences, FiniteSets, TLC

CONSTANTS NTree, MinAwake,
          Relink      \* TRUE: as found before the repair (an island of already sleeping trees is linked again); FALSE: intended

Trees == 0..(NTree - 1)
AwakeVal == -(1 + MinAwake)

\* ---------------------------------------------------------------- sleep()
Sweep(a, quiet) == [t \in Trees |-> IF a[t] >= 0 THEN a[t] ELSE IF quiet[t] THEN (IF a[t] < -1 THEN a[t] + 1 ELSE a[t]) ELSE AwakeVal]
IslandCanSleep(a, isl, i) == \A t \in Trees : isl[t] = i => (IF Relink THEN ~(a[t] < -1) ELSE a[t] = -1)
Members(isl, i) == {t \in Trees : isl[t] = i}
NextInIsland(isl, t) ==      \* _build_cycles links the trees of an island in ascending order, the last one to the first
  LET M == Members(isl, isl[t])  later == {u \in M : u > t} IN
  IF later # {} THEN CHOOSE u \in later : \A v \in later : u <= v ELSE CHOOSE u \in M : \A v \in M : u <= v
Build(a, isl, nisl) ==
  [t \in Trees |->
     IF isl[t] >= 0 /\ isl[t] < nisl
     THEN IF IslandCanSleep(a, isl, isl[t]) THEN NextInIsland(isl, t) ELSE a[t]
     ELSE IF a[t] = -1 THEN t ELSE a[t]]                       \* unconstrained tree: self-cycle
SleepFn(a, isl, nisl, quiet) == Build(Sweep(a, quiet), isl, nisl)

\* ---------------------------------------------------------------- waking
RECURSIVE Walk(_, _, _, _, _)
Walk(a, start, cur, wakeval, fuel) ==        \* for step in range(ntree+1): next = a[cur]; if next invalid: break; a[cur] = wakeval; cur = next; if cur == start: break
  IF fuel = 0 THEN a
  ELSE LET nxt == a[cur] IN
       IF nxt < 0 \/ nxt >= NTree THEN a
       ELSE LET a2 == [a EXCEPT ![cur] = wakeval] IN IF nxt = start THEN a2 ELSE Walk(a2, start, nxt, wakeval, fuel - 1)
WakeTree(a, t, wakeval) ==
  IF a[t] < 0 THEN (IF wakeval < a[t] THEN [a EXCEPT ![t] = wakeval] ELSE a)
  ELSE Walk(a, t, t, wakeval, NTree + 1)

\* one contact thread: awake = snapshot tree_awake taken before the kernel; con = <<t1, t2>>
WakeContact(a, awake, con) ==
  LET t1 == con[1]  t2 == con[2] IN
  IF awake[t1] = awake[t2] THEN a
  ELSE LET sleeper == IF awake[t1] THEN t2 ELSE t1   waker == IF awake[t1] THEN t1 ELSE t2 IN WakeTree(a, sleeper, a[waker])
RECURSIVE WakeOrder(_, _, _)
WakeOrder(a, awake, cons) == IF cons = <<>> THEN a ELSE WakeOrder(WakeContact(a, awake, Head(cons)), awake, Tail(cons))
Perms(S) == {p \in [1..Cardinality(S) -> S] : \A i, j \in 1..Cardinality(S) : i # j => p[i] # p[j]}
WakeOutcomes(a, awake, conset) == {WakeOrder(a, awake, p) : p \in Perms(conset)}
\* which trees end up awake is the same for every order: trees of a sleeping cycle touched by an awake tree
AwakeSet(a) == {t \in Trees : a[t] < 0}

WakeUser(a, awake, disturbed) ==             \* _wake_kernel: a sleeping tree that is disturbed (or whose tree_awake flag disagrees) wakes with AwakeVal
  LET RECURSIVE Go(_, _)
      Go(x, t) == IF t = NTree THEN x ELSE Go(IF x[t] >= 0 /\ (awake[t] \/ t \in disturbed) THEN WakeTree(x, t, AwakeVal) ELSE x, t + 1)
  IN Go(a, 0)

\* ---------------------------------------------------------------- well-formedness
RECURSIVE Orbit(_, _, _, _)
Orbit(a, t, cur, fuel) == IF fuel = 0 THEN {} ELSE IF a[cur] < 0 \/ a[cur] >= NTree THEN {-1} ELSE {a[cur]} \cup (IF a[cur] = t THEN {} ELSE Orbit(a, t, a[cur], fuel - 1))
CycleOK(a, t) == a[t] >= 0 => (t \in Orbit(a, t, t, NTree + 1) /\ -1 \notin Orbit(a, t, t, NTree + 1))
CyclesOK(a) == /\ \A t \in Trees : a[t] \in AwakeVal..(NTree - 1)
               /\ \A t \in Trees : CycleOK(a, t)
               /\ \A t, u \in Trees : (t # u /\ a[t] >= 0 /\ a[u] >= 0) => a[t] # a[u]            \* a permutation on the sleeping trees

\* ---------------------------------------------------------------- state machine (model checking)
VARIABLES asleep, since, last
vars == <<asleep, since, last>>
\* islands of a step: components of the contact/equality graph; every tree also touches something static
RECURSIVE Reach(_, _)
Reach(E, S) == LET S2 == S \cup {j \in Trees : \E i \in S : {i, j} \in E} IN IF S2 = S THEN S ELSE Reach(E, S2)
MinOf(S) == CHOOSE x \in S : \A y \in S : x <= y
IslandOf(E, touched) ==
  LET roots == {MinOf(Reach(E, {t})) : t \in touched} IN
  [t \in Trees |-> IF t \in touched THEN Cardinality({r \in roots : r < MinOf(Reach(E, {t}))}) ELSE -1]
NIsland(E, touched) == Cardinality({MinOf(Reach(E, {t})) : t \in touched})

Init == asleep = [t \in Trees |-> AwakeVal] /\ since = [t \in Trees |-> 0] /\ last = [ok |-> TRUE, ready |-> TRUE]

Step(E, touched, quiet, disturbed, order) ==
  LET awake0 == [t \in Trees |-> asleep[t] < 0]
      a1 == WakeUser(asleep, awake0, disturbed)
      awake1 == [t \in Trees |-> a1[t] < 0]
      cons == {<<MinOf(e), CHOOSE x \in e : \A y \in e : x >= y>> : e \in {e2 \in E : Cardinality(e2) = 2}}
      outs == WakeOutcomes(a1, awake1, cons)
      a2 == CHOOSE o \in outs : TRUE
      q2 == [t \in Trees |-> quiet[t] /\ t \notin disturbed]
      a3s == Sweep(a2, q2)
      isl == IslandOf(E, touched)
      a3 == Build(a3s, isl, NIsland(E, touched))
  IN /\ asleep' = a3
     /\ since' = [t \in Trees |-> IF a3s[t] = AwakeVal THEN 0 ELSE IF since[t] >= MinAwake THEN MinAwake ELSE since[t] + 1]
     /\ last' = [ok |-> \A o1, o2 \in outs : AwakeSet(o1) = AwakeSet(o2),                         \* woken set independent of the thread order
                 ready |-> \A t \in Trees : (a2[t] < 0 /\ a3[t] >= 0) => \A u \in Trees : (u = t \/ (isl[t] >= 0 /\ isl[u] = isl[t])) => a3s[u] >= -1]

Next == \E E \in SUBSET {e \in SUBSET Trees : Cardinality(e) = 2}, touched \in SUBSET Trees, quiet \in [Trees -> BOOLEAN], disturbed \in SUBSET Trees :
          (\A e \in E : e \subseteq touched) /\ Step(E, touched, quiet, disturbed, 0)
Spec == Init /\ [][Next]_vars
------------------------------------------------------------------------
WellFormed == CyclesOK(asleep)
\* C29: a tree falls asleep only after it - and every tree of its island - has been quiet for MinAwake steps
SleepOnlyAfterMinAwake == \A t \in Trees : asleep[t] >= 0 => since[t] >= MinAwake
IslandReady == last.ready
\* C11/C29: WHICH trees a contact wake-up wakes does not depend on the order of the contact threads
WokenSetOrderIndependent == last.ok
\* sleeping trees of one cycle belong together: the cycle of t is closed
CycleClosed == \A t \in Trees : asleep[t] >= 0 => asleep[asleep[t]] >= 0
=============================================================================
