---- MODULE MC_Actuation ----
EXTENDS Actuation
McCtrls == {-16, -8, 0, 8, 24}
McActs == {-8, -2, 0, 4, 6}
McDyns == {"none", "integrator", "filter"}
McGears == {1, 2, -1}
McQs == {-1, 0, 2}
McVs == {-1, 0, 1}
McGain == {<<1, 0, 0>>, <<2, 0, 0>>, <<-1, 1, 0>>, <<1, 0, 1>>}
McBias == {<<0, 0, 0>>, <<1, -1, 0>>, <<0, 0, -1>>, <<-1, -2, -1>>}
McCtrlRange == <<-8, 8>>
McActRange == <<-4, 4>>
McForceRange == <<-12, 12>>
McJntRange == <<-10, 10>>
McQuickCtrls == {-16, 0, 24}
McQuickActs == {-8, 0, 6}
McQuickGain == {<<2, 0, 0>>, <<-1, 1, 0>>}
McQuickBias == {<<0, 0, 0>>, <<-1, -2, -1>>}
====
