------------------------------- MODULE Accept -------------------------------
(* Acceptance table of the public entry points (io.py: put_model / make_data argument validation)
   and the outcome every configuration must have: either the call is REJECTED with an exception or
   the simulation RUNS without crashing and without touching memory outside its arrays (C17).

   A configuration chooses a scene, option flags, the solver, the broadphase, the world count and the
   capacities (as classes relative to what the scene needs).  *)
EXTENDS Integers, FiniteSets, TLC, Json
CONSTANTS Scenes, Mode, NCfg
VARIABLES c, k
vars == <<c, k>>

\* capacity classes: -1, 0, 1, a few short of the need (the limit cuts THROUGH the last multi-row block), half of it, exactly the need, plenty
Caps == {"neg", "zero", "one", "short1", "short2", "half", "exact", "ample"}
Cfgs == [scene : Scenes, sleep : BOOLEAN, noisland : BOOLEAN, solver : {"Newton", "CG"}, cone : {"pyramidal", "elliptic"}, jac : {"dense", "sparse"},
         broadphase : {"nxn", "sap_tile", "sap_segmented"}, nworld : {0, 1, 3}, nconmax : Caps, njmax : Caps, nvmax : {"default", "neg", "zero", "one", "nv", "toolarge"}]

\* put_model: sleeping requires the Newton solver
ModelAccepted(x) == ~(x.sleep /\ x.solver = "CG")
\* make_data: capacities >= 0, nworld >= 1, nvmax in [0, nv]
DataAccepted(x) == x.nworld >= 1 /\ x.nconmax # "neg" /\ x.njmax # "neg" /\ x.nvmax \notin {"neg", "toolarge"}
Outcome(x) == IF ModelAccepted(x) /\ DataAccepted(x) THEN "runs" ELSE "rejected"

RandCfg(u) == [scene |-> RandomElement(Scenes), sleep |-> RandomElement(BOOLEAN), noisland |-> RandomElement({FALSE, FALSE, TRUE}), solver |-> RandomElement({"Newton", "Newton", "CG"}),
               cone |-> RandomElement({"pyramidal", "elliptic"}), jac |-> RandomElement({"dense", "sparse"}),
               broadphase |-> RandomElement({"nxn", "sap_tile", "sap_segmented"}), nworld |-> RandomElement({0, 1, 3, 3, 3}),
               nconmax |-> RandomElement({"neg", "zero", "one", "short1", "half", "exact", "exact", "ample", "ample"}),
               njmax |-> RandomElement({"neg", "zero", "one", "short1", "short2", "half", "exact", "exact", "ample", "ample"}),
               nvmax |-> RandomElement({"default", "default", "default", "neg", "zero", "one", "nv", "toolarge"})]
Init == c = RandCfg(0) /\ k = 1
Next == k < NCfg /\ c' = RandCfg(k) /\ k' = k + 1
Spec == Init /\ [][Next]_vars
TypeOK == c \in Cfgs
TotalOutcome == Outcome(c) \in {"runs", "rejected"}                       \* there is no third outcome
EmitCfg == PrintT(<<"EMIT", "cfg", ToJson([c |-> c, outcome |-> Outcome(c)])>>)
=============================================================================
