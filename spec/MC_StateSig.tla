---- MODULE MC_StateSig ----
EXTENDS StateSig
McSize == <<1, 2, 0, 1>>
McSigSpace == (-1)..17
McVals == {0, 1}
====
