------------------------------ MODULE SetConst ------------------------------
(* set_const.py: which derived Model fields depend on which set_const-safe inputs.
   The replay changes a TLC-chosen subset of inputs (differently per world when batched), calls
   set_const and compares every derived field with mj_setConst on a per-world MjModel; derived fields
   that depend on none of the changed inputs must keep their values.  *)
EXTENDS Integers, FiniteSets, TLC, Json
CONSTANTS Mode, NCfg
Inputs == {"body_mass_inertia", "body_pos", "qpos0", "dof_armature"}
Derived == {"body_subtreemass", "tendon_length0", "dof_invweight0", "body_invweight0", "tendon_invweight0", "cam_pos0", "cam_poscom0", "cam_mat0",
            "light_pos0", "light_poscom0", "light_dir0", "actuator_acc0", "stat.meaninertia"}
Dynamic == {"dof_invweight0", "body_invweight0", "tendon_invweight0", "actuator_acc0", "stat.meaninertia"}       \* functions of the inertia matrix at qpos0
Geometric == {"tendon_length0", "cam_pos0", "cam_poscom0", "cam_mat0", "light_pos0", "light_poscom0", "light_dir0"}
DependsOn(i) ==
  CASE i = "body_mass_inertia" -> {"body_subtreemass"} \cup Dynamic \cup {"cam_poscom0", "light_poscom0"}      \* centres of mass move with the mass distribution
    [] i = "body_pos" -> Dynamic \cup Geometric
    [] i = "qpos0" -> Dynamic \cup Geometric
    [] i = "dof_armature" -> Dynamic
VARIABLES c, k
vars == <<c, k>>
RandSub(S) == LET RECURSIVE Go(_) Go(T) == IF T = {} THEN {} ELSE LET e == CHOOSE z \in T : TRUE IN (IF RandomElement(1..3) = 1 THEN {e} ELSE {}) \cup Go(T \ {e}) IN Go(S)
RandCfg(u) == LET ch == RandSub(Inputs) IN [changed |-> IF ch = {} THEN {RandomElement(Inputs)} ELSE ch, batched |-> RandomElement(BOOLEAN), restore |-> RandomElement(BOOLEAN)]
Init == c = RandCfg(0) /\ k = 1
Next == k < NCfg /\ c' = RandCfg(k) /\ k' = k + 1
Spec == Init /\ [][Next]_vars
MayChange(x) == UNION {DependsOn(i) : i \in x.changed}
TypeOK == c.changed \subseteq Inputs /\ c.changed # {} /\ MayChange(c) \subseteq Derived
EmitCfg == PrintT(<<"EMIT", "cfg", ToJson([c |-> c, maychange |-> MayChange(c)])>>)
=============================================================================
