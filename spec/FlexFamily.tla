----------------------------- MODULE FlexFamily -----------------------------
(* Flex deformables (smooth.py:flex, passive.py, constraint.py, collision_flex.py): the family of flex models the replay
   draws from, which of them the MJCF compiler accepts, which of those MJWarp accepts (put_model), and which stages of
   the pipeline each feature feeds - so that a feature that is silently dropped shows up as a stage that must differ
   from the featureless model but does not.

   A configuration is one flexcomp grid (plus optionally a second, plain rope: "multiflex"), an obstacle geom and optionally a
   "rider": a free rigid sphere that never touches the flex (it rests on the obstacle plane, or falls freely), declared last, carrying
   touch / force / torque / contact sensors.  Its sensors must not see the flex's contacts (a flex contact has no geom on the flex side).

     CompileOK(c)   the MJCF compiler builds the model         (checked against MuJoCo: both directions)
     Accepted(c)    put_model builds the model                 (checked against MJWarp: both directions)
     Feeds(c)       stages that must carry a non-zero contribution of a feature of c (vacuity guard of the replay)

   Mode "sim": TLC emits random configurations with these verdicts.  Mode "mc": TLC enumerates the whole family and
   checks the rules' internal consistency (Accepted => CompileOK; every accepted configuration with a feature feeds a stage). *)
EXTENDS Integers, Sequences, FiniteSets, TLC, Json

CONSTANTS Mode, NCfg

Dofs == {"full", "radial", "trilinear"}
Eqs == {"false", "true", "strain", "vert"}
SelfCollide == {"none", "narrow", "bvh", "sap", "auto"}
Obstacles == {"none", "plane", "sphere", "capsule", "cylinder", "box", "ellipsoid"}
Elastic2d == {"none", "bend", "stretch", "both"}
Pins == {"none", "one", "two"}
Seconds == {"none", "far", "cross"}   \* a second, plain rope: far away, or laid across the top of the first flex (flex-flex contacts)
States == {"rest", "small", "large", "fold"}     \* fold: one vertex is laid onto a distant element of the same flex (self-contact)

Cfgs == [dim : 1..3, size : 1..3, dof : Dofs, eq : Eqs, young : BOOLEAN, eldamp : BOOLEAN, e2d : Elastic2d, edgedamp : BOOLEAN, edgestiff : BOOLEAN,
         pin : Pins, selfcollide : SelfCollide, internal : BOOLEAN, obstacle : Obstacles, condim : {1, 3}, margin : BOOLEAN,
         cone : {"pyramidal", "elliptic"}, jacobian : {"dense", "sparse"}, second : Seconds, nworld : 1..2, state : States, rider : BOOLEAN]

\* model checking enumerates the fields the rules read; the others are fixed
McCfgs == {x \in [dim : 1..3, size : {2}, dof : Dofs, eq : Eqs, young : BOOLEAN, eldamp : BOOLEAN, e2d : Elastic2d, edgedamp : BOOLEAN, edgestiff : BOOLEAN,
                  pin : {"one"}, selfcollide : SelfCollide, internal : BOOLEAN, obstacle : {"none", "plane"}, condim : {3}, margin : {FALSE},
                  cone : {"pyramidal"}, jacobian : {"dense"}, second : {"none"}, nworld : {1}, state : {"rest", "small"}, rider : BOOLEAN] : TRUE}

\* ------------------------------------------------------------------ acceptance
CompileOK(c) ==
  /\ ~(c.young /\ c.eq # "false" /\ c.e2d # "bend")                 \* "flex constraints and elasticity (young) cannot both be present" (bending alone may)
  /\ (c.dof = "trilinear" => c.dim = 3)                            \* grid rotation of the interpolation cell
  /\ (c.dof = "trilinear" => c.selfcollide = "none")               \* "trilinear interpolation cannot do self-collision"
  /\ ~(c.dof = "radial" /\ c.e2d \in {"bend", "both"})             \* bending needs the vertex bodies' full mobility ("... require a static (jointless) pin body")
  /\ (c.dof = "trilinear" => ~c.internal)                          \* "trilinear interpolation cannot do internal collisions"
  /\ (c.edgestiff => c.dim = 1)                                    \* "edge stiffness only available for dim=1"
  /\ (c.e2d # "none" => c.dim = 2 /\ c.young)
  /\ (c.eldamp => c.young)
Unsupported(c) == c.eq = "vert" \/ c.internal                      \* put_model raises NotImplementedError
\* put_model fails ungracefully (IndexError) although MuJoCo compiles and simply has no rows: a finding, not a rule
CrashesPutModel(c) == c.eq = "strain" /\ c.dof # "trilinear"
Accepted(c) == CompileOK(c) /\ ~Unsupported(c) /\ ~CrashesPutModel(c)

\* ------------------------------------------------------------------ which stages a feature feeds
Feeds(c) ==
  \* elastic forces need a deformation; Young's modulus acts in 3-D and, when elastic2d selects a mode, in 2-D; a 1-D flex has edge stiffness only
  (IF ((c.young /\ (c.dim = 3 \/ (c.dim = 2 /\ c.e2d # "none"))) \/ c.edgestiff) /\ c.state \in {"small", "large"} THEN {"qfrc_spring"} ELSE {}) \cup
  (IF c.edgedamp /\ c.dof # "trilinear" /\ c.state \notin {"rest", "fold"} THEN {"qfrc_damper"} ELSE {}) \cup
  (IF c.eq = "true" \/ (c.eq = "strain" /\ c.dof = "trilinear") THEN {"efc_equality"} ELSE {}) \cup
  (IF c.obstacle # "none" THEN {"contact"} ELSE {}) \cup
  (IF c.rider /\ c.obstacle = "plane" THEN {"sensor"} ELSE {}) \cup
  (IF c.second = "cross" /\ c.state # "fold" THEN {"flexflex"} ELSE {}) \cup
  (IF c.state = "fold" /\ c.selfcollide # "none" /\ c.dim = 1 /\ ~(c.size = 1 /\ c.pin = "two") THEN {"selfcontact"} ELSE {})
\* features MJWarp is known to drop (replay reports them under their own class): edge stiffness / damping
Dropped(c) == (IF c.edgestiff THEN {"edgestiffness"} ELSE {}) \cup (IF c.edgedamp THEN {"edgedamping"} ELSE {})

\* ------------------------------------------------------------------ sampling
Coin(n) == RandomElement(1..n) = 1
RandCfg(u) ==
  LET dim == RandomElement(1..3)
      dof == IF dim = 3 THEN RandomElement({"full", "full", "trilinear", "radial"} \cup {"full"}) ELSE (IF Coin(5) THEN "radial" ELSE IF Coin(12) THEN "trilinear" ELSE "full")
      young == Coin(2)
      eq == IF young THEN (IF Coin(15) THEN "true" ELSE "false") ELSE (IF Coin(3) THEN "false" ELSE IF Coin(12) THEN "vert" ELSE IF dof = "trilinear" \/ Coin(10) THEN "strain" ELSE "true")
  IN [dim |-> dim, size |-> RandomElement(1..3), dof |-> dof, eq |-> eq, young |-> young, eldamp |-> young /\ Coin(2),
      e2d |-> IF dim = 2 /\ young /\ Coin(2) THEN RandomElement(Elastic2d) ELSE "none", edgedamp |-> Coin(3), edgestiff |-> (dim = 1 /\ Coin(3)) \/ Coin(25),
      pin |-> RandomElement(Pins), selfcollide |-> IF dof = "trilinear" /\ ~Coin(12) THEN "none" ELSE RandomElement(SelfCollide), internal |-> Coin(20),
      obstacle |-> RandomElement(Obstacles), condim |-> RandomElement({1, 3}), margin |-> Coin(3), cone |-> RandomElement({"pyramidal", "elliptic"}),
      jacobian |-> RandomElement({"dense", "sparse"}), second |-> IF Coin(5) THEN "cross" ELSE IF Coin(4) THEN "far" ELSE "none", nworld |-> RandomElement(1..2), state |-> IF dof = "full" /\ dim = 1 /\ Coin(2) THEN "fold" ELSE RandomElement({"rest", "small", "large"}), rider |-> Coin(2)]

VARIABLES c, k
vars == <<c, k>>
Init == k = 1 /\ (IF Mode = "sim" THEN c = RandCfg(0) ELSE c \in McCfgs)
Next == Mode = "sim" /\ k < NCfg /\ c' = RandCfg(k) /\ k' = k + 1
Spec == Init /\ [][Next]_vars

TypeOK == c \in Cfgs
AcceptedCompiles == Accepted(c) => CompileOK(c)
FeedsKnownStages == Feeds(c) \subseteq {"qfrc_spring", "qfrc_damper", "efc_equality", "contact", "selfcontact", "sensor", "flexflex"}
\* the two elastic mechanisms are exclusive, so an accepted model never has both spring elasticity and equality rows
ElasticXorEquality == CompileOK(c) => ~({"efc_equality"} \subseteq Feeds(c) /\ c.young /\ c.e2d # "bend")
EmitCfg == Mode = "sim" => PrintT(<<"EMIT", "cfg", ToJson([c |-> c, compile |-> CompileOK(c), accepted |-> Accepted(c), unsupported |-> Unsupported(c),
                                                           crash |-> CompileOK(c) /\ ~Unsupported(c) /\ CrashesPutModel(c), feeds |-> Feeds(c), dropped |-> Dropped(c)])>>)
=============================================================================
