----------------------------- MODULE ContactExp -----------------------------
(* Closed form of the BROADPHASE / NARROWPHASE bits as a function of the candidate pairs of each
   collision pass (a1, a2), the contacts they yield (ncon) and the capacity c.  ContactBuf.tla
   checks it against the allocator model (invariant ExpectedOK); the harness uses it to predict
   the bits for measured scenes.  "any": which pairs are dropped depends on thread order, so the
   number of contacts attempted is not determined. *)
EXTENDS Integers
ExpBroad(a1, a2, c) == a1 > c \/ a2 > c
ExpNarrow(a1, a2, ncon, c) == IF ExpBroad(a1, a2, c) THEN "any" ELSE IF ncon > c THEN "set" ELSE "clear"
=============================================================================
