---- MODULE MC_RowAlloc ----
EXTENDS RowAlloc
R(l, k, n, z) == [launch |-> l, kind |-> k, n |-> n, rnz |-> z]
None == R(0, "none", 0, 0)
\* launches: 1 connect/weld kernel, 2 single-row equality kernel, 3 friction, 4 limits, 5 contacts
McProfiles == {
  <<R(1, "E", 3, 2), R(1, "E", 3, 2), R(3, "F", 1, 1), R(4, "L", 1, 1), R(5, "C", 4, 2), R(5, "C", 1, 2)>>,
  <<R(1, "E", 6, 1), R(2, "E", 1, 2), R(2, "E", 1, 1), R(5, "C", 4, 1), R(5, "C", 4, 1), R(5, "C", 1, 1)>>,
  <<R(3, "F", 1, 1), R(3, "F", 1, 1), R(4, "L", 1, 3), R(4, "L", 1, 1), R(5, "C", 3, 2), None>>
}
McProfilesQuick == {
  <<R(1, "E", 3, 2), R(1, "E", 3, 2), R(3, "F", 1, 1), R(4, "L", 1, 1), R(5, "C", 4, 2), R(5, "C", 1, 2)>>
}
====
