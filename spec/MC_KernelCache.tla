---- MODULE MC_KernelCache ----
EXTENDS KernelCache
\* builders: "efc_contact_update"(cone, adhesion), "solve_init"(warmstart, sparse), "factor_block"(size), "narrow"(nprim)
Cfg(id, cone, adh, ws, sp, sz, pr) ==
  [id |-> id, prim |-> pr,
   calls |-> {[builder |-> "efc_contact_update", args |-> <<<<"i", cone>>, <<"b", adh>>>>], [builder |-> "solve_init", args |-> <<<<"b", ws>>, <<"b", sp>>>>],
              [builder |-> "factor_block", args |-> << <<"i", sz>> >>]}]
McConfigs == {Cfg(0, 0, FALSE, TRUE, FALSE, 3, {"plane_box", "box_box"}),      \* nativeccd disabled: box-box is primitive
              Cfg(1, 0, FALSE, TRUE, FALSE, 3, {"plane_box"}),                 \* default: box-box goes to the convex kernel
              Cfg(2, 1, TRUE, FALSE, TRUE, 1, {"plane_sphere", "sphere_sphere"}),
              Cfg(3, 1, FALSE, TRUE, TRUE, 6, {}),
              Cfg(4, 0, TRUE, TRUE, FALSE, 1, {"plane_capsule"})}
====
