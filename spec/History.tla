------------------------------ MODULE History ------------------------------
(* One delay buffer of history.py (actuator ctrl delay):  [user, cursor, times[n], values[n]].
   Time is counted in integer ticks of the timestep.  The circular binary search
   (_history_find_index), the four insert cases (_history_insert_scalar) and the ZOH / linear read
   (_history_read_scalar) are transcribed; the properties are stated declaratively over the
   LOGICAL sequence of samples (oldest .. newest).

   A step of the simulation   applied = Read(now - Delay) ; Insert(now, ctrl) ; now := now + 1
   SetTime models the user writing d.time (time travel => out-of-order and "older than oldest" inserts). *)
EXTENDS Integers, Sequences, FiniteSets, TLC, Json

CONSTANTS N,          \* nsample
          Delay,      \* delay in ticks (>= 1)
          Interp,     \* 0 ZOH, 1 linear
          Vals,       \* control values
          TMin, TMax, \* time range for SetTime / probes
          MaxLevel, Record, Pick(_)

VARIABLES cursor, times, vals, now, mono, ctrlAt, op, hist
vars == <<cursor, times, vals, now, mono, ctrlAt, op, hist>>

PickAll(S) == S
PickRand(S) == {RandomElement(S)}

Phys(cur, l) == (cur + 1 + l) % N                 \* logical (0 = oldest) -> physical index
T(l) == times[Phys(cursor, l)]
V(l) == vals[Phys(cursor, l)]

\* --- _history_find_index: smallest logical i with times[i] >= t  (0 if t <= oldest, N if t > newest)
RECURSIVE Bin(_, _, _, _, _)
Bin(tm, cur, t, lo, hi) ==
  IF hi - lo > 1
  THEN LET mid == (lo + hi) \div 2 IN
       IF tm[Phys(cur, mid)] < t THEN Bin(tm, cur, t, mid, hi) ELSE Bin(tm, cur, t, lo, mid)
  ELSE hi
FindIdx(tm, cur, t) ==
  IF t <= tm[Phys(cur, 0)] THEN 0
  ELSE IF t > tm[Phys(cur, N - 1)] THEN N
  ELSE Bin(tm, cur, t, 0, N - 1)

\* --- _history_insert_scalar: returns the new <<cursor, times, vals>>
RECURSIVE Shift(_, _, _, _, _)
Shift(tm, vl, cur, j, upto) ==    \* for j in range(upto): slot j := slot j+1   (logical indices)
  IF j >= upto THEN <<tm, vl>>
  ELSE Shift([tm EXCEPT ![Phys(cur, j)] = tm[Phys(cur, j + 1)]], [vl EXCEPT ![Phys(cur, j)] = vl[Phys(cur, j + 1)]], cur, j + 1, upto)
Insert(cur, tm, vl, t, v) ==
  LET i == FindIdx(tm, cur, t) IN
  IF i < N /\ tm[Phys(cur, i)] = t THEN <<cur, tm, [vl EXCEPT ![Phys(cur, i)] = v]>>                       \* exact match
  ELSE IF i = 0 THEN <<cur, [tm EXCEPT ![Phys(cur, 0)] = t], [vl EXCEPT ![Phys(cur, 0)] = v]>>             \* older than oldest
  ELSE IF i = N THEN LET c2 == (cur + 1) % N IN <<c2, [tm EXCEPT ![c2] = t], [vl EXCEPT ![c2] = v]>>       \* newer than newest
  ELSE LET s == Shift(tm, vl, cur, 0, i - 1) IN                                                           \* out of order
       <<cur, [s[1] EXCEPT ![Phys(cur, i - 1)] = t], [s[2] EXCEPT ![Phys(cur, i - 1)] = v]>>

\* --- _history_read_scalar: returns a rational <<num, den>>
Read(t, interp) ==
  IF t <= T(0) THEN <<V(0), 1>>
  ELSE IF t >= T(N - 1) THEN <<V(N - 1), 1>>
  ELSE LET i == FindIdx(times, cursor, t) IN
       IF T(i) = t THEN <<V(i), 1>>
       ELSE IF interp = 0 THEN <<V(i - 1), 1>>
       ELSE <<V(i - 1) * (T(i) - T(i - 1)) + (t - T(i - 1)) * (V(i) - V(i - 1)), T(i) - T(i - 1)>>

Init ==
  /\ cursor = N - 1
  /\ times = [i \in 0..(N - 1) |-> -(N - i)]          \* mj_resetData layout: past ticks -N .. -1, values 0
  /\ vals = [i \in 0..(N - 1) |-> 0]
  /\ now = 0
  /\ mono = TRUE
  /\ ctrlAt = [t \in {} |-> 0]
  /\ op = [kind |-> "init"]
  /\ hist = <<>>

Step(v) ==
  /\ now < TMax
  /\ LET r == Insert(cursor, times, vals, now, v) IN
     /\ cursor' = r[1] /\ times' = r[2] /\ vals' = r[3]
  /\ op' = [kind |-> "step", v |-> v, t |-> now, applied |-> Read(now - Delay, Interp)]
  /\ ctrlAt' = [t \in DOMAIN ctrlAt \cup {now} |-> IF t = now THEN v ELSE ctrlAt[t]]
  /\ now' = now + 1
  /\ UNCHANGED mono

SetTime(t) ==
  /\ t # now
  /\ now' = t
  /\ mono' = FALSE
  /\ op' = [kind |-> "settime", t |-> t]
  /\ UNCHANGED <<cursor, times, vals, ctrlAt>>

ReadOp(t, interp) ==
  /\ op' = [kind |-> "read", t |-> t, interp |-> interp, r |-> Read(t - Delay, interp)]
  /\ UNCHANGED <<cursor, times, vals, now, mono, ctrlAt>>

Next ==
  /\ TLCGet("level") < MaxLevel
  /\ \/ \E v \in Pick(Vals) : Step(v)
     \/ \E t \in Pick(TMin..TMax) : SetTime(t)
     \/ \E t \in Pick(TMin..TMax), ip \in Pick({0, 1}) : ReadOp(t, ip)
  /\ hist' = IF Record THEN Append(hist, [op |-> op', cursor |-> cursor', times |-> times', vals |-> vals', now |-> now']) ELSE hist

Spec == Init /\ [][Next]_vars

------------------------------------------------------------------------
Sorted == \A i \in 0..(N - 2) : T(i) < T(i + 1)
CursorOK == cursor \in 0..(N - 1)
\* the circular binary search returns the bracketing index for every probe time
FindOK == \A t \in (TMin - N - 1)..(TMax + 1) :
  LET i == FindIdx(times, cursor, t) IN
  /\ i \in 0..N
  /\ (i = 0 => t <= T(0))
  /\ (i = N => t > T(N - 1))
  /\ (i > 0 /\ i < N => T(i - 1) < t /\ t <= T(i))
\* zero-order hold = value of the latest sample not after t (oldest value before the buffer)
ZohDecl(t) == IF t <= T(0) THEN V(0)
              ELSE V(CHOOSE i \in 0..(N - 1) : T(i) <= t /\ \A j \in 0..(N - 1) : T(j) <= t => T(j) <= T(i))
ReadZohOK == \A t \in (TMin - N - 1)..(TMax + 1) : Read(t, 0) = <<ZohDecl(t), 1>>
\* linear read lies on the segment between the bracketing samples (cross-multiplied, den > 0)
ReadLinOK == \A t \in (TMin - N - 1)..(TMax + 1) :
  LET r == Read(t, 1) IN
  /\ r[2] > 0
  /\ (t > T(0) /\ t < T(N - 1)) =>
       \E i \in 1..(N - 1) : T(i - 1) <= t /\ t <= T(i) /\
            r[1] * (T(i) - T(i - 1)) = r[2] * (V(i - 1) * (T(i) - T(i - 1)) + (t - T(i - 1)) * (V(i) - V(i - 1)))
\* C30 proper: in normal operation the control applied at tick t is the one recorded at t - Delay (0 before the start)
DelayOK == [][(op'.kind = "step" /\ mono /\ Delay <= N) =>
               op'.applied = <<IF (now - Delay) \in DOMAIN ctrlAt THEN ctrlAt[now - Delay] ELSE 0, 1>>]_vars
\* the buffer holds the last N samples in normal operation
HoldsLastN == mono => \A l \in 0..(N - 1) : T(l) = now - N + l /\ V(l) = (IF T(l) \in DOMAIN ctrlAt THEN ctrlAt[T(l)] ELSE 0)

EmitBeh == TLCGet("level") = MaxLevel => PrintT(<<"EMIT", "beh", ToJson(hist)>>)
=============================================================================
