CONSTANTS
  MaxWorld = 6
SPECIFICATION Spec
INVARIANT RowInRange
INVARIANT Unbatched
INVARIANT FullBatch
INVARIANT Periodic
INVARIANT AllRowsUsed
INVARIANT EmitPair
