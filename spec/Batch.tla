------------------------------- MODULE Batch -------------------------------
(* Per-world model parameters (types.Model fields annotated array("*", ...)): every kernel reads a
   batched field F through  F[worldid % F.shape[0]].  A Model whose field holds Size rows simulates
   world w with row (w mod Size); Size must be 1 or any other row count the user supplies.

   The specification fixes the meaning used by the replay: world w of a batched Model behaves like
   an unbatched Model (Size = 1) that holds row Row(w).  TLC enumerates the (NWorld, Size) pairs and
   checks the elementary facts the replay relies on. *)
EXTENDS Integers, FiniteSets, TLC, Json
CONSTANTS MaxWorld
VARIABLES nworld, size
vars == <<nworld, size>>
Row(w, s) == w % s
Init == nworld \in 1..MaxWorld /\ size \in 1..MaxWorld
Next == UNCHANGED vars
Spec == Init /\ [][Next]_vars
Worlds == 0..(nworld - 1)
RowInRange == \A w \in Worlds : Row(w, size) \in 0..(size - 1)
Unbatched == size = 1 => \A w \in Worlds : Row(w, size) = 0
FullBatch == size = nworld => \A w \in Worlds : Row(w, size) = w
Periodic == \A w \in Worlds : w + size \in Worlds => Row(w + size, size) = Row(w, size)
\* every row is used by some world iff size <= nworld
AllRowsUsed == size <= nworld => \A r \in 0..(size - 1) : \E w \in Worlds : Row(w, size) = r
EmitPair == PrintT(<<"EMIT", "pair", ToJson([nworld |-> nworld, size |-> size, rows |-> [w \in Worlds |-> Row(w, size)]])>>)
=============================================================================
