CONSTANTS
  NTree = 3
  MinAwake = 2
  Relink = TRUE
SPECIFICATION Spec
INVARIANT WellFormed
INVARIANT SleepOnlyAfterMinAwake
INVARIANT IslandReady
INVARIANT WokenSetOrderIndependent
INVARIANT CycleClosed
