------------------------------ MODULE Pipeline ------------------------------
(* Public-API state machine of a batch of worlds (forward.py step/forward/step1/step2,
   io.py reset_data / reset_data_keyframe / make_data / put_data, support.py get_state/set_state).

   The integration state of a world is represented by its TERM: the origin (fresh Data or a
   keyframe) followed by the inputs of every step taken since.  The term is exactly what the
   properties quantify over:
     C09  a world's state is a function of its own term only (not of the other worlds' terms)
     C12  two Data holding the same integration state behave identically, whatever came before
          (CopyState copies a world's integration state; afterwards both have the same term)
     C13  reset_data(mask): selected worlds get the fresh term, the others keep theirs
     C14  reset_data_keyframe(keys): valid key -> term <<key k>>; invalid -> untouched; invalid scalar rejected
     C37  step1;step2 = step ; forward does not change the term
   The harness evaluates a term on a fresh Data (reference) and compares the real world after
   EVERY action with it.

   The shared contact buffer is modelled explicitly, because reset of SOME worlds has to edit a
   buffer that all worlds share: cbuf is the list of entries below nacon, each tagged with a world.
   ResetContacts = "as_found" transcribes io.py:reset_data (cleared entries are re-tagged world 0;
   resetting world 0 zeroes the global counter); "intended" drops exactly the selected worlds' entries. *)
EXTENDS Integers, Sequences, FiniteSets, TLC, Json

CONSTANTS NWorld, NKey, Ctrls, MaxLevel, Record, Pick(_), Ops, ResetContacts

VARIABLES term, cbuf, op, hist
vars == <<term, cbuf, op, hist>>

Worlds == 0..(NWorld - 1)
Fresh == <<>>
KeyTerm(k) == <<[e |-> "key", a |-> k]>>
StepEv(c) == [e |-> "step", a |-> c]
Masks == [Worlds -> BOOLEAN]
KeyArrays == [Worlds -> (-1)..NKey]          \* -1 and NKey are invalid indices

PickAll(S) == S
PickRand(S) == {RandomElement(S)}

\* contacts a world has after a step: abstractly one live entry per world that has taken a step
\* (the harness uses scenes where every world is in contact)
HasContact(t) == Len(t) > 0 /\ t[Len(t)].e = "step"
Regenerate(tm) ==
  LET RECURSIVE Build(_)
      Build(w) == IF w = NWorld THEN <<>> ELSE (IF HasContact(tm[w]) THEN <<[w |-> w, live |-> TRUE]>> ELSE <<>>) \o Build(w + 1)
  IN Build(0)
\* what get_data_into reports for world w: entries tagged w (live or not)
Reported(buf, w) == SelectSeq(buf, LAMBDA c : c.w = w)
LiveOf(buf, w) == SelectSeq(buf, LAMBDA c : c.w = w /\ c.live)

ResetBuf(buf, mask) ==
  IF ResetContacts = "intended"
  THEN SelectSeq(buf, LAMBDA c : ~mask[c.w])
  ELSE IF mask[0] THEN <<>>            \* `if worldid == 0: nacon_out[0] = 0`
       ELSE [i \in 1..Len(buf) |-> IF mask[buf[i].w] THEN [w |-> 0, live |-> FALSE] ELSE buf[i]]

Init == /\ term = [w \in Worlds |-> Fresh]
        /\ cbuf = <<>>
        /\ op = [kind |-> "init"]
        /\ hist = <<>>

Step(c) ==
  /\ "step" \in Ops
  /\ term' = [w \in Worlds |-> Append(term[w], StepEv(c[w]))]
  /\ cbuf' = Regenerate(term')
  /\ op' = [kind |-> "step", c |-> c]

Step12(c) ==          \* step1 ; step2 with nothing in between
  /\ "step12" \in Ops
  /\ term' = [w \in Worlds |-> Append(term[w], StepEv(c[w]))]
  /\ cbuf' = Regenerate(term')
  /\ op' = [kind |-> "step12", c |-> c]

\* n consecutive step() calls with the same controls (long quiet stretches: lets worlds fall asleep, buffers wrap around)
RECURSIVE Repeat(_, _, _)
Repeat(t, ev, n) == IF n = 0 THEN t ELSE Repeat(Append(t, ev), ev, n - 1)
StepN(c, n) ==
  /\ "stepn" \in Ops
  /\ term' = [w \in Worlds |-> Repeat(term[w], StepEv(c[w]), n)]
  /\ cbuf' = Regenerate(term')
  /\ op' = [kind |-> "stepn", c |-> c, n |-> n]

Forward ==
  /\ "forward" \in Ops
  /\ UNCHANGED term
  /\ cbuf' = Regenerate(term) \* forward recomputes contacts from the current positions
  /\ op' = [kind |-> "forward"]

ResetData(mask, none) ==
  /\ "reset" \in Ops
  /\ LET mm == IF none THEN [w \in Worlds |-> TRUE] ELSE mask IN
     /\ term' = [w \in Worlds |-> IF mm[w] THEN Fresh ELSE term[w]]
     /\ cbuf' = ResetBuf(cbuf, mm)
  /\ op' = [kind |-> "reset", mask |-> mask, none |-> none]

ResetKeyArray(keys) ==
  /\ "keyarray" \in Ops
  /\ LET valid == [w \in Worlds |-> keys[w] >= 0 /\ keys[w] < NKey] IN
     /\ term' = [w \in Worlds |-> IF valid[w] THEN KeyTerm(keys[w]) ELSE term[w]]
     /\ cbuf' = ResetBuf(cbuf, valid)
  /\ op' = [kind |-> "keyarray", keys |-> keys]

ResetKeyScalar(k) ==
  /\ "keyscalar" \in Ops
  /\ IF k >= 0 /\ k < NKey
     THEN /\ term' = [w \in Worlds |-> KeyTerm(k)]
          /\ cbuf' = ResetBuf(cbuf, [w \in Worlds |-> TRUE])
     ELSE UNCHANGED <<term, cbuf>>              \* rejected with an exception
  /\ op' = [kind |-> "keyscalar", k |-> k, ok |-> (k >= 0 /\ k < NKey)]

\* get_state(INTEGRATION) of world a written into world b with set_state(active = {b})
CopyState(a, b) ==
  /\ "copy" \in Ops
  /\ a # b
  /\ term' = [term EXCEPT ![b] = term[a]]
  /\ UNCHANGED cbuf      \* derived data of b is stale until the next forward/step
  /\ op' = [kind |-> "copy", a |-> a, b |-> b]

Next ==
  /\ TLCGet("level") < MaxLevel
  /\ \/ \E c \in Pick([Worlds -> Ctrls]) : Step(c) \/ Step12(c) \/ StepN(c, 12)
     \/ Forward
     \/ \E m \in Pick(Masks) : ResetData(m, FALSE)
     \/ ResetData([w \in Worlds |-> TRUE], TRUE)
     \/ \E ks \in Pick(KeyArrays) : ResetKeyArray(ks)
     \/ \E k \in Pick((-1)..NKey) : ResetKeyScalar(k)
     \/ \E a \in Pick(Worlds), b \in Pick(Worlds) : CopyState(a, b)
  /\ hist' = IF Record THEN Append(hist, [op |-> op', term |-> term', cbuf |-> cbuf']) ELSE hist

Spec == Init /\ [][Next]_vars

------------------------------------------------------------------------
\* C13
ResetSelected == [][op'.kind = "reset" =>
   \A w \in Worlds : IF (op'.none \/ op'.mask[w]) THEN term'[w] = Fresh ELSE term'[w] = term[w]]_vars
\* unselected worlds keep their reported contacts; selected worlds report none
ResetContactsOK == [][op'.kind \in {"reset", "keyarray"} =>
   \A w \in Worlds : IF term'[w] = term[w] /\ ~(op'.kind = "reset" /\ (op'.none \/ op'.mask[w]))
                     THEN Reported(cbuf', w) = Reported(cbuf, w)
                     ELSE Reported(cbuf', w) = <<>>]_vars
\* C14
KeyframeOK == [][op'.kind = "keyarray" =>
   \A w \in Worlds : IF op'.keys[w] >= 0 /\ op'.keys[w] < NKey THEN term'[w] = KeyTerm(op'.keys[w]) ELSE term'[w] = term[w]]_vars
KeyScalarOK == [][op'.kind = "keyscalar" =>
   IF op'.ok THEN \A w \in Worlds : term'[w] = KeyTerm(op'.k) ELSE UNCHANGED <<term, cbuf>>]_vars
\* C37 / C12
ForwardKeepsState == [][op'.kind = "forward" => term' = term]_vars
\* every reported contact is a live one (reset never leaves phantom entries visible to get_data_into)
NoPhantom == \A i \in 1..Len(cbuf) : cbuf[i].live

EmitBeh == TLCGet("level") = MaxLevel => PrintT(<<"EMIT", "beh", ToJson(hist)>>)
=============================================================================
