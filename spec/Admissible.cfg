SPECIFICATION Spec
INVARIANT Report
INVARIANT Coverage
INVARIANT Admissible
