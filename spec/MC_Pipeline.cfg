CONSTANTS
  NWorld = 3
  NKey = 2
  Ctrls <- McCtrls
  MaxLevel = 4
  Record = FALSE
  Pick <- PickAll
  Ops <- McOps
  ResetContacts = "intended"
SPECIFICATION Spec
PROPERTY ResetSelected
PROPERTY ResetContactsOK
PROPERTY KeyframeOK
PROPERTY KeyScalarOK
PROPERTY ForwardKeepsState
INVARIANT NoPhantom
