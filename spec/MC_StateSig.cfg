CONSTANTS
  NComp = 4
  Size <- McSize
  NWorld = 2
  Vals <- McVals
  SigSpace <- McSigSpace
  BufLen = 4
  MaxLevel = 5
  Pick <- PickAll
  Record = FALSE
SPECIFICATION Spec
INVARIANT LayoutInv
INVARIANT CellsInv
INVARIANT RoundTripInv
INVARIANT GetSetInv
PROPERTY MaskedUntouched
PROPERTY Rejected
