CONSTANTS
  NWorld = 1
  NGeom = 3
  Coord <- McCoord3
  Mode = "all"
  NCfg = 1
SPECIFICATION Spec
INVARIANT Superset
INVARIANT AtMostOnce
INVARIANT NoSelf
INVARIANT InRange
INVARIANT Tight
