CONSTANTS
  Configs <- McConfigs
  MaxLen = 3
  Dispatch = "global"
  Emit = FALSE
SPECIFICATION Spec
INVARIANT DispatchIndependent
INVARIANT KeyInjective
