---- MODULE MC_ContactBuf ----
EXTENDS ContactBuf
Pr(i, w, k) == [id |-> i, w |-> w, k |-> k]
McP1 == {Pr(1, 0, 2), Pr(2, 0, 1), Pr(3, 1, 1)}
McP2 == {Pr(4, 1, 2), Pr(5, 0, 0)}
McCaps == 0..6
====
