---------------------------- MODULE KernelCache ----------------------------
(* Process-wide state that outlives a model: warp_util._KERNEL_CACHE (cache_kernel) and the
   dispatch list of the primitive narrowphase (collision_primitive).

   A PROGRAM is a sequence of model configurations simulated one after the other in one process.
   A configuration carries the static arguments of the kernel builders it calls and the set of
   primitive geom-pair types its narrowphase must dispatch (which depends on the model's geoms AND
   on its options: with nativeccd disabled box-box is a primitive pair, otherwise a convex pair).

   cache_kernel keys a built kernel by  (hash(arg) ..., hash(builder name));  Python hashes True as 1,
   so the key function below maps booleans and small ints to the same value - the invariant
   KeyInjective says this never conflates two different argument tuples of one builder because
   every builder's positions are type-stable.

   Dispatch = "global" is the as-found code (the list lives in the module and only grows),
   "local" the repaired code (the list is rebuilt from the current model at every call). *)
EXTENDS Integers, Sequences, FiniteSets, TLC, Json

CONSTANTS Configs,      \* set of records [id, args (sequence of builder-argument tuples), prim (set of pair types)]
          MaxLen, Dispatch, Emit

VARIABLES cache, prim, prog, used, key2args
vars == <<cache, prim, prog, used, key2args>>

\* arguments are tagged <<"b", bool>> / <<"i", int>> (TLC does not compare booleans with integers; Python does: hash(True) == 1)
Hash(a) == IF a[1] = "b" THEN (IF a[2] THEN 1 ELSE 0) ELSE a[2]
KeyOf(call) == <<call.builder, [i \in DOMAIN call.args |-> Hash(call.args[i])]>>

Init == /\ cache = {} /\ prim = {} /\ prog = <<>> /\ used = {} /\ key2args = [k \in {} |-> 0]

Run(c) ==
  /\ Len(prog) < MaxLen
  /\ prog' = Append(prog, c.id)
  /\ cache' = cache \cup {KeyOf(call) : call \in c.calls}
  \* a key already in the cache returns the kernel built for the FIRST argument tuple that produced it
  /\ key2args' = [k \in (DOMAIN key2args) \cup {KeyOf(call) : call \in c.calls} |->
                    IF k \in DOMAIN key2args THEN key2args[k] ELSE (CHOOSE call \in c.calls : KeyOf(call) = k).args]
  /\ prim' = IF Dispatch = "global" THEN prim \cup c.prim ELSE c.prim
  /\ used' = prim'                                                        \* pair types the launched kernel dispatches

Next == \E c \in Configs : Run(c)
Spec == Init /\ [][Next]_vars
------------------------------------------------------------------------
Last == IF prog = <<>> THEN CHOOSE c \in Configs : TRUE ELSE CHOOSE c \in Configs : c.id = prog[Len(prog)]
\* C36: what the current model's narrowphase dispatches depends on the current model only
DispatchIndependent == prog # <<>> => used = Last.prim
\* C36: every lookup of the current model gets a kernel built for exactly its arguments
KeyInjective == prog # <<>> => \A call \in Last.calls : key2args[KeyOf(call)] = call.args
EmitProg == (Emit /\ Len(prog) = MaxLen) => PrintT(<<"EMIT", "prog", ToJson(prog)>>)
=============================================================================
