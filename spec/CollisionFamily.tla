-------------------------- MODULE CollisionFamily --------------------------
(* The space of two-geom collision scenes that C04 / C20 are decided on, and the contact PARAMETER
   mixing rules (collision_core.py:contact_params) over integers.

   A case:  geom types (t1 <= t2 in MuJoCo's type order), pose class, margin class, and for each geom
   condim / priority / integer friction / solmix class; or an explicit <pair> with its own parameters.
   Parameter mixing (MuJoCo): higher priority wins everything; equal priority: condim = max,
   friction = elementwise max, margin = max, gap = max, solref/solimp mixed by solmix weights.  *)
EXTENDS Integers, FiniteSets, TLC, Json
CONSTANTS Types, Mode, NCase
VARIABLES c, k
vars == <<c, k>>
Order == [plane |-> 0, hfield |-> 1, sphere |-> 2, capsule |-> 3, ellipsoid |-> 4, cylinder |-> 5, box |-> 6, mesh |-> 7]   \* mesh: a random convex polytope
Poses == {"separated", "margin", "touching", "shallow", "deep", "engulfed"}
\* engulfed: the centre of a sphere lies inside the other geom (the analytic routines then have to choose the nearer face / cap / side)
PoseFor(a, b) == LET p == RandomElement(Poses) IN IF p = "engulfed" /\ ~("sphere" \in {a, b} /\ "plane" \notin {a, b} /\ "hfield" \notin {a, b}) THEN "deep" ELSE p
Max(a, b) == IF a >= b THEN a ELSE b
\* expected contact parameters (condim, friction as integers in tenths)
MixCondim(x) == IF x.explicit THEN x.pair.condim ELSE IF x.g1.priority > x.g2.priority THEN x.g1.condim ELSE IF x.g2.priority > x.g1.priority THEN x.g2.condim ELSE Max(x.g1.condim, x.g2.condim)
MixFriction(x) == IF x.explicit THEN x.pair.friction ELSE IF x.g1.priority > x.g2.priority THEN x.g1.friction ELSE IF x.g2.priority > x.g1.priority THEN x.g2.friction ELSE Max(x.g1.friction, x.g2.friction)
MixMargin(x) == IF x.explicit THEN x.pair.margin ELSE Max(x.g1.margin, x.g2.margin)           \* thousandths
\* whether the scene must produce at least one contact
ExpectContact(x) == CASE x.pose = "separated" -> FALSE
                      [] x.pose = "margin" -> MixMargin(x) >= 4                        \* surfaces 3 mm apart
                      [] OTHER -> TRUE
Geom(u) == [condim |-> RandomElement({1, 3, 4, 6}), priority |-> RandomElement({0, 0, 1}), friction |-> RandomElement({3, 7, 12}), margin |-> RandomElement({0, 0, 5, 8}),
            solmix |-> RandomElement({1, 3})]
RandCase(u) ==
  LET a == RandomElement(Types)  b == RandomElement(Types \ {"plane", "hfield"}) IN   \* planes and height fields are static: never the moving geom
  [t1 |-> IF Order[a] <= Order[b] THEN a ELSE b, t2 |-> IF Order[a] <= Order[b] THEN b ELSE a, pose |-> PoseFor(a, b), g1 |-> Geom(1), g2 |-> Geom(2),
   explicit |-> RandomElement({FALSE, FALSE, FALSE, TRUE}), pair |-> [condim |-> RandomElement({1, 3, 4}), friction |-> RandomElement({5, 9}), margin |-> RandomElement({0, 6})]]
\* Mode "enum": every type pair x every pose class once, with plain parameters (the replay draws several geometries for each): what a sample may miss
G0 == [condim |-> 3, priority |-> 0, friction |-> 7, margin |-> 0, solmix |-> 1]
EnumCases == {[t1 |-> a, t2 |-> b, pose |-> p, g1 |-> G0, g2 |-> G0, explicit |-> FALSE, pair |-> [condim |-> 3, friction |-> 5, margin |-> 0]] :
                a \in Types, b \in Types \ {"plane", "hfield"}, p \in Poses} 
EnumOK(x) == Order[x.t1] <= Order[x.t2] /\ (x.pose = "engulfed" => ("sphere" \in {x.t1, x.t2} /\ "plane" \notin {x.t1, x.t2} /\ "hfield" \notin {x.t1, x.t2}))
Init == IF Mode = "enum" THEN c \in {x \in EnumCases : EnumOK(x)} /\ k = 1 ELSE c = RandCase(0) /\ k = 1
Next == Mode # "enum" /\ k < NCase /\ c' = RandCase(k) /\ k' = k + 1
Spec == Init /\ [][Next]_vars
Ordered == Order[c.t1] <= Order[c.t2]
MixSymmetric == LET y == [c EXCEPT !.g1 = c.g2, !.g2 = c.g1] IN MixCondim(c) = MixCondim(y) /\ MixFriction(c) = MixFriction(y) /\ MixMargin(c) = MixMargin(y)
EmitCase == PrintT(<<"EMIT", "case", ToJson([c |-> c, condim |-> MixCondim(c), friction |-> MixFriction(c), margin |-> MixMargin(c), expect |-> ExpectContact(c)])>>)
=============================================================================
