------------------------------- MODULE Compact -------------------------------
(* Compaction of the active degrees of freedom (island.py:update_active_dofs / _compact_dofs): the awake
   trees' dofs are packed, in tree order, into the first ncdof slots of a buffer of capacity nvmax.  *)
EXTENDS Integers, Sequences, FiniteSets, TLC, Json
CONSTANTS MaxTree, Sizes, Mode, NCfg
VARIABLES c, k
vars == <<c, k>>
RECURSIVE Sum(_, _)
Sum(f, n) == IF n = 0 THEN 0 ELSE f[n] + Sum(f, n - 1)
Nv(x) == Sum(x.size, x.ntree)
DofAdr(x, t) == Sum(x.size, t - 1)
Need(x) == Sum([t \in 1..x.ntree |-> IF x.awake[t] THEN x.size[t] ELSE 0], x.ntree)
ActiveDofs(x) == {d \in 0..(Nv(x) - 1) : \E t \in 1..x.ntree : x.awake[t] /\ DofAdr(x, t) <= d /\ d < DofAdr(x, t) + x.size[t]}
Rank(x, d) == Cardinality({e \in ActiveDofs(x) : e < d})
DofCdof(x) == [d \in 0..(Nv(x) - 1) |-> IF d \in ActiveDofs(x) /\ Rank(x, d) < x.nvmax THEN Rank(x, d) ELSE -1]
NCdof(x) == IF Need(x) > x.nvmax THEN x.nvmax ELSE Need(x)
CdofDof(x) == [s \in 0..(NCdof(x) - 1) |-> CHOOSE d \in ActiveDofs(x) : Rank(x, d) = s]
Overflow(x) == Need(x) > x.nvmax
RandCfg(u) == LET n == RandomElement(1..MaxTree)  sz == [t \in 1..n |-> RandomElement(Sizes)]  nv == Sum(sz, n) IN
              [ntree |-> n, size |-> sz, awake |-> [t \in 1..n |-> RandomElement({TRUE, TRUE, FALSE})], nvmax |-> RandomElement(0..nv)]
Init == c = RandCfg(0) /\ k = 1
Next == k < NCfg /\ c' = RandCfg(k) /\ k' = k + 1
Spec == Init /\ [][Next]_vars
------------------------------------------------------------------------
\* C38: the two maps are mutually inverse on the stored slots, frozen dofs map to -1, the bit says exactly "did not fit"
Inverse == /\ \A s \in 0..(NCdof(c) - 1) : DofCdof(c)[CdofDof(c)[s]] = s
           /\ \A d \in 0..(Nv(c) - 1) : DofCdof(c)[d] >= 0 => CdofDof(c)[DofCdof(c)[d]] = d
FrozenUnmapped == \A d \in 0..(Nv(c) - 1) : d \notin ActiveDofs(c) => DofCdof(c)[d] = -1
BitIffOverflow == Overflow(c) <=> (\E d \in ActiveDofs(c) : DofCdof(c)[d] = -1)
OrderPreserving == \A d1, d2 \in ActiveDofs(c) : (d1 < d2 /\ DofCdof(c)[d2] >= 0) => (DofCdof(c)[d1] >= 0 /\ DofCdof(c)[d1] < DofCdof(c)[d2])
EmitCfg == PrintT(<<"EMIT", "cfg", ToJson([c |-> c, ncdof |-> NCdof(c), overflow |-> Overflow(c),
                                            dof_cdof |-> LET m == DofCdof(c) IN [d \in 1..Nv(c) |-> m[d - 1]],
                                            cdof_dof |-> LET m == CdofDof(c) IN [s \in 1..NCdof(c) |-> m[s - 1]]])>>)
=============================================================================
