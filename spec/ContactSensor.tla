---------------------------- MODULE ContactSensor ----------------------------
(* Contact sensors (sensor.py: _contact_match / _check_match, MuJoCo engine_sensor.c: matchContact): which contacts a
   contact sensor reports and with which orientation.

   A sensor names up to two criteria o1, o2, each "none", a geom, a body (the geoms directly on it), a subtree (the geoms on
   the body or any descendant) or - o1 only - a site (contacts whose point lies inside the site's volume).  The MEANING:

     a contact between geoms <<g1, g2>> (normal pointing from g1 to g2) is reported iff every criterion that is given is
     involved in it (one of its two sides belongs to the criterion) and, when both are given, they are met on opposite
     sides; the reported normal points from o1 towards o2:
       both given : + if (g1 in o1 and g2 in o2), - if only the reverse holds, + if both hold (ambiguous)
       only o1    : + iff g1 belongs to o1           (normal points away from o1)
       only o2    : + iff g2 belongs to o2           (normal points towards o2)
       none given : every contact, +

   "belongs to a subtree" is the ancestor relation of the body tree.  The implementations walk up with
   `while body > id: body = parent[body]`, which is that relation only because parents are numbered before children;
   Mode "mc" checks exactly this over all forests (LoopIsAncestor) together with algebraic laws of the meaning
   (swapping the criteria flips the sign unless ambiguous; a criterion that is dropped only adds contacts).

   Mode "scene": the body tree, geoms and contacts of the replay scene are constants; TLC enumerates every sensor
   (criterion pair) and emits the set of <<contact, sign>> it must report.  The replay builds exactly these sensors and
   compares found-counts and signed normals with this set and with MuJoCo (three-way).  *)
EXTENDS Integers, Sequences, FiniteSets, TLC, Json

CONSTANTS Mode,
          NBodyMax,      \* mc: forests with 1..NBodyMax moving bodies (body 0 is the world)
          SParent,       \* scene: parent of body i (1-based sequence; 0 = world)
          SGeomBody,     \* scene: body of geom g (sequence indexed 1..ngeom, geom ids are index-1)
          SContacts,     \* scene: sequence of <<g1, g2>> (geom ids, 0-based) in no particular order
          SInSite        \* scene: per site s (1-based), the set of contact indices (1-based) whose point lies inside it

\* ------------------------------------------------------------------ body tree
Parent(par, b) == IF b = 0 THEN 0 ELSE par[b]
RECURSIVE Anc(_, _, _)
Anc(par, b, a) == IF b = a THEN TRUE ELSE IF b = 0 THEN FALSE ELSE Anc(par, Parent(par, b), a)   \* a is b or an ancestor of b
\* the implementations' loop
RECURSIVE Walk(_, _, _)
Walk(par, b, id) == IF b > id THEN Walk(par, Parent(par, b), id) ELSE b
LoopMatch(par, b, id) == Walk(par, b, id) = id

\* ------------------------------------------------------------------ criteria
\* a criterion is a record [k |-> kind, id |-> n]; kinds: "none", "geom", "body", "subtree", "site"
None == [k |-> "none", id |-> 0]
Belongs(par, gbody, g, c, insite) ==
  CASE c.k = "none" -> TRUE
    [] c.k = "site" -> TRUE                         \* the site test is on the contact point, not on a side
    [] c.k = "geom" -> g = c.id
    [] c.k = "body" -> gbody[g + 1] = c.id
    [] c.k = "subtree" -> Anc(par, gbody[g + 1], c.id)

\* 0: not reported; 1 / -1: reported with the contact normal / the flipped normal
Report(par, gbody, con, insite, o1, o2) ==
  LET g1 == con[1]
      g2 == con[2]
      m11 == Belongs(par, gbody, g1, o1, insite)
      m12 == Belongs(par, gbody, g2, o1, insite)
      m21 == Belongs(par, gbody, g1, o2, insite)
      m22 == Belongs(par, gbody, g2, o2, insite)
  IN IF o1.k = "none" /\ o2.k = "none" THEN 1
     ELSE IF o1.k = "site" /\ ~insite THEN 0
     ELSE IF ~(m11 \/ m12) \/ ~(m21 \/ m22) THEN 0
     ELSE IF o1.k # "none" /\ o2.k # "none" THEN
            (IF m11 /\ m22 THEN 1 ELSE IF m12 /\ m21 THEN -1 ELSE 0)
     ELSE IF o1.k # "none" THEN (IF m11 THEN 1 ELSE -1)
     ELSE (IF m22 THEN 1 ELSE -1)

\* ------------------------------------------------------------------ mode "mc": all small forests
Forests(n) == {p \in [1..n -> 0..(n - 1)] : \A i \in 1..n : p[i] < i}
VARIABLES par, nb, done
vars == <<par, nb, done>>

McInit == /\ nb \in 1..NBodyMax
          /\ par \in Forests(nb)
          /\ done = FALSE
ScInit == /\ nb = Len(SParent)
          /\ par = SParent
          /\ done = FALSE
Init == IF Mode = "mc" THEN McInit ELSE ScInit
Next == ~done /\ done' = TRUE /\ UNCHANGED <<par, nb>>
Spec == Init /\ [][Next]_vars

\* the loop is the ancestor relation (needs parent < child, which Forests guarantees and the MJCF compiler provides)
LoopIsAncestor == \A b \in 0..nb, a \in 0..nb : LoopMatch(par, b, a) = Anc(par, b, a)

\* laws of the meaning, over one geom per body (geom g on body g) plus a world geom, every contact pair and criterion pair
McGeomBody == [g \in 1..(nb + 1) |-> g - 1]
McCrit == {None} \cup {[k |-> kk, id |-> i] : kk \in {"geom", "body", "subtree"}, i \in 0..nb}
McCons == {<<a, b>> : a \in 0..nb, b \in 0..nb}
SwapFlips == Mode = "mc" =>
  \A con \in McCons, o1 \in McCrit, o2 \in McCrit :
    LET r == Report(par, McGeomBody, con, TRUE, o1, o2)
        s == Report(par, McGeomBody, con, TRUE, o2, o1)
        amb == /\ Belongs(par, McGeomBody, con[1], o1, TRUE) /\ Belongs(par, McGeomBody, con[2], o2, TRUE)
               /\ Belongs(par, McGeomBody, con[2], o1, TRUE) /\ Belongs(par, McGeomBody, con[1], o2, TRUE)
    IN (o1.k # "none" /\ o2.k # "none") => ((r = 0) = (s = 0)) /\ (r # 0 /\ ~amb => s = -r)
\* reversing the contact (same two geoms listed the other way, normal flipped) reports the same physical direction
ReverseConsistent == Mode = "mc" =>
  \A con \in McCons, o1 \in McCrit, o2 \in McCrit :
    LET r == Report(par, McGeomBody, con, TRUE, o1, o2)
        q == Report(par, McGeomBody, <<con[2], con[1]>>, TRUE, o1, o2)
        amb == /\ Belongs(par, McGeomBody, con[1], o1, TRUE) /\ Belongs(par, McGeomBody, con[2], o2, TRUE)
               /\ Belongs(par, McGeomBody, con[2], o1, TRUE) /\ Belongs(par, McGeomBody, con[1], o2, TRUE)
        one == /\ (o1.k = "none") # (o2.k = "none")      \* exactly one criterion, and both sides belong to it
               /\ \A g \in {con[1], con[2]} : Belongs(par, McGeomBody, g, IF o1.k = "none" THEN o2 ELSE o1, TRUE)
    IN (o1.k # "none" \/ o2.k # "none") => ((r = 0) = (q = 0)) /\ (r # 0 /\ ~amb /\ ~one => q = -r)
\* dropping a criterion never loses a contact
DropAdds == Mode = "mc" =>
  \A con \in McCons, o1 \in McCrit, o2 \in McCrit :
    Report(par, McGeomBody, con, TRUE, o1, o2) # 0 => Report(par, McGeomBody, con, TRUE, o1, None) # 0 /\ Report(par, McGeomBody, con, TRUE, None, o2) # 0

\* ------------------------------------------------------------------ mode "scene": expected reports of every sensor
NGeom == Len(SGeomBody)
ScCrit2 == {None} \cup {[k |-> "geom", id |-> g] : g \in 0..(NGeom - 1)}
           \cup {[k |-> kk, id |-> b] : kk \in {"body", "subtree"}, b \in 0..Len(SParent)}
ScCrit1 == ScCrit2 \cup {[k |-> "site", id |-> s] : s \in 1..Len(SInSite)}
InSite(o1, i) == IF o1.k = "site" THEN i \in SInSite[o1.id] ELSE TRUE
Expected(o1, o2) == [i \in 1..Len(SContacts) |-> Report(SParent, SGeomBody, SContacts[i], InSite(o1, i), o1, o2)]
EmitScene == Mode = "scene" /\ done =>
  \A o1 \in ScCrit1, o2 \in ScCrit2 : PrintT(<<"EMIT", "sensor", ToJson([o1 |-> o1, o2 |-> o2, report |-> Expected(o1, o2)])>>)
=============================================================================
