---- MODULE MC_History ----
EXTENDS History
McVals == {1, 2, 5}
McTMin == -2
====
