---- MODULE MC_ModelFamily ----
EXTENDS ModelFamily
McJoints == {"weld", "free", "ball", "hinge", "slidehinge"}
McGeoms == {"sphere"}
McOne == {"x"}
McNone == {}
====
