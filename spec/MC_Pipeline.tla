---- MODULE MC_Pipeline ----
EXTENDS Pipeline
McCtrls == {0, 1}
McOps == {"step", "forward", "reset", "keyarray", "keyscalar", "copy", "step12"}
====
