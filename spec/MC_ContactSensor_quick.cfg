CONSTANTS
  Mode = "mc"
  NBodyMax = 3
  SParent <- DParent
  SGeomBody <- DGeomBody
  SContacts <- DContacts
  SInSite <- DInSite
SPECIFICATION Spec
INVARIANT LoopIsAncestor
INVARIANT SwapFlips
INVARIANT ReverseConsistent
INVARIANT DropAdds
CHECK_DEADLOCK FALSE
