---- MODULE MC_Sap ----
EXTENDS Sap
McCoord == 0..2
McCoord3 == 0..3
====
