------------------------------- MODULE Flags -------------------------------
(* Disable / enable flags (types.DisableBit / EnableBit) and the pipeline contribution each one switches.

   The specification records, per flag, WHICH observable quantity it is allowed to change when toggled
   on an otherwise identical model and state (everything else must stay the same); the replay toggles
   one flag at a time on top of a random base subset and checks exactly that against the real code,
   and the whole subset against mj_step with the same flags. *)
EXTENDS Integers, FiniteSets, TLC, Json
CONSTANTS Mode, NCfg
Disable == {"constraint", "equality", "frictionloss", "limit", "contact", "spring", "damper", "gravity", "clampctrl", "warmstart", "filterparent",
            "actuation", "refsafe", "sensor", "eulerdamp"}
Enable == {"energy", "invdiscrete"}
\* quantities of one forward() a toggled flag may change  ("rows:<kind>" = the set of constraint rows of that kind)
MayChange(f) ==
  CASE f = "constraint" -> {"contacts", "rows:equality", "rows:friction", "rows:limit", "rows:contact", "aref", "D", "qacc", "sensordata"}
    [] f = "equality" -> {"rows:equality", "aref", "D", "qacc", "sensordata"}
    [] f = "frictionloss" -> {"rows:friction", "aref", "D", "qacc", "sensordata"}
    [] f = "limit" -> {"rows:limit", "aref", "D", "qacc", "sensordata"}
    [] f = "contact" -> {"rows:contact", "contacts", "aref", "D", "qacc", "sensordata"}
    \* (MuJoCo skips ALL passive forces, incl. gravity compensation and fluid, when both spring and damper are disabled; spring energy is potential energy)
    [] f = "spring" -> {"qfrc_spring", "qfrc_gravcomp", "qfrc_passive", "qacc_smooth", "qacc", "sensordata", "aref", "energy"}
    [] f = "damper" -> {"qfrc_damper", "qfrc_gravcomp", "qfrc_passive", "qacc_smooth", "qacc", "sensordata", "aref"}
    [] f = "gravity" -> {"qfrc_bias", "qfrc_gravcomp", "qfrc_passive", "qacc_smooth", "qacc", "sensordata", "energy", "aref"}
    [] f = "clampctrl" -> {"actuator_force", "qfrc_actuator", "act_dot", "qacc_smooth", "qacc", "sensordata", "aref"}
    [] f = "warmstart" -> {"qacc", "sensordata"}          \* a different starting point: same optimum up to the solver tolerance
    [] f = "filterparent" -> {"contacts", "rows:contact", "aref", "D", "qacc", "sensordata"}
    [] f = "actuation" -> {"actuator_force", "qfrc_actuator", "act_dot", "qacc_smooth", "qacc", "sensordata", "aref"}
    [] f = "refsafe" -> {"aref", "D", "qacc", "sensordata"}
    [] f = "sensor" -> {"sensordata"}
    [] f = "eulerdamp" -> {}                        \* only the integrator
    [] f = "energy" -> {"energy", "sensordata"}
    [] f = "invdiscrete" -> {}
VARIABLES c, k
vars == <<c, k>>
RandSub(S) == LET RECURSIVE Go(_) Go(T) == IF T = {} THEN {} ELSE LET e == CHOOSE z \in T : TRUE IN (IF RandomElement({TRUE, FALSE, FALSE}) THEN {e} ELSE {}) \cup Go(T \ {e}) IN Go(S)
\* the integrator is part of the configuration: eulerdamp only acts under Euler, and the implicit integrators add velocity derivatives of exactly the
\* force terms that spring / damper / actuation switch (a flag must remove its term from the derivative as well)
Integrators == {"Euler", "implicit", "implicitfast", "RK4"}
RandCfg(u) == [dis |-> RandSub(Disable), en |-> RandSub(Enable), toggle |-> RandomElement(Disable \cup Enable),
               integrator |-> IF RandomElement(1..2) = 1 THEN "Euler" ELSE RandomElement(Integrators)]
Init == c = RandCfg(0) /\ k = 1
Next == k < NCfg /\ c' = RandCfg(k) /\ k' = k + 1
Spec == Init /\ [][Next]_vars
TypeOK == c.dis \subseteq Disable /\ c.en \subseteq Enable /\ c.integrator \in Integrators
EmitCfg == PrintT(<<"EMIT", "cfg", ToJson([dis |-> c.dis, en |-> c.en, toggle |-> c.toggle, integrator |-> c.integrator, maychange |-> MayChange(c.toggle)])>>)
=============================================================================
