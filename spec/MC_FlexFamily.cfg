CONSTANTS
  Mode = "mc"
  NCfg = 1
SPECIFICATION Spec
INVARIANT TypeOK
INVARIANT AcceptedCompiles
INVARIANT FeedsKnownStages
INVARIANT ElasticXorEquality
CHECK_DEADLOCK FALSE
