-------------------------------- MODULE Sap --------------------------------
(* Sweep-and-prune broadphase (collision_driver.py: _sap_project, sort, collision_core.py:sap_range /
   sap_binary_search, array_scan, _sap_broadphase work-package decoding) on integer intervals.

   Every world has NGeom geoms with a projection interval [lo, hi] on the sweep axis.  The geoms of a
   world are sorted by lo (ties in any order - TLC explores every valid order), range[k] is computed
   by the code's binary search, the ranges of ALL worlds are concatenated and scanned, and every work
   package p in 0..total-1 is decoded into a (world, geom, geom) triple exactly as the kernel does. *)
EXTENDS Integers, Sequences, FiniteSets, TLC, Json

CONSTANTS NWorld, NGeom, Coord, Mode, NCfg
Worlds == 0..(NWorld - 1)
Idx == 0..(NGeom - 1)
Intervals == {iv \in Coord \X Coord : iv[1] <= iv[2]}

VARIABLES iv, ord, k
vars == <<iv, ord, k>>     \* iv[w][g] = <<lo, hi>> ;  ord[w] = sorted position -> geom

Lo(w, g) == iv[w][g][1]
Hi(w, g) == iv[w][g][2]
SortedOK(w, o) == /\ \A a, b \in Idx : a # b => o[a] # o[b]
                  /\ \A a \in 0..(NGeom - 2) : Lo(w, o[a]) <= Lo(w, o[a + 1])
Orders(w) == {o \in [Idx -> Idx] : SortedOK(w, o)}

\* sap_binary_search over the sorted lower bounds: first position in [lower, upper) whose value > v, else upper
RECURSIVE BinSearch(_, _, _, _)
BinSearch(vals, v, lower, upper) ==
  IF lower < upper THEN LET mid == (lower + upper) \div 2 IN
       IF vals[mid] > v THEN BinSearch(vals, v, lower, mid) ELSE BinSearch(vals, v, mid + 1, upper)
  ELSE upper
Range(w, s) ==
  LET lows == [p \in Idx |-> Lo(w, ord[w][p])]
      lim0 == BinSearch(lows, Hi(w, ord[w][s]), s + 1, NGeom)
      lim == IF lim0 > NGeom - 1 THEN NGeom - 1 ELSE lim0
  IN lim - s

\* inclusive scan over the concatenation world 0 .. world NWorld-1
Flat == [i \in 0..(NWorld * NGeom - 1) |-> Range(i \div NGeom, i % NGeom)]
RECURSIVE Cum(_)
Cum(i) == IF i < 0 THEN 0 ELSE Flat[i] + Cum(i - 1)
CumSeq == [i \in 0..(NWorld * NGeom - 1) |-> Cum(i)]
Total == Cum(NWorld * NGeom - 1)

\* _sap_broadphase decoding of work package p
Decode(p) ==
  LET i == BinSearch(CumSeq, p, 0, NWorld * NGeom)
      j0 == i + p + 1 - (IF i > 0 THEN CumSeq[i - 1] ELSE 0)
      w == i \div NGeom
  IN [w |-> w, i |-> i % NGeom, j |-> j0 % NGeom, jraw |-> j0, iraw |-> i]
Emitted == [p \in 0..(Total - 1) |-> LET d == Decode(p) IN [w |-> d.w, a |-> ord[d.w][d.i], b |-> ord[d.w][d.j]]]

Overlap(w, a, b) == Lo(w, a) <= Hi(w, b) /\ Lo(w, b) <= Hi(w, a)

RandIv(u) == [w \in Worlds |-> [g \in Idx |-> RandomElement(Intervals)]]
Init == /\ iv \in (IF Mode = "all" THEN [Worlds -> [Idx -> Intervals]] ELSE {RandIv(0)})
        /\ ord \in {o \in [Worlds -> [Idx -> Idx]] : \A w \in Worlds : SortedOK(w, o[w])}
        /\ k = 1
Next == /\ Mode = "sim" /\ k < NCfg
        /\ iv' = RandIv(k)
        /\ ord' \in {o \in [Worlds -> [Idx -> Idx]] : \A w \in Worlds : /\ \A a, b \in Idx : a # b => o[w][a] # o[w][b]
                                                                        /\ \A a \in 0..(NGeom - 2) : iv'[w][o[w][a]][1] <= iv'[w][o[w][a + 1]][1]}
        /\ k' = k + 1
Spec == Init /\ [][Next]_vars
------------------------------------------------------------------------
\* C18: every overlapping pair of a world is emitted, for EVERY valid sort order
Superset == \A w \in Worlds : \A a, b \in Idx : (a < b /\ Overlap(w, a, b)) =>
              \E p \in 0..(Total - 1) : Emitted[p].w = w /\ {Emitted[p].a, Emitted[p].b} = {a, b}
\* each pair at most once, never a geom with itself
AtMostOnce == \A p, q \in 0..(Total - 1) : (p # q /\ Emitted[p].w = Emitted[q].w) => {Emitted[p].a, Emitted[p].b} # {Emitted[q].a, Emitted[q].b}
NoSelf == \A p \in 0..(Total - 1) : Emitted[p].a # Emitted[p].b
\* decoded indices stay inside the world they came from (C17): the partner index never wraps into another world
InRange == \A p \in 0..(Total - 1) : LET d == Decode(p) IN d.iraw \in 0..(NWorld * NGeom - 1) /\ d.jraw \div NGeom = d.w /\ d.j > d.i
\* the sweep emits at most one non-overlapping partner per geom (the element the binary search stops at)
Tight == \A w \in Worlds : \A s \in Idx : Range(w, s) <= Cardinality({t \in Idx : t > s /\ Lo(w, ord[w][t]) <= Hi(w, ord[w][s])}) + 1
EmitCfg == PrintT(<<"EMIT", "cfg", ToJson([iv |-> iv, overlapping |-> {<<w, a, b>> \in Worlds \X Idx \X Idx : a < b /\ Overlap(w, a, b)}])>>)
=============================================================================
