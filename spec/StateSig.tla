---------------------------- MODULE StateSig ----------------------------
(* get_state / set_state (support.py) as a state machine over a batch of worlds.

   Components are the bits of mjtState in bit order; Size[i] is the number of scalar
   cells component i contributes (nq, nv, ..., 6*nbody, 3*nmocap, 4*nmocap, ...).
   data[w][i] is the vector of cells of component i in world w, buf[w] the user's state
   array row.  Cells hold small integers; the harness maps them to floats one-for-one.

   Walk is the kernel's loop transcribed (running address `adr`); Offset/StateSize are the
   declarative statement of mj_getState's layout ("concatenation in bit order").  *)
EXTENDS Integers, Sequences, FiniteSets, TLC, Json

CONSTANTS NComp,      \* number of state bits (mjNSTATE)
          Size,       \* <<s0, ..., s_{NComp-1}>> 1-indexed tuple of component sizes
          NWorld,
          Vals,       \* cell values
          SigSpace,   \* signatures the actions may use (valid and invalid)
          BufLen,
          MaxLevel,
          Record,     \* TRUE: keep the behaviour in `hist` (generation runs); FALSE: hist stays empty (exhaustive runs)
          Pick(_)     \* Pick(S) = S for exhaustive search; {RandomElement(S)} for cheap simulation steps

VARIABLES data, buf, op, hist

vars == <<data, buf, op, hist>>
Worlds == 0..(NWorld-1)
Comps == 0..(NComp-1)
Sz(i) == Size[i+1]
Pow2(n) == 2^n
Has(sig, i) == (sig \div Pow2(i)) % 2 = 1
Valid(sig) == sig >= 0 /\ sig < Pow2(NComp)

RECURSIVE SumTo(_, _)
SumTo(sig, i) == IF i = 0 THEN 0 ELSE SumTo(sig, i-1) + (IF Has(sig, i-1) THEN Sz(i-1) ELSE 0)
Offset(sig, i) == SumTo(sig, i)          \* cells contributed by lower set bits
StateSize(sig) == SumTo(sig, NComp)

\* the kernel loop: for i in range(NSTATE): if bit: copy Size[i] cells at adr; adr += Size[i]
RECURSIVE Walk(_, _, _)
Walk(sig, i, adr) ==
  IF i = NComp THEN <<>>
  ELSE IF Has(sig, i) THEN <<[comp |-> i, adr |-> adr, size |-> Sz(i)]>> \o Walk(sig, i+1, adr + Sz(i))
  ELSE Walk(sig, i+1, adr)

\* which (component, index) lives in buffer cell k (0-based) under sig, per the loop
CellAt(sig, k) ==
  LET lay == Walk(sig, 0, 0)
      e == CHOOSE e \in 1..Len(lay) : lay[e].adr <= k /\ k < lay[e].adr + lay[e].size
  IN <<lay[e].comp, k - lay[e].adr>>

\* mask.none: the caller passed active=None (all worlds); otherwise mask.m is the bool array
Active(mask, w) == mask.none \/ mask.m[w+1]
Masks == {[none |-> TRUE, m |-> [k \in 1..NWorld |-> TRUE]]} \cup {[none |-> FALSE, m |-> f] : f \in [1..NWorld -> BOOLEAN]}

\* concatenation of the selected components in bit order (the declarative reading of mj_getState)
RECURSIVE Cat(_, _, _)
Cat(sig, i, dw) == IF i = NComp THEN <<>> ELSE (IF Has(sig, i) THEN dw[i] ELSE <<>>) \o Cat(sig, i+1, dw)

GetOf(d, b, sig, mask) ==
  [w \in Worlds |->
     IF Active(mask, w)
     THEN LET cat == Cat(sig, 0, d[w]) IN [k \in 1..BufLen |-> IF k <= Len(cat) THEN cat[k] ELSE b[w][k]]
     ELSE b[w]]

\* the same through the kernel's address arithmetic, cell by cell (used by CellInv)
GetCell(d, sig, w, k) == LET c == CellAt(sig, k) IN d[w][c[1]][c[2]+1]

SetOf(d, b, sig, mask) ==
  [w \in Worlds |->
     IF Active(mask, w)
     THEN [i \in Comps |-> IF Has(sig, i)
                            THEN [j \in 1..Sz(i) |-> b[w][Offset(sig, i) + j]]
                            ELSE d[w][i]]
     ELSE d[w]]

PickAll(S) == S
PickRand(S) == {RandomElement(S)}

Init ==
  /\ data = [w \in Worlds |-> [i \in Comps |-> [j \in 1..Sz(i) |-> 0]]]
  /\ buf = [w \in Worlds |-> [k \in 1..BufLen |-> 0]]
  /\ op = [kind |-> "init"]
  /\ hist = <<>>

GetState(sig, mask) ==
  /\ op' = [kind |-> "get", sig |-> sig, mask |-> mask, ok |-> Valid(sig)]
  /\ IF Valid(sig) /\ StateSize(sig) <= BufLen
     THEN buf' = GetOf(data, buf, sig, mask) /\ UNCHANGED data
     ELSE UNCHANGED <<data, buf>>

SetState(sig, mask) ==
  /\ op' = [kind |-> "set", sig |-> sig, mask |-> mask, ok |-> Valid(sig)]
  /\ IF Valid(sig) /\ StateSize(sig) <= BufLen
     THEN data' = SetOf(data, buf, sig, mask) /\ UNCHANGED buf
     ELSE UNCHANGED <<data, buf>>

\* the user (or a step) changes one world's data / the user edits the buffer
Touch(w, v) ==
  /\ op' = [kind |-> "touch", w |-> w, v |-> v]
  /\ data' = [data EXCEPT ![w] = [i \in Comps |-> [j \in 1..Sz(i) |-> IF (i + j) % 2 = 0 THEN v ELSE @[i][j]]]]
  /\ UNCHANGED buf

Fill(w, v) ==
  /\ op' = [kind |-> "fill", w |-> w, v |-> v]
  /\ buf' = [buf EXCEPT ![w] = [k \in 1..BufLen |-> IF k % 2 = 1 THEN v ELSE @[k]]]
  /\ UNCHANGED data

Next ==
  /\ TLCGet("level") < MaxLevel
  /\ \/ \E sig \in Pick(SigSpace), m \in Pick(Masks) : GetState(sig, m) \/ SetState(sig, m)
     \/ \E w \in Pick(Worlds), v \in Vals : Touch(w, v) \/ Fill(w, v)
  /\ hist' = IF Record THEN Append(hist, [op |-> op', data |-> data', buf |-> buf']) ELSE hist

Spec == Init /\ [][Next]_vars

------------------------------------------------------------------------
\* Properties

\* layout = concatenation in bit order; the loop's running address equals the declarative offset
LayoutOK(sig) ==
  LET lay == Walk(sig, 0, 0) IN
  /\ \A e \in 1..Len(lay) : lay[e].adr = Offset(sig, lay[e].comp)
  /\ {lay[e].comp : e \in 1..Len(lay)} = {i \in Comps : Has(sig, i)}
  /\ \A e \in 1..Len(lay) : e > 1 => lay[e].adr = lay[e-1].adr + lay[e-1].size /\ lay[e].comp > lay[e-1].comp
  /\ (Len(lay) > 0 => lay[1].adr = 0 /\ lay[Len(lay)].adr + lay[Len(lay)].size = StateSize(sig))
  /\ (Len(lay) = 0 => StateSize(sig) = 0)

\* the loop's cell addressing agrees with the concatenation
CellInv(sig) == \A w \in Worlds : LET cat == Cat(sig, 0, data[w]) IN
                  /\ Len(cat) = StateSize(sig)
                  /\ \A k \in 0..(Len(cat)-1) : GetCell(data, sig, w, k) = cat[k+1]

ValidSigs == {s \in SigSpace : Valid(s) /\ StateSize(s) <= BufLen}

LayoutInv == \A sig \in ValidSigs : LayoutOK(sig)
CellsInv == \A sig \in ValidSigs : CellInv(sig)

\* set_state followed by get_state returns the input (on the written prefix), for active worlds
RoundTripInv ==
  \A sig \in ValidSigs, m \in Masks :
    LET d2 == SetOf(data, buf, sig, m)
        b2 == GetOf(d2, buf, sig, m)
    IN \A w \in Worlds : b2[w] = buf[w]

\* get_state followed by set_state leaves data unchanged
GetSetInv ==
  \A sig \in ValidSigs, m \in Masks :
    SetOf(data, GetOf(data, buf, sig, m), sig, m) = data

\* only worlds selected by the mask are written; unselected bits/components untouched
MaskedUntouched ==
  [][\A w \in Worlds :
       /\ (op'.kind \in {"get", "set"} /\ (~op'.ok \/ ~Active(op'.mask, w))) => (data'[w] = data[w] /\ buf'[w] = buf[w])
       /\ (op'.kind = "set" /\ op'.ok) => \A i \in Comps : ~Has(op'.sig, i) => data'[w][i] = data[w][i]
       /\ (op'.kind = "get" /\ op'.ok) => \A k \in 1..BufLen : k > StateSize(op'.sig) => buf'[w][k] = buf[w][k]
    ]_vars

Rejected == [][(op'.kind \in {"get", "set"} /\ ~op'.ok) => UNCHANGED <<data, buf>>]_vars

------------------------------------------------------------------------
\* emission for spec->code replay
EmitBeh == TLCGet("level") = MaxLevel => PrintT(<<"EMIT", "beh", ToJson(hist)>>)

EmitLayout ==
  \A sig \in ValidSigs :
    PrintT(<<"EMIT", "layout", ToJson([sig |-> sig, size |-> StateSize(sig), lay |-> Walk(sig, 0, 0)])>>)
=============================================================================
