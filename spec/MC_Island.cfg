CONSTANTS
  NTree = 4
  DofsPerTree = 1
  Mode = "all"
  NCfg = 1
SPECIFICATION Spec
INVARIANT ComponentsOK
INVARIANT CountOK
INVARIANT StackBound
INVARIANT MapsOK
