CONSTANTS
  NWorld = 3
  Limit = 2
  Cond = FALSE
  MaxIter = 2
SPECIFICATION Spec
INVARIANT NiterBound
INVARIANT NsolvingCount
INVARIANT ExitCorrect
PROPERTY DoneFrozen
PROPERTY Terminates
