CONSTANTS
  P1 <- McP1
  P2 <- McP2
  Sleep = FALSE
  Pass2 = "sticky"
  CapChoices <- McCaps
  MaxCap = 6
SPECIFICATION Spec
INVARIANT NoSilentDrop
INVARIANT NoBitComplete
INVARIANT NoSpuriousBit
INVARIANT IndexInRange
INVARIANT WorldIsolation
INVARIANT ExpectedOK
