----------------------------- MODULE BlockLayout -----------------------------
(* Layout selection for the factorisation of the joint-space inertia matrix (io.py:m_block_layout,
   smooth.py:_factor_blocks / _solve_blocks dispatch).

   M is block diagonal with one block per kinematic tree.  A block of `size` dofs whose lower triangle
   holds `nnz` stored entries is
        compact     nnz = size                 (all dofs decoupled: reciprocal diagonal, no factor stored)
        triangular  nnz = size(size+1)/2       (every dof coupled with all earlier ones: a serial chain)
        other       anything in between        (branching inside the tree)
   and is handled by   "compact"  if size <= 6 and compact,
                       "scalar"   if size <= 6 and triangular   (size^2 factor entries),
                       "tile"     else if size <= 64            (size^2 factor entries),
                       "sparse"   otherwise                     (LDL in M's own sparsity; no packed factor).  *)
EXTENDS Integers, Sequences, FiniteSets, TLC, Json
CONSTANTS Sizes, MaxBlocks, Mode, NCfg
VARIABLES blocks, k
vars == <<blocks, k>>
ScalarMax == 6
DenseMax == 64
Kinds == {"compact", "tri", "other"}
ValidBlock(b) == /\ b.size \in Sizes
                 /\ (b.kind = "compact" => b.size <= 3)                 \* only slide-only bodies decouple (<= 3 dofs)
                 /\ (b.kind = "other" => b.size >= 3)                   \* branching needs a root and two children
Class(b) == IF b.size <= ScalarMax /\ (b.kind = "compact" \/ b.size = 1) THEN "compact"
            ELSE IF b.size <= ScalarMax /\ b.kind = "tri" THEN "scalar"
            ELSE IF b.size <= DenseMax THEN "tile"
            ELSE "sparse"
Stored(b) == IF Class(b) \in {"scalar", "tile"} THEN b.size * b.size ELSE 0
RECURSIVE Off(_, _)
Off(bs, i) == IF i = 1 THEN 0 ELSE Off(bs, i - 1) + Stored(bs[i - 1])
Total(bs) == Off(bs, Len(bs) + 1)
DofStart(bs, i) == LET RECURSIVE S(_) S(j) == IF j = 1 THEN 0 ELSE S(j - 1) + bs[j - 1].size IN S(i)
\* per dof: packed offset of its block, or the sentinel -2 (compact) / -1 (sparse)
DofAdr(bs) == LET n == DofStart(bs, Len(bs) + 1) IN
  [d \in 0..(n - 1) |-> LET i == CHOOSE j \in 1..Len(bs) : DofStart(bs, j) <= d /\ d < DofStart(bs, j) + bs[j].size IN
                        CASE Class(bs[i]) = "compact" -> -2 [] Class(bs[i]) = "sparse" -> -1 [] OTHER -> Off(bs, i)]
\* how the dofs of a coupled block are spread over its bodies: one hinge each / ball joints (3 per body) / slide+hinge stacked on one body (2 per body)
\* / a free root (6) followed by hinges.  The layout class does not depend on it (Class reads size and kind only); the factor-and-solve routines must not either.
Mixes == {"hinge", "ball", "stacked", "free"}
RandBlock(u) == LET s == RandomElement(Sizes)  kd == RandomElement(Kinds)
                    kd2 == IF kd = "compact" /\ s > 3 THEN "tri" ELSE IF kd = "other" /\ s < 3 THEN "tri" ELSE kd
                    mx == RandomElement(Mixes) IN
                [size |-> s, kind |-> kd2, mix |-> IF kd2 = "compact" \/ s < 3 \/ (mx = "free" /\ s < 8) \/ (kd2 = "other" /\ s < 7) THEN "hinge" ELSE mx]
RandBlocks(u) == [i \in 1..RandomElement(1..MaxBlocks) |-> RandBlock(i)]
Init == blocks = RandBlocks(0) /\ k = 1
Next == k < NCfg /\ blocks' = RandBlocks(k) /\ k' = k + 1
Spec == Init /\ [][Next]_vars
------------------------------------------------------------------------
AllValid == \A i \in 1..Len(blocks) : ValidBlock(blocks[i])
\* every block (hence every dof) is in exactly one class, and the thresholds are exactly 6 and 64
Thresholds == \A i \in 1..Len(blocks) : LET b == blocks[i] IN
  /\ (Class(b) \in {"compact", "scalar"} => b.size <= 6)
  /\ (Class(b) = "tile" => b.size <= 64)
  /\ (Class(b) = "sparse" <=> b.size > 64)
  /\ (b.size = 7 => Class(b) = "tile") /\ (b.size = 64 => Class(b) = "tile") /\ (b.size = 65 => Class(b) = "sparse")
\* packed factor regions are disjoint and inside [0, total)
Disjoint == \A i, j \in 1..Len(blocks) : i < j => Off(blocks, i) + Stored(blocks[i]) <= Off(blocks, j)
InRange == \A i \in 1..Len(blocks) : Off(blocks, i) + Stored(blocks[i]) <= Total(blocks)
EmitCfg == PrintT(<<"EMIT", "cfg", ToJson([blocks |-> blocks, classes |-> [i \in 1..Len(blocks) |-> Class(blocks[i])], dofadr |-> LET a == DofAdr(blocks) IN [d \in 1..Cardinality(DOMAIN a) |-> a[d - 1]],
                                            total |-> Total(blocks)])>>)
=============================================================================
