---------------------------- MODULE ModelFamily ----------------------------
(* The family of models that the replay checks are run on, and the DISCRETE SKELETON that
   io.py:put_model derives from a model (kinematic forest tables used by every tree-traversal kernel
   in smooth.py: level lists `body_tree`, root-to-leaf `body_branches`, tree ids, dof ancestry).

   An abstract model is
     nb            number of bodies (world = 0 is implicit)
     parent[b]     parent body, numbered depth-first as the MJCF compiler does: the parent of b is
                   0 or lies on the root path of b-1 (so abstract ids = MuJoCo ids, and every
                   ordered forest is generated exactly once)
     jn[b]         joint list code of b  (weld = no joint, i.e. rigidly attached to the parent)
     mocap[b]      mocap body (only a jointless child of the world)
     geom[b]       geom type code of the body's collision/inertia geom
     opt           integrator / cone / solver / jacobian
     feats         set of feature tags the concretiser (mbt/family.py) turns into MJCF elements
     qc, vc        class of the state the comparison is made at (qpos0 / random / unnormalised
                   quaternions ; zero / random velocities)

   The derived tables below are what put_model must compute; the harness compares Model.body_tree,
   body_branches, body_branch_start, nbranch, body_rootid, dof_bodyid, dof_parentid, dof_treeid,
   nq, nv, njnt, ntree with them for every emitted configuration, so the tables the traversal
   kernels run on are pinned to this specification, and TLC checks on the whole bounded family
   that the tables have the properties the kernels rely on (see the invariants).  *)
EXTENDS Integers, Sequences, FiniteSets, TLC, Json

CONSTANTS MaxBody,      \* bodies 1..MaxBody
          JointCodes,   \* subset of {"weld","free","ball","hinge","slide","hinge2","slidehinge","ballslide"}
          GeomCodes,    \* e.g. {"sphere","capsule","box","ellipsoid","cylinder"}
          Integrators, Cones, Solvers, Jacobians,
          FeatUniverse, \* set of feature tags; a configuration carries a subset
          MaxFeat,      \* at most this many features per configuration
          QClasses, VClasses,
          NCfg,         \* number of configurations per behaviour (simulation mode)
          Mode          \* "sim" : random configurations ; "all" : every structural configuration (features = {})

VARIABLES cfg, k
vars == <<cfg, k>>

Bodies(nb) == 1..nb

\* ---------------------------------------------------------------- structure
RECURSIVE RootPath(_, _)
RootPath(par, b) == IF b = 0 THEN {} ELSE {b} \cup RootPath(par, par[b])      \* b and its ancestors (world excluded)

ValidForest(nb, par) == \A b \in 1..nb : par[b] = 0 \/ (b > 1 /\ par[b] \in RootPath(par, b - 1))

NqOf(j) == CASE j = "weld" -> 0 [] j = "free" -> 7 [] j = "ball" -> 4 [] j = "hinge" -> 1 [] j = "slide" -> 1
             [] j = "hinge2" -> 2 [] j = "slidehinge" -> 2 [] j = "ballslide" -> 5
NvOf(j) == CASE j = "weld" -> 0 [] j = "free" -> 6 [] j = "ball" -> 3 [] j = "hinge" -> 1 [] j = "slide" -> 1
             [] j = "hinge2" -> 2 [] j = "slidehinge" -> 2 [] j = "ballslide" -> 4
NjOf(j) == CASE j = "weld" -> 0 [] j \in {"free", "ball", "hinge", "slide"} -> 1 [] OTHER -> 2

ValidJoints(nb, par, jn, mc) ==
  /\ \A b \in 1..nb : jn[b] = "free" => par[b] = 0                 \* free joints only at top level
  /\ \A b \in 1..nb : mc[b] => (par[b] = 0 /\ jn[b] = "weld")      \* mocap: jointless child of the world

RECURSIVE SumTo(_, _)
SumTo(f, n) == IF n = 0 THEN 0 ELSE f[n] + SumTo(f, n - 1)

\* ---------------------------------------------------------------- derived tables (what put_model computes)
Depth(par, b) == Cardinality(RootPath(par, b))                         \* world = 0, its children = 1, ...
RECURSIVE RootOf(_, _)
RootOf(par, b) == IF par[b] = 0 THEN b ELSE RootOf(par, par[b])        \* MuJoCo body_rootid
Levels(nb, par) ==                                                     \* Model.body_tree (level 0 = {world})
  LET maxd == IF nb = 0 THEN 0 ELSE CHOOSE d \in 0..nb : (\E b \in 1..nb : Depth(par, b) = d) /\ \A b \in 1..nb : Depth(par, b) <= d
  IN [d \in 0..maxd |-> IF d = 0 THEN {0} ELSE {b \in 1..nb : Depth(par, b) = d}]
Leaves(nb, par) == {b \in 1..nb : \A c \in 1..nb : par[c] # b}
SetToSortedSeq(S) ==
  LET RECURSIVE Go(_)
      Go(T) == IF T = {} THEN <<>> ELSE LET m == CHOOSE x \in T : \A y \in T : x <= y IN <<m>> \o Go(T \ {m})
  IN Go(S)
Branches(nb, par) ==                                                   \* Model.body_branches: one root..leaf path per leaf, leaves ascending
  LET lv == SetToSortedSeq(Leaves(nb, par)) IN [i \in 1..Len(lv) |-> SetToSortedSeq(RootPath(par, lv[i]))]

\* kinematic trees (MuJoCo body_treeid): a tree starts at a body with dofs none of whose ancestors has dofs and contains
\* all its descendants; bodies with no moving ancestor-or-self are static (-1); trees are numbered in body order
RECURSIVE TopMoving(_, _, _)
TopMoving(par, jn, b) ==                       \* topmost ancestor-or-self of b that has dofs, 0 if none
  IF b = 0 THEN 0 ELSE LET up == TopMoving(par, jn, par[b]) IN IF up # 0 THEN up ELSE IF NvOf(jn[b]) > 0 THEN b ELSE 0
TreeRoots(nb, par, jn) == {r \in 1..nb : TopMoving(par, jn, r) = r}
TreeId(nb, par, jn, b) ==
  LET r == TopMoving(par, jn, b) IN
  IF r # 0 THEN Cardinality({x \in TreeRoots(nb, par, jn) : x < r}) ELSE -1

\* dof tables: dofs are numbered body by body
DofAdr(jn, b) == SumTo([x \in 1..(b - 1) |-> NvOf(jn[x])], b - 1)
RECURSIVE LastDofAncestor(_, _, _)
LastDofAncestor(par, jn, b) ==                                         \* last dof of the nearest ancestor-or-self with dofs, -1 if none
  IF b = 0 THEN -1 ELSE IF NvOf(jn[b]) > 0 THEN DofAdr(jn, b) + NvOf(jn[b]) - 1 ELSE LastDofAncestor(par, jn, par[b])
DofBody(nb, jn) == LET nv == SumTo([x \in 1..nb |-> NvOf(jn[x])], nb) IN
  [d \in 0..(nv - 1) |-> CHOOSE b \in 1..nb : DofAdr(jn, b) <= d /\ d < DofAdr(jn, b) + NvOf(jn[b])]
DofParent(nb, par, jn) == LET db == DofBody(nb, jn) IN
  [d \in DOMAIN db |-> IF d > DofAdr(jn, db[d]) THEN d - 1 ELSE LastDofAncestor(par, jn, par[db[d]])]

Derived(c) ==
  [nq |-> SumTo([x \in 1..c.nb |-> NqOf(c.jn[x])], c.nb),
   nv |-> SumTo([x \in 1..c.nb |-> NvOf(c.jn[x])], c.nb),
   njnt |-> SumTo([x \in 1..c.nb |-> NjOf(c.jn[x])], c.nb),
   ntree |-> Cardinality(TreeRoots(c.nb, c.parent, c.jn)),
   nmocap |-> Cardinality({b \in 1..c.nb : c.mocap[b]}),
   rootid |-> [b \in 1..c.nb |-> RootOf(c.parent, b)],
   treeid |-> [b \in 1..c.nb |-> TreeId(c.nb, c.parent, c.jn, b)],
   levels |-> LET L == Levels(c.nb, c.parent) IN [d \in 1..(Cardinality(DOMAIN L)) |-> SetToSortedSeq(L[d - 1])],
   branches |-> Branches(c.nb, c.parent),
   dofbody |-> LET db == DofBody(c.nb, c.jn) IN [d \in 1..Cardinality(DOMAIN db) |-> db[d - 1]],
   dofparent |-> LET dp == DofParent(c.nb, c.parent, c.jn) IN [d \in 1..Cardinality(DOMAIN dp) |-> dp[d - 1]]]

\* ---------------------------------------------------------------- the family
Structures(nb) ==
  {s \in [parent : [1..nb -> 0..(nb - 1)], jn : [1..nb -> JointCodes], mocap : [1..nb -> BOOLEAN]] :
     ValidForest(nb, s.parent) /\ ValidJoints(nb, s.parent, s.jn, s.mocap)}

RandParent(nb) ==   \* built body by body so that no big set is enumerated
  LET RECURSIVE Go(_, _)
      Go(b, par) == IF b > nb THEN par
                    ELSE LET p == IF b = 1 THEN 0 ELSE RandomElement({0} \cup RootPath(par, b - 1)) IN Go(b + 1, [par EXCEPT ![b] = p])
  IN Go(1, [b \in 1..nb |-> 0])
RandSubset(S, maxn) ==
  LET RECURSIVE Go(_, _)
      Go(T, n) == IF n = 0 \/ T = {} THEN {} ELSE LET x == RandomElement(T) IN {x} \cup Go(T \ {x}, n - 1)
  IN Go(S, RandomElement(0..maxn))
RandCfg(u) ==   \* (the unused parameter keeps TLC from evaluating this once at start-up as a constant)
  LET nb == RandomElement(1..MaxBody)
      par == RandParent(nb)
      jn0 == [b \in 1..nb |-> RandomElement(IF par[b] = 0 THEN JointCodes ELSE JointCodes \ {"free"})]
      mc == [b \in 1..nb |-> par[b] = 0 /\ jn0[b] = "weld" /\ RandomElement({TRUE, FALSE})]
  IN [nb |-> nb, parent |-> par, jn |-> jn0, mocap |-> mc,
      geom |-> [b \in 1..nb |-> RandomElement(GeomCodes)],
      integrator |-> RandomElement(Integrators), cone |-> RandomElement(Cones), solver |-> RandomElement(Solvers),
      jacobian |-> RandomElement(Jacobians), feats |-> RandSubset(FeatUniverse, MaxFeat),
      qc |-> RandomElement(QClasses), vc |-> RandomElement(VClasses)]

AllCfgs(u) ==
  UNION {{[nb |-> nb, parent |-> s.parent, jn |-> s.jn, mocap |-> s.mocap, geom |-> [b \in 1..nb |-> CHOOSE g \in GeomCodes : TRUE],
           integrator |-> CHOOSE x \in Integrators : TRUE, cone |-> CHOOSE x \in Cones : TRUE, solver |-> CHOOSE x \in Solvers : TRUE,
           jacobian |-> CHOOSE x \in Jacobians : TRUE, feats |-> {}, qc |-> CHOOSE x \in QClasses : TRUE, vc |-> CHOOSE x \in VClasses : TRUE]
          : s \in Structures(nb)} : nb \in 1..MaxBody}

Init == /\ cfg \in (IF Mode = "all" THEN AllCfgs(0) ELSE {RandCfg(0)})
        /\ k = 1
Next == /\ Mode = "sim" /\ k < NCfg
        /\ cfg' = RandCfg(k)
        /\ k' = k + 1
Spec == Init /\ [][Next]_vars

------------------------------------------------------------------------
\* Properties of the derived tables that the traversal kernels rely on.
D == Derived(cfg)
WellFormed == ValidForest(cfg.nb, cfg.parent) /\ ValidJoints(cfg.nb, cfg.parent, cfg.jn, cfg.mocap)
\* level lists partition the bodies and every body's parent is exactly one level up (so a level-by-level sweep
\* sees parents before children / children before parents)
LevelsOK ==
  LET L == Levels(cfg.nb, cfg.parent) IN
  /\ UNION {L[d] : d \in DOMAIN L} = 0..cfg.nb
  /\ \A d1, d2 \in DOMAIN L : d1 # d2 => L[d1] \cap L[d2] = {}
  /\ \A d \in DOMAIN L : \A b \in L[d] : b # 0 => cfg.parent[b] \in L[d - 1]
  /\ \A d \in DOMAIN L : L[d] # {}
\* branches: one per leaf; each is a parent chain from a child of the world to the leaf; every body is on one
BranchesOK ==
  LET B == Branches(cfg.nb, cfg.parent) IN
  /\ Len(B) = Cardinality(Leaves(cfg.nb, cfg.parent))
  /\ \A i \in 1..Len(B) : /\ Len(B[i]) >= 1 /\ cfg.parent[B[i][1]] = 0
                          /\ \A j \in 2..Len(B[i]) : cfg.parent[B[i][j]] = B[i][j - 1]
                          /\ B[i][Len(B[i])] \in Leaves(cfg.nb, cfg.parent)
  /\ \A b \in 1..cfg.nb : \E i \in 1..Len(B) : \E j \in 1..Len(B[i]) : B[i][j] = b
\* a body shared by two branches has the same prefix in both (so concurrent branch threads write identical values)
BranchPrefixOK ==
  LET B == Branches(cfg.nb, cfg.parent) IN
  \A i1, i2 \in 1..Len(B) : \A j \in 1..Len(B[i1]) :
     (j <= Len(B[i2]) /\ B[i2][j] = B[i1][j]) => \A jj \in 1..j : B[i1][jj] = B[i2][jj]
\* dof ancestry: parent dof is a smaller index, in the same tree, and belongs to the body or an ancestor body
DofParentOK ==
  LET dp == DofParent(cfg.nb, cfg.parent, cfg.jn)  db == DofBody(cfg.nb, cfg.jn) IN
  \A d \in DOMAIN dp : /\ dp[d] < d /\ dp[d] >= -1
                       /\ dp[d] >= 0 => db[dp[d]] \in RootPath(cfg.parent, db[d])
                       /\ dp[d] = -1 => \A a \in RootPath(cfg.parent, db[d]) \ {db[d]} : NvOf(cfg.jn[a]) = 0
TreesOK ==
  /\ \A b \in 1..cfg.nb : NvOf(cfg.jn[b]) > 0 => TreeId(cfg.nb, cfg.parent, cfg.jn, b) \in 0..(D.ntree - 1)
  /\ \A b \in 1..cfg.nb : (cfg.parent[b] # 0 /\ D.treeid[cfg.parent[b]] >= 0) => D.treeid[b] = D.treeid[cfg.parent[b]]   \* a tree is closed under children
  /\ \A b \in 1..cfg.nb : D.treeid[b] = -1 => NvOf(cfg.jn[b]) = 0
  /\ \A t \in 0..(D.ntree - 1) : \E b \in 1..cfg.nb : D.treeid[b] = t /\ NvOf(cfg.jn[b]) > 0

Emit == PrintT(<<"EMIT", "cfg", ToJson([c |-> cfg, d |-> D])>>)
=============================================================================
