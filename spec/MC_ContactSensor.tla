---- MODULE MC_ContactSensor ----
EXTENDS ContactSensor
DParent == <<0>>
DGeomBody == <<0, 1>>
DContacts == <<<<0, 1>>>>
DInSite == <<{}>>
====
