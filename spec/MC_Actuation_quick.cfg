CONSTANTS
  Ctrls <- McQuickCtrls
  Acts <- McQuickActs
  Dyns <- McDyns
  Gears <- McGears
  Qs <- McQs
  Vs <- McVs
  GainPrms <- McQuickGain
  BiasPrms <- McQuickBias
  CtrlRange <- McCtrlRange
  ActRange <- McActRange
  ForceRange <- McForceRange
  JntRange <- McJntRange
  Mode = "all"
  NCase = 1
SPECIFICATION Spec
INVARIANT Lattice
INVARIANT ForceWithinLimits
INVARIANT QfrcWithinLimits
INVARIANT ActWithinLimits
INVARIANT ClampFlagOnlyCtrl
INVARIANT InRangeUnclamped
INVARIANT StatefulIgnoresCtrl
INVARIANT EarlyUsesNext
