CONSTANTS
  NWorld = 1
  NGeom = 4
  Coord <- McCoord
  Mode = "all"
  NCfg = 1
SPECIFICATION Spec
INVARIANT Superset
INVARIANT AtMostOnce
INVARIANT NoSelf
INVARIANT InRange
INVARIANT Tight
