----------------------------- MODULE Actuation -----------------------------
(* The actuator force law of forward.py:_actuator_force / _qfrc_actuator_gravcomp_limits and the
   activation update support.py:next_act, transcribed over integers so that TLC is an exact oracle.

   Units: every real quantity is an integer number of EIGHTHS (value = n/8), except the pure
   integers gear, q, v, the gain/bias coefficients, and the fixed constants timestep = 1/4 and
   filter time constant tau = 1/2.  All operations below stay on that lattice.

   One actuator on one slide joint (transmission JOINT): length = gear*q, velocity = gear*v,
   moment = gear, qfrc = gear*force.  A case is one combination of the discrete switches
   (dyntype, actearly, ctrllimited, clampctrl flag, actlimited, gaintype, biastype, forcelimited,
   joint actuatorfrclimited) and the integer inputs.  *)
EXTENDS Integers, TLC, Json, FiniteSets

CONSTANTS Ctrls,       \* ctrl values (eighths)
          Acts,        \* act values (eighths)
          Dyns,        \* subset of {"none", "integrator", "filter", "filterexact_is_not_lattice"}
          Gears, Qs, Vs,
          GainPrms,    \* set of <<g0, g1, g2>> (integers; fixed gain = <<g0,0,0>>)
          BiasPrms,    \* set of <<b0, b1, b2>> (integers; none = <<0,0,0>>)
          CtrlRange, ActRange, ForceRange, JntRange,   \* <<lo, hi>> in eighths
          Mode, NCase

VARIABLES c, k
vars == <<c, k>>

Clamp(x, r) == IF x < r[1] THEN r[1] ELSE IF x > r[2] THEN r[2] ELSE x

Cases == [ctrl : Ctrls, act : Acts, dyn : Dyns, early : BOOLEAN, ctrllim : BOOLEAN, noclamp : BOOLEAN, actlim : BOOLEAN,
          gain : GainPrms, bias : BiasPrms, forcelim : BOOLEAN, jntlim : BOOLEAN, gear : Gears, q : Qs, v : Vs]

\* ---- the law (each definition is one block of _actuator_force, in code order)
CtrlEff(x) == IF x.ctrllim /\ ~x.noclamp THEN Clamp(x.ctrl, CtrlRange) ELSE x.ctrl
HasAct(x) == x.dyn # "none"
ActDot(x) == CASE x.dyn = "none" -> 0
               [] x.dyn = "integrator" -> CtrlEff(x)
               [] x.dyn = "filter" -> (CtrlEff(x) - x.act) * 2          \* (ctrl - act) / tau, tau = 1/2
\* support.py:next_act with timestep 1/4 (exact on the lattice because act_dot is a multiple of 4 eighths)
NextAct(x) == LET a == x.act + ActDot(x) \div 4 IN IF x.actlim THEN Clamp(a, ActRange) ELSE a
CtrlAct(x) == IF ~HasAct(x) THEN CtrlEff(x)
              ELSE IF x.early THEN NextAct(x) ELSE x.act
Length(x) == x.gear * x.q
Velocity(x) == x.gear * x.v
Gain(x) == x.gain[1] + x.gain[2] * Length(x) + x.gain[3] * Velocity(x)               \* pure integer
Bias(x) == 8 * (x.bias[1] + x.bias[2] * Length(x) + x.bias[3] * Velocity(x))         \* eighths
Force0(x) == Gain(x) * CtrlAct(x) + Bias(x)
Force(x) == IF x.forcelim THEN Clamp(Force0(x), ForceRange) ELSE Force0(x)
Qfrc0(x) == x.gear * Force(x)
Qfrc(x) == IF x.jntlim THEN Clamp(Qfrc0(x), JntRange) ELSE Qfrc0(x)

Out(x) == [act_dot |-> ActDot(x), force |-> Force(x), qfrc |-> Qfrc(x), next_act |-> IF HasAct(x) THEN NextAct(x) ELSE 0,
           length |-> Length(x), velocity |-> Velocity(x)]

\* lattice side condition: the integrator/filter increment is exact
OnLattice(x) == ActDot(x) % 4 = 0

RandCase(u) == [ctrl |-> RandomElement(Ctrls), act |-> RandomElement(Acts), dyn |-> RandomElement(Dyns), early |-> RandomElement(BOOLEAN),
                ctrllim |-> RandomElement(BOOLEAN), noclamp |-> RandomElement(BOOLEAN), actlim |-> RandomElement(BOOLEAN),
                gain |-> RandomElement(GainPrms), bias |-> RandomElement(BiasPrms), forcelim |-> RandomElement(BOOLEAN),
                jntlim |-> RandomElement(BOOLEAN), gear |-> RandomElement(Gears), q |-> RandomElement(Qs), v |-> RandomElement(Vs)]

Init == /\ c \in (IF Mode = "all" THEN Cases ELSE {RandCase(0)})
        /\ k = 1
Next == /\ Mode = "sim" /\ k < NCase
        /\ c' = RandCase(k)
        /\ k' = k + 1
Spec == Init /\ [][Next]_vars

------------------------------------------------------------------------
\* Properties of the law (C03: "including control clamping, force limits, joint actuator-force limits, actearly ...")
Lattice == OnLattice(c)
ForceWithinLimits == c.forcelim => (Force(c) >= ForceRange[1] /\ Force(c) <= ForceRange[2])
QfrcWithinLimits == c.jntlim => (Qfrc(c) >= JntRange[1] /\ Qfrc(c) <= JntRange[2])
ActWithinLimits == (c.actlim /\ HasAct(c)) => (NextAct(c) >= ActRange[1] /\ NextAct(c) <= ActRange[2])
\* the clampctrl disable flag switches off control clamping and nothing else
ClampFlagOnlyCtrl == LET y == [c EXCEPT !.noclamp = TRUE, !.ctrllim = FALSE] IN c.noclamp => Out(c) = Out(y)
\* clamping is idempotent: an in-range control is used as is
InRangeUnclamped == (c.ctrl >= CtrlRange[1] /\ c.ctrl <= CtrlRange[2]) => CtrlEff(c) = c.ctrl
\* without actearly the force does not depend on the control when the actuator is stateful
StatefulIgnoresCtrl == (HasAct(c) /\ ~c.early) => \A u \in Ctrls : Force([c EXCEPT !.ctrl = u]) = Force(c)
\* with actearly the force uses exactly the activation the integrator will produce
EarlyUsesNext == (HasAct(c) /\ c.early) => CtrlAct(c) = NextAct(c)

Emit == PrintT(<<"EMIT", "case", ToJson([c |-> c, o |-> Out(c)])>>)
=============================================================================
