---------------------------- MODULE SolverTrace ----------------------------
(* Validation of solver executions RECORDED from the real code (one event per call of
   solver._solver_iteration, taken at its return) against Solver.tla's transition relation.

   A trace is  [limit, cond, ev]  where ev[1] is the state before the first iteration and every
   later event carries  done, niter, bit, nsolving  after the iteration,  conv  (the tolerance test
   recomputed by the recorder from the solver context, for this iteration)  and  changed  (world's
   qacc / efc.force / qfrc_constraint differ bitwise from before the iteration).  *)
EXTENDS Solver, Sequences, Json, IOUtils

Traces == JsonDeserialize(IOEnv.TRACE_FILE)

Proj(e) == [done |-> e.done, niter |-> e.niter, bit |-> e.bit, nsolving |-> e.nsolving, ver |-> e.niter]

StepOK(tr, i) ==
  LET a == tr.ev[i]  b == tr.ev[i + 1] IN
  /\ IterRel(Proj(a), Proj(b), b.conv, tr.limit)                       \* the recorded step is a step of the specification
  /\ \A w \in DOMAIN a.done : (a.done[w] => ~b.changed[w])              \* converged worlds are left bitwise alone

ExitOK(tr) ==
  LET n == Len(tr.ev)  last == tr.ev[n] IN
  IF tr.limit # 0 /\ tr.cond
  THEN last.nsolving = 0 /\ \A i \in 1..(n - 1) : tr.ev[i].nsolving > 0     \* while nsolving > 0
  ELSE n - 1 = tr.limit                                                     \* for _ in range(iterations)

FinalOK(tr) ==
  LET last == tr.ev[Len(tr.ev)] IN
  \A w \in DOMAIN last.done :
     /\ last.niter[w] <= tr.limit
     /\ (tr.limit > 0 => last.done[w])
     /\ (tr.limit = 0 => ~last.bit[w])

TraceOK(tr) == /\ \A i \in 1..(Len(tr.ev) - 1) : StepOK(tr, i)
               /\ ExitOK(tr) /\ FinalOK(tr)
Clause(tr) == IF \E i \in 1..(Len(tr.ev) - 1) : ~StepOK(tr, i) THEN "StepOK" ELSE IF ~ExitOK(tr) THEN "ExitOK" ELSE IF ~FinalOK(tr) THEN "FinalOK" ELSE "ok"

Bad == {i \in 1..Len(Traces) : ~TraceOK(Traces[i])}
ReportT == PrintT(<<"EMIT", "bad", ToJson([bad |-> [i \in Bad |-> Clause(Traces[i])], n |-> Len(Traces)])>>)
AllAccepted == Bad = {}
\* vacuity: some world converged strictly before another in the same batch, and some world hit the limit
Mixed == \E i \in 1..Len(Traces) : \E k \in 1..Len(Traces[i].ev) : \E w1, w2 \in DOMAIN Traces[i].ev[k].done : Traces[i].ev[k].done[w1] /\ ~Traces[i].ev[k].done[w2]
HitLimit == \E i \in 1..Len(Traces) : \E w \in DOMAIN Traces[i].ev[Len(Traces[i].ev)].bit : Traces[i].ev[Len(Traces[i].ev)].bit[w]
CoverageT == PrintT(<<"EMIT", "cov", ToJson([mixed |-> Mixed, hitlimit |-> HitLimit])>>)
=============================================================================
