"""./check setup : parse every spec with SANY and warm the Warp kernel cache on representative models."""

from __future__ import annotations

import glob
import os
import sys

from . import tlc


def main() -> int:
  os.makedirs(os.path.join(tlc.VERIF, ".cache", "tlc"), exist_ok=True)
  bad = 0
  for f in sorted(glob.glob(os.path.join(tlc.SPEC, "*.tla"))):
    mod = os.path.basename(f)[:-4]
    try:
      tlc.sany(mod)
    except tlc.TLCError as e:
      print(e)
      bad += 1
  print(f"SANY: {len(glob.glob(os.path.join(tlc.SPEC, '*.tla')))} modules, {bad} failed")
  from . import warm

  warm.main()
  return 1 if bad else 0


if __name__ == "__main__":
  sys.exit(main())
