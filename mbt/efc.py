"""Constraint rows and contacts of an MjData in a canonical, order-independent form (for multiset comparison)."""

from __future__ import annotations

from typing import Any, Dict, List, Tuple

import numpy as np


def dense_J(mjm, mjd) -> np.ndarray:
  import mujoco

  nefc, nv = mjd.nefc, mjm.nv
  J = np.zeros((nefc, nv))
  if nefc == 0 or nv == 0:
    return J
  if mujoco.mj_isSparse(mjm):
    mujoco.mju_sparse2dense(J, mjd.efc_J, mjd.efc_J_rownnz, mjd.efc_J_rowadr, mjd.efc_J_colind)
  else:
    J[:] = np.asarray(mjd.efc_J).ravel()[: nefc * nv].reshape(nefc, nv)
  return J


def contacts(mjd) -> List[Dict[str, Any]]:
  c = mjd.contact
  out = []
  for i in range(mjd.ncon):
    out.append({"geom": (int(c.geom[i][0]), int(c.geom[i][1])), "dist": float(c.dist[i]), "pos": np.array(c.pos[i]), "frame": np.array(c.frame[i]),
                "dim": int(c.dim[i]), "friction": np.array(c.friction[i]), "solref": np.array(c.solref[i]), "solreffriction": np.array(c.solreffriction[i]),
                "solimp": np.array(c.solimp[i]), "includemargin": float(c.includemargin[i]), "efc_address": int(c.efc_address[i]), "i": i})
  return out


def match_contacts(a: List[Dict], b: List[Dict]) -> Tuple[List[Tuple[int, int]], List[str]]:
  """Pairs contacts of a with contacts of b: same geom pair, nearest position.  Returns (pairs of indices, problems)."""
  problems = []
  pairs = []
  ga, gb = {}, {}
  for x in a:
    ga.setdefault(x["geom"], []).append(x)
  for x in b:
    gb.setdefault(x["geom"], []).append(x)
  for g in sorted(set(ga) | set(gb)):
    la, lb = ga.get(g, []), gb.get(g, [])
    if len(la) != len(lb):
      problems.append(f"geom pair {g}: {len(la)} vs {len(lb)} contacts")
      continue
    used = set()
    for x in la:
      best, bd = None, 1e30
      for y in lb:
        if y["i"] in used:
          continue
        dd = float(np.linalg.norm(x["pos"] - y["pos"]))
        if dd < bd:
          best, bd = y, dd
      used.add(best["i"])
      pairs.append((x["i"], best["i"]))
  return pairs, problems


def rows(mjm, mjd) -> Dict[str, np.ndarray]:
  n = mjd.nefc
  return {"type": np.array(mjd.efc_type[:n]), "id": np.array(mjd.efc_id[:n]), "J": dense_J(mjm, mjd), "pos": np.array(mjd.efc_pos[:n]),
          "margin": np.array(mjd.efc_margin[:n]), "D": np.array(mjd.efc_D[:n]), "aref": np.array(mjd.efc_aref[:n]),
          "frictionloss": np.array(mjd.efc_frictionloss[:n]), "vel": np.array(mjd.efc_vel[:n]), "force": np.array(mjd.efc_force[:n]),
          "state": np.array(mjd.efc_state[:n])}


def align(mjm, ref, got) -> Tuple[np.ndarray, np.ndarray, List[str]]:
  """Row permutation so that got rows line up with ref rows: rows keyed by (type, object, sub-row).  Contact rows use the matched contact.
  Returns (index array into ref rows, index array into got rows, problems)."""
  import mujoco

  problems = []
  rr, rg = rows(mjm, ref), rows(mjm, got)
  cpairs, cprob = match_contacts(contacts(ref), contacts(got))
  problems += cprob
  g2r = {gi: ri for ri, gi in cpairs}
  CONTACT = (int(mujoco.mjtConstraint.mjCNSTR_CONTACT_FRICTIONLESS), int(mujoco.mjtConstraint.mjCNSTR_CONTACT_PYRAMIDAL), int(mujoco.mjtConstraint.mjCNSTR_CONTACT_ELLIPTIC))

  def keys(r, remap):
    seen = {}
    ks = []
    for t, i in zip(r["type"], r["id"]):
      t, i = int(t), int(i)
      if t in CONTACT and remap is not None:
        i = remap.get(i, -1000 - i)
      k = seen.get((t, i), 0)
      seen[(t, i)] = k + 1
      ks.append((t, i, k))
    return ks

  kr, kg = keys(rr, None), keys(rg, g2r)
  pos_r = {k: n for n, k in enumerate(kr)}
  ir, ig = [], []
  for n, k in enumerate(kg):
    if k in pos_r:
      ir.append(pos_r[k])
      ig.append(n)
    elif k[0] == int(mujoco.mjtConstraint.mjCNSTR_EQUALITY) and (rg["J"][n].size == 0 or np.abs(rg["J"][n]).max() < 1e-6):  # zero up to float32 noise (two points of one rigid body: 2e-8)
      problems.append(f"zero_jacobian_equality row {k} only in MJWarp")
    elif k[0] in (int(mujoco.mjtConstraint.mjCNSTR_LIMIT_TENDON), int(mujoco.mjtConstraint.mjCNSTR_FRICTION_TENDON)) and (rg["J"][n].size == 0 or np.abs(rg["J"][n]).max() < 1e-6):
      problems.append(f"zero_jacobian_tendon row {k} only in MJWarp")  # a tendon that no dof moves: same phenomenon as the equality rows above
    else:
      problems.append(f"row {k} only in MJWarp")
  missing = set(kr) - set(kg)
  for k in sorted(missing)[:5]:
    problems.append(f"row {k} only in MuJoCo")
  return np.array(ir, dtype=int), np.array(ig, dtype=int), problems
