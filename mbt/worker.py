"""Worker process for core.pmap: reads pickled (module, function, item) from stdin, writes pickled results to stdout.

A crash of the interpreter (SIGSEGV, abort) while an item is being processed is observed by the
parent as EOF on the pipe and reported for exactly that item.
"""

import importlib
import os
import pickle
import struct
import sys
import traceback


def main():
  out = os.fdopen(os.dup(1), "wb")
  # anything the libraries print goes to stderr so that the result pipe stays clean
  os.dup2(2, 1)
  inp = sys.stdin.buffer
  import faulthandler

  faulthandler.enable(file=sys.stderr)  # a fatal signal leaves the Python stack in the tail the parent keeps
  import warp as wp

  wp.config.log_level = wp.LOG_WARNING
  while True:
    hdr = inp.read(4)
    if len(hdr) < 4:
      return
    (n,) = struct.unpack("<I", hdr)
    modname, fname, item = pickle.loads(inp.read(n))
    try:
      mod = importlib.import_module(modname)
      res = ("ok", getattr(mod, fname)(item))
    except Exception:
      res = ("exc", traceback.format_exc())
    b = pickle.dumps(res)
    out.write(struct.pack("<I", len(b)) + b)
    out.flush()


if __name__ == "__main__":
  main()
