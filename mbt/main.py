"""Entry point: ./check C16 --tier quick"""

from __future__ import annotations

import argparse
import importlib
import json
import os
import sys
import traceback

from . import core, tlc


def main() -> int:
  ap = argparse.ArgumentParser()
  ap.add_argument("prop")
  ap.add_argument("--tier", default=os.environ.get("VERIF_TIER", "quick"), choices=["quick", "thorough"])
  ap.add_argument("--replay", default=None)
  a = ap.parse_args()
  seed = int(os.environ.get("VERIF_SEED", "20260921"))
  import warp as wp

  wp.config.log_level = wp.LOG_WARNING
  if a.prop == "setup":
    from . import setup

    return setup.main()
  if a.prop == "selftest":
    from . import selftest

    return selftest.main()
  mod = importlib.import_module(f"mbt.props.{a.prop.lower()}")
  ctx = core.Ctx(a.prop, a.tier, seed, getattr(mod, "LEVEL", "model_checking"))
  try:
    if a.replay:
      ctx.replaying = True
      scen = json.load(open(a.replay))
      mod.replay(ctx, scen)
    else:
      mod.run(ctx)
  except tlc.TLCError as e:
    print(f"MACHINERY-FAILURE property={a.prop}: {e}", file=sys.stderr)
    return 2
  except Exception:
    traceback.print_exc()
    print(f"MACHINERY-FAILURE property={a.prop}", file=sys.stderr)
    return 2
  rc = ctx.finish()
  print(f"{a.prop} {a.tier}: evaluations={ctx.evaluations} distinct={len(ctx.distinct)} tlc_states={ctx.states} "
        f"violations={len(ctx.violations)} rc={rc} wall={ctx and round(__import__('time').time()-ctx.t0,1)}s")
  return rc


if __name__ == "__main__":
  sys.exit(main())
