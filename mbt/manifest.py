"""Generate /verif/MANIFEST.json from the META tables of the property drivers."""

from __future__ import annotations

import importlib
import json
import os

from .tlc import VERIF

HOOK_COMMITS: list = []

NOT_BUILT = "check not built yet in this round; see DESIGN.md section 5 for the planned TLA+ model and binding"


def main():
  props = [json.loads(l) for l in open(os.path.join(VERIF, "properties.jsonl"))]
  checks, na = [], []
  for p in props:
    pid = p["id"]
    path = os.path.join(VERIF, "mbt", "props", pid.lower() + ".py")
    meta = None
    if os.path.exists(path):
      mod = importlib.import_module(f"mbt.props.{pid.lower()}")
      meta = getattr(mod, "META", None)
    if meta is None or meta.get("not_applicable"):
      na.append({"property_id": pid, "reason": (meta or {}).get("not_applicable", NOT_BUILT)})
      continue
    checks.append({
      "property_id": pid,
      "quick_cmd": f"./check {pid} --tier quick",
      "thorough_cmd": f"./check {pid} --tier thorough",
      "evidence_file": f"/verif/evidence/{pid}.json",
      "replay_cmd_template": f"./check {pid} --replay {{path}}",
      "engine": "tlc+replay",
      "level_claimed": {"category": mod.LEVEL, "text": meta["text"], "design_ref": meta.get("design_ref", f"DESIGN.md section 5 {pid}")},
      "level_note": meta["note"],
      "technique": meta["technique"],
    })
  man = {
    "version": 1,
    "setup_cmd": "./check setup",
    "hooks": {
      "guard": "MJWARP_VERIF",
      "enable": "no source hooks: the harness interposes on event_scope-wrapped module attributes, warp.launch and cache_kernel from outside; MJWARP_VERIF is read by the harness only",
      "baseline_off_cmd": "cd /repo && /venv/bin/python -m pytest -ra -q -p no:cacheprovider --timeout=900 --continue-on-collection-errors",
      "source_commits": HOOK_COMMITS,
      "add_only": True,
    },
    "engines": [
      {"name": "tlc+replay", "path": "/verif/check", "serves_properties": [c["property_id"] for c in checks],
       "kind_free_text": "TLA+ specs under /verif/spec checked with TLC; TLC-emitted scenarios/behaviours replayed into mujoco_warp (and MuJoCo C) by /verif/mbt; recorded traces validated by TLC against *Trace specs"}
    ],
    "checks": checks,
    "not_applicable": na,
    "notes": "see DESIGN.md; known_findings.json lists fixed and known findings",
  }
  with open(os.path.join(VERIF, "MANIFEST.json"), "w") as f:
    json.dump(man, f, indent=1)
  print(f"MANIFEST: {len(checks)} checks, {len(na)} not_applicable")


if __name__ == "__main__":
  main()
