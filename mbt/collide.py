"""Concretiser and oracles for CollisionFamily.tla cases: two geoms at a prescribed signed distance."""

from __future__ import annotations

from typing import Any, Dict, Tuple

import numpy as np

from . import family

PEN = {"separated": 0.03, "margin": 0.003, "touching": -0.0015, "shallow": -0.012, "deep": -0.04}  # target signed distance


def mesh_asset(name, r):
  """a random convex polytope: 8..14 points on an ellipsoid of semi-axes 60..120 mm (MuJoCo takes the convex hull)"""
  s = r.uniform(0.06, 0.12, size=3)
  n = int(r.integers(8, 15))
  pts = np.array([family._unit(r) for _ in range(n)]) * s
  return f'<mesh name="m{name}" vertex="{family._v(pts.reshape(-1), 6)}"/>'


def hfield_asset(name, r):
  """a random terrain of 4..6 x 4..6 samples, 0.6 x 0.5 m half-extents, up to 0.2 m high"""
  nr, nc = int(r.integers(4, 7)), int(r.integers(4, 7))
  return f'<hfield name="h{name}" nrow="{nr}" ncol="{nc}" size="0.6 0.5 0.2 0.05" elevation="{family._v(r.uniform(0, 1, size=nr * nc), 3)}"/>'


def geom_xml(name, t, g, r, pos, quat, explicit):
  s = r.uniform(0.06, 0.12, size=3)
  a = f' condim="{g["condim"]}" priority="{g["priority"]}" friction="{g["friction"] / 10} 0.01 0.001" margin="{g["margin"] / 1000}" solmix="{g["solmix"]}" solref="{0.01 + 0.004 * g["solmix"]} 1"'
  if t == "mesh":
    return f'<geom name="{name}" type="mesh" mesh="m{name}" pos="{family._v(pos)}" quat="{family._v(quat)}"{a}/>'
  if t == "hfield":
    return f'<geom name="{name}" type="hfield" hfield="h{name}" pos="{family._v(pos)}"{a}/>'
  size = {"plane": "2 2 .1", "sphere": family._v(s[:1]), "capsule": family._v(s[:2]), "cylinder": family._v(s[:2]), "ellipsoid": family._v(s), "box": family._v(s)}[t]
  return f'<geom name="{name}" type="{t}" size="{size}" pos="{family._v(pos)}" quat="{family._v(quat)}"{a}/>'


def build(case: Dict[str, Any], seed: int):
  """Returns (mjm, target signed distance).  geom 'a' is static in the world (a plane always is), geom 'b' hangs on a free body whose position
  along a random direction is found by bisection on MuJoCo's own mj_geomDistance (for plane pairs: along the plane normal)."""
  import mujoco

  c = case["c"]
  r = family.rng_for(c, seed, "collide")
  flat = c["t1"] in ("plane", "hfield")  # static, z up: the free geom is lowered onto it (a height field: over a random point of its inner part)
  qa = np.array([1.0, 0, 0, 0]) if flat else family._unit(r, 4)
  qb = family._unit(r, 4)
  direction = np.array([0, 0, 1.0]) if flat else family._unit(r)
  xy = np.array([r.uniform(-0.3, 0.3), r.uniform(-0.25, 0.25), 0.0]) if c["t1"] == "hfield" else np.zeros(3)
  target = PEN.get(c["pose"], -1.0)
  pair = ""
  if c["explicit"]:
    p = c["pair"]
    pair = f'<contact><pair geom1="a" geom2="b" condim="{p["condim"]}" friction="{p["friction"] / 10} {p["friction"] / 10} 0.02 0.001 0.001" margin="{p["margin"] / 1000}"/></contact>'

  def model(dist_along):
    ga = geom_xml("a", c["t1"], c["g1"], family.rng_for(c, seed, "ga"), np.zeros(3), qa, c["explicit"])
    gb = geom_xml("b", c["t2"], c["g2"], family.rng_for(c, seed, "gb"), np.zeros(3), np.array([1.0, 0, 0, 0]), c["explicit"])
    # MJWarp documents (put_model warning) that these convex pairs get at most one contact: compare them with MuJoCo's single-contact mode
    single = (c["t1"], c["t2"]) in (("capsule", "cylinder"), ("cylinder", "cylinder"), ("cylinder", "box"), ("capsule", "mesh"), ("cylinder", "mesh"))
    flag = '<flag multiccd="disable"/>' if single else ""
    assets = "".join(mesh_asset(nm, family.rng_for(c, seed, "mesh" + nm)) for nm, t in (("a", c["t1"]), ("b", c["t2"])) if t == "mesh")
    assets += hfield_asset("a", family.rng_for(c, seed, "hfield")) if c["t1"] == "hfield" else ""
    assets = f"<asset>{assets}</asset>" if assets else ""
    return (f'<mujoco><option gravity="0 0 0">{flag}</option>{assets}<worldbody>{ga}<body name="B" pos="{family._v(xy + direction * dist_along, 7)}" quat="{family._v(qb, 7)}"><freejoint/>{gb}</body></worldbody>'
            f'{pair}</mujoco>')

  def signed(dist_along):
    mm = mujoco.MjModel.from_xml_string(model(dist_along))
    dd = mujoco.MjData(mm)
    mujoco.mj_kinematics(mm, dd)
    if c["t1"] == "hfield":
      # mj_geomDistance has no height-field case, and mj_collision's height-field distances shift with the margin: penetration depth without margins
      keep, keepp = mm.geom_margin.copy(), mm.pair_margin.copy()
      mm.geom_margin[:] = 0.0
      mm.pair_margin[:] = 0.0
      mujoco.mj_collision(mm, dd)
      sd = float(min((dd.contact.dist[i] for i in range(dd.ncon)), default=1.0))
      mm.geom_margin[:] = keep
      mm.pair_margin[:] = keepp
      return sd, mm
    return mujoco.mj_geomDistance(mm, dd, 0, 1, 1.0, None), mm

  if c["pose"] == "engulfed":
    # no bisection: the free body's origin sits 5..25 mm from the static geom's centre, well inside both geoms' extents (sizes are >= 60 mm)
    s, mm = signed(float(r.uniform(0.005, 0.025)))
    return mm, s, s
  # (a random hull need not contain its frame's origin: against a plane the search also looks below it, where the distance keeps decreasing)
  lo, hi = (-0.3 if c["t1"] == "plane" else 0.0), 0.8
  lift = 0.0
  if c["t1"] == "hfield":
    lo, hi = 0.0, 1.0
    if target >= 0:  # only penetration can be measured: find where the geom just touches, then lift it by the class's distance
      lift, target = target + 1e-4, -1e-4
  for _ in range(40):
    mid = 0.5 * (lo + hi)
    s, _m = signed(mid)
    if s < target:
      lo = mid
    else:
      hi = mid
  s, mm = signed(0.5 * (lo + hi) + lift)
  return mm, (PEN.get(c["pose"], -1.0) if lift else target), (lift if lift else s)


def contacts_of(mjd):
  out = []
  c = mjd.contact
  for i in range(mjd.ncon):
    out.append({"geom": (int(c.geom[i][0]), int(c.geom[i][1])), "dist": float(c.dist[i]), "pos": np.array(c.pos[i]), "frame": np.array(c.frame[i]).reshape(3, 3),
                "dim": int(c.dim[i]), "friction": np.array(c.friction[i]), "solref": np.array(c.solref[i]), "solimp": np.array(c.solimp[i]),
                "includemargin": float(c.includemargin[i])})
  return out


def mjw_contacts(mjw, m, d, w):
  nacon = int(d.nacon.numpy()[0])
  wid = d.contact.worldid.numpy()[:nacon]
  out = []
  for i in range(nacon):
    if wid[i] != w:
      continue
    out.append({"geom": tuple(int(x) for x in d.contact.geom.numpy()[i]), "dist": float(d.contact.dist.numpy()[i]), "pos": d.contact.pos.numpy()[i].astype(np.float64),
                "frame": d.contact.frame.numpy()[i].astype(np.float64).reshape(3, 3), "dim": int(d.contact.dim.numpy()[i]),
                "friction": d.contact.friction.numpy()[i].astype(np.float64), "solref": d.contact.solref.numpy()[i].astype(np.float64),
                "solimp": d.contact.solimp.numpy()[i].astype(np.float64), "includemargin": float(d.contact.includemargin.numpy()[i])})
  return out


def ill_conditioned(mjm, mjd) -> bool:
  """engulfed poses: True when MuJoCo's own contact normal or distance moves by more than float32 can resolve under a 1e-6 nudge of the free body
  (a sphere centre close to the other geom's axis / centre makes the normal a quotient of two small numbers)"""
  import mujoco

  mujoco.mj_collision(mjm, mjd)
  ref = contacts_of(mjd)
  if not ref:
    return False
  for ax in range(3):
    for sgn in (+1, -1):
      d2 = mujoco.MjData(mjm)
      d2.qpos[:] = mjd.qpos
      d2.qpos[ax] += sgn * 1e-6
      mujoco.mj_kinematics(mjm, d2)
      mujoco.mj_collision(mjm, d2)
      r2 = contacts_of(d2)
      if len(r2) != len(ref) or any(np.abs(a["frame"][0] - b["frame"][0]).max() > 2e-5 or abs(a["dist"] - b["dist"]) > 5e-6 for a, b in zip(ref, r2)):
        return True
  return False
