"""Replay of Pipeline.tla behaviours into the public API, with a term-evaluating reference.

A world's abstract state in the spec is its TERM (origin + inputs of every step since).  The
reference evaluates a term on a FRESH Data (make_data for the fresh origin, MuJoCo's
mj_resetDataKeyframe + put_data for a keyframe origin) with the same batch size, all worlds running
the same term, and the real world must agree with it after every action.
"""

from __future__ import annotations

import json
from typing import Any, Dict, List, Optional, Tuple

import numpy as np

RICH_XML = """
<mujoco>
  <option timestep="0.005"/>
  <size nuserdata="2"/>
  <worldbody>
    <geom name="floor" type="plane" size="5 5 .1"/>
    <body name="box" pos="0 0 0.095">
      <freejoint/>
      <geom name="gbox" type="box" size="0.1 0.1 0.1" mass="1"/>
    </body>
    <body name="arm" pos="1 0 1">
      <joint name="h" type="hinge" axis="0 1 0" damping="0.1"/>
      <geom type="capsule" fromto="0 0 0 0.4 0 0" size="0.03" mass="0.5" contype="0" conaffinity="0"/>
      <body name="fore" pos="0.4 0 0">
        <joint name="h2" type="hinge" axis="0 1 0" limited="true" range="-60 60"/>
        <geom type="capsule" fromto="0 0 0 0.3 0 0" size="0.02" mass="0.3" contype="0" conaffinity="0"/>
      </body>
    </body>
    <body name="slider" pos="-1 0 0.5">
      <joint name="s" type="slide" axis="0 0 1"/>
      <geom type="sphere" size="0.05" mass="0.5" contype="0" conaffinity="0"/>
    </body>
    <body name="pend" pos="0 1 1">
      <joint name="bq" type="ball"/>
      <geom type="capsule" fromto="0 0 0 0.2 0 0" size="0.02" mass="0.2" contype="0" conaffinity="0"/>
    </body>
    <body name="mc" mocap="true" pos="-1 0 1"><geom type="sphere" size="0.02" contype="0" conaffinity="0"/></body>
  </worldbody>
  <equality><connect body1="slider" body2="mc" anchor="0 0 0.5" solref="0.05 1"/></equality>
  <actuator>
    <motor name="m1" joint="h" gear="1" delay="0.01" nsample="3"/>
    <general name="m2" joint="h2" dyntype="filter" dynprm="0.05" gainprm="2"/>
    <general name="m3" joint="s" dyntype="user" actdim="3" dynprm="1" gainprm="1"/>
  </actuator>
  <sensor>
    <jointpos joint="h" delay="0.01" nsample="3"/>
    <jointvel joint="s"/>
    <framepos objtype="body" objname="fore" delay="0.01" nsample="3"/>
    <framelinvel objtype="body" objname="box" delay="0.015" nsample="5" interp="linear"/>
    <ballquat joint="bq" delay="0.005" nsample="2"/>
  </sensor>
  <keyframe>
    <key name="k0" time="0.25" qpos="0 0 0.3 1 0 0 0 0.3 -0.2 0.1 1 0 0 0" qvel="0 0 0 0 0 0 0.5 0 0 0.2 0 0.1" act="0.1 0.2 0.3 -0.4" ctrl="0.5 -0.5 0.25" mpos="-1 0 1.2" mquat="1 0 0 0"/>
    <key name="k1" time="1" qpos="0.2 0 0.095 1 0 0 0 -0.3 0.2 0 0.7071 0.7071 0 0" act="0 0 0.5 0.25" ctrl="0 1 0"/>
  </keyframe>
</mujoco>
"""


class Harness:
  def __init__(self, xml: str, nworld: int, put_kw: Optional[dict] = None, ref_nworld: Optional[int] = None, ref_shift: int = 0):
    import mujoco

    import mujoco_warp as mjw

    self.mj, self.mjw = mujoco, mjw
    overrides = None
    if isinstance(xml, (tuple, list)):  # (xml, {"opt.broadphase": "sap_tile", ...}) : MJWarp-only options
      xml, overrides = xml
    self.mjm = mujoco.MjModel.from_xml_string(xml) if xml.lstrip().startswith("<") else mujoco.MjModel.from_xml_path(xml)
    self.m = mjw.put_model(self.mjm)
    if overrides:
      from mujoco_warp._src import io as _io

      _io.override_model(self.m, dict(overrides))
    self.nworld = nworld
    self.ref_nworld = ref_nworld or nworld  # batch size of the reference evaluation (1 = "simulated alone")
    self.ref_shift = ref_shift  # the reference is read at batch position (w + shift) % ref_nworld
    self.kw = put_kw or {}
    self.d = mjw.make_data(self.mjm, nworld=nworld, **self.kw)
    self.sig = int(mjw.State.INTEGRATION)
    self.size = mujoco.mj_stateSize(self.mjm, self.sig)
    self._ref: Dict[str, Any] = {}
    self.scratch = mujoco.MjData(self.mjm)

  # ---- inputs ----
  def ctrl_value(self, c: int) -> np.ndarray:
    nu = self.mjm.nu
    return np.array([(c * (0.5 + 0.25 * i)) * (-1) ** i for i in range(nu)], dtype=np.float32)

  def set_ctrl(self, d, cs: List[int]):
    import warp as wp

    a = np.stack([self.ctrl_value(c) for c in cs]) if self.mjm.nu else np.zeros((len(cs), 0), np.float32)
    wp.copy(d.ctrl, wp.array(a, dtype=float))

  # ---- observation ----
  def state(self, d) -> np.ndarray:
    import warp as wp

    buf = wp.zeros((d.nworld, self.size), dtype=float)
    self.mjw.get_state(self.m, d, buf, self.sig)
    return buf.numpy()

  def contacts(self, d, w: int) -> List[Tuple]:
    self.mjw.get_data_into(self.scratch, self.mjm, d, world_id=w)
    c = self.scratch.contact
    return sorted((int(c.geom[i][0]), int(c.geom[i][1]), int(c.dim[i]), round(float(c.dist[i]), 6)) for i in range(self.scratch.ncon))

  # ---- reference ----
  def ref(self, term: List[dict], w: int):
    """obs of world w of a fresh Data on which every world ran `term`."""
    key = json.dumps(term, sort_keys=True)
    if key not in self._ref:
      mujoco, mjw = self.mj, self.mjw
      t = list(term)
      if t and t[0]["e"] == "key":
        mjd = mujoco.MjData(self.mjm)
        mujoco.mj_resetDataKeyframe(self.mjm, mjd, t[0]["a"])
        d = mjw.put_data(self.mjm, mjd, nworld=self.ref_nworld, **self.kw)
        t = t[1:]
      else:
        d = mjw.make_data(self.mjm, nworld=self.ref_nworld, **self.kw)
      for ev in t:
        assert ev["e"] == "step"
        self.set_ctrl(d, [ev["a"]] * self.ref_nworld)
        mjw.step(self.m, d)
      self._ref[key] = (self.state(d), d)
    return self._ref[key][0][(w + self.ref_shift) % self.ref_nworld], self._ref[key][1]

  # ---- actions on the real Data ----
  def apply(self, op: dict) -> Optional[str]:
    """Executes op on self.d; returns the exception type name if the call raised."""
    import warp as wp

    mjw, d, m = self.mjw, self.d, self.m
    k = op["kind"]
    W = range(self.nworld)
    try:
      if k == "step":
        self.set_ctrl(d, [op["c"][str(w)] for w in W])
        mjw.step(m, d)
      elif k == "stepn":
        self.set_ctrl(d, [op["c"][str(w)] for w in W])
        for _ in range(int(op["n"])):
          mjw.step(m, d)
      elif k == "step12":
        self.set_ctrl(d, [op["c"][str(w)] for w in W])
        mjw.step1(m, d)
        mjw.step2(m, d)
      elif k == "forward":
        mjw.forward(m, d)
      elif k == "reset":
        if op["none"]:
          mjw.reset_data(m, d)
        else:
          mjw.reset_data(m, d, wp.array(np.array([op["mask"][str(w)] for w in W], dtype=bool), dtype=bool))
      elif k == "keyarray":
        mjw.reset_data_keyframe(m, d, wp.array(np.array([op["keys"][str(w)] for w in W], dtype=np.int32), dtype=int))
      elif k == "keyscalar":
        mjw.reset_data_keyframe(m, d, int(op["k"]))
      elif k == "copy":
        buf = wp.zeros((self.nworld, self.size), dtype=float)
        mjw.get_state(m, d, buf, self.sig)
        b = buf.numpy()
        b[op["b"]] = b[op["a"]]
        act = np.zeros(self.nworld, dtype=bool)
        act[op["b"]] = True
        mjw.set_state(m, d, wp.array(b, dtype=float), self.sig, wp.array(act, dtype=bool))
      else:
        raise AssertionError(k)
    except ValueError as e:
      return type(e).__name__
    return None


STATE_LAYOUT = None


def component_of(h: Harness, idx: int) -> str:
  """Name of the integration-state component holding cell idx (for diagnostics / finding keys)."""
  mjm = h.mjm
  comps = [("time", 1), ("qpos", mjm.nq), ("qvel", mjm.nv), ("act", mjm.na), ("history", mjm.nhistory), ("qacc_warmstart", mjm.nv),
           ("ctrl", mjm.nu), ("qfrc_applied", mjm.nv), ("xfrc_applied", 6 * mjm.nbody), ("eq_active", mjm.neq), ("mocap_pos", 3 * mjm.nmocap),
           ("mocap_quat", 4 * mjm.nmocap), ("userdata", mjm.nuserdata)]
  a = 0
  for n, s in comps:
    if idx < a + s:
      return n
    a += s
  return "?"


def history_span(h: Harness):
  mjm = h.mjm
  a = 1 + mjm.nq + mjm.nv + mjm.na
  return a, a + mjm.nhistory


DERIVED = ["qacc", "qfrc_constraint", "qfrc_smooth", "qfrc_bias", "qfrc_passive", "qfrc_actuator", "actuator_force", "sensordata", "xpos",
           "xquat", "cvel", "qacc_smooth", "act_dot", "energy", "nefc", "ne", "nf", "nl"]


def derived(h: Harness, d) -> Dict[str, np.ndarray]:
  out = {n: getattr(d, n).numpy().copy() for n in DERIVED}
  nefc = out["nefc"]
  for n in ("force", "aref", "pos", "D", "vel"):
    a = getattr(d.efc, n).numpy()
    out["efc." + n] = np.stack([np.where(np.arange(a.shape[1]) < nefc[w], a[w], 0.0) for w in range(h.nworld)])
  return out


def forward_twice_check(ctx, h: Harness, pid_key, where) -> bool:
  """forward(); forward() must reproduce the first call's outputs bit for bit."""
  a = derived(h, h.d)
  h.mjw.forward(h.m, h.d)
  b = derived(h, h.d)
  bad = sorted(n for n in a if not np.array_equal(a[n], b[n], equal_nan=True))
  if bad:
    worst = max(bad, key=lambda n: float(np.nanmax(np.abs(a[n].astype(np.float64) - b[n].astype(np.float64)))))
    # differences that start at the reference acceleration of equality rows and only propagate through the solver
    chain = "efc.aref" in bad and set(bad) <= {"efc.aref", "efc.force", "qacc", "qfrc_constraint"}
    ctx.violation(dict(pid_key, api="forward", what="second forward() gives different outputs", starts_at="efc.aref" if chain else bad[0]),
                  f"fields {bad}; worst {worst} max|diff|={float(np.nanmax(np.abs(a[worst].astype(np.float64) - b[worst].astype(np.float64))))}", where)
    return False
  return True


def replay(ctx, h: Harness, beh: List[dict], pid_key: dict, tol: float = 0.0, check_forward_twice: bool = False) -> bool:
  """Drive h.d along one behaviour (list of [op, term, cbuf] records); report violations. Returns True if clean."""
  import mujoco_warp as mjw

  W = range(h.nworld)
  mjw.reset_data(h.m, h.d)  # behaviours start from a fresh batch; (reset itself is checked when it appears as an op)
  h.d = mjw.make_data(h.mjm, nworld=h.nworld, **h.kw)
  prev_con = [h.contacts(h.d, w) for w in W]
  prev_term = [[] for _ in W]
  ops_so_far = []
  for k, rec in enumerate(beh):
    op = rec["op"]
    ops_so_far.append(op)
    where = {"ops": ops_so_far[:], "model": pid_key.get("model", "rich")}
    raised = h.apply(op)
    kind = op["kind"]
    if kind == "keyscalar":
      if (not op["ok"]) and raised is None:
        ctx.violation(dict(pid_key, api="reset_data_keyframe", what="invalid scalar key accepted"), f"key={op['k']}", where)
      if op["ok"] and raised is not None:
        ctx.violation(dict(pid_key, api="reset_data_keyframe", what="valid scalar key rejected"), f"key={op['k']} {raised}", where)
        return False
    elif raised is not None:
      ctx.violation(dict(pid_key, api=kind, what="unexpected exception"), raised, where)
      return False
    if check_forward_twice and kind == "forward":
      forward_twice_check(ctx, h, pid_key, where)
    st = h.state(h.d)
    terms = [rec["term"][str(w)] for w in W]
    for w in W:
      exp, dref = h.ref(terms[w], w)
      got = st[w]
      if tol == 0.0:
        # bitwise, except that history cells (time stamps computed in float32 by reset kernels vs rounded from MuJoCo's doubles by
        # make_data/put_data) may differ in the last bit
        neq = got != exp
        if neq.any():
          hs, he = history_span(h)
          cells = np.arange(got.size)
          inh = (cells >= hs) & (cells < he)
          neq &= ~(inh & np.isclose(got, exp, rtol=3e-7, atol=1e-9))
        ok = not neq.any()
      else:
        neq = ~np.isclose(got, exp, rtol=tol, atol=tol)
        ok = not neq.any()
      if not ok:
        bad = np.nonzero(neq)[0]
        comps = sorted({component_of(h, int(i)) for i in bad})
        selected = terms[w] != prev_term[w] or kind in ("reset", "keyarray", "keyscalar") and (len(terms[w]) <= 1)
        rel = float(np.nanmax(np.abs(got[bad].astype(np.float64) - exp[bad]) / np.maximum(np.abs(exp[bad].astype(np.float64)), 1e-3)))
        ctx.violation(dict(pid_key, api=_api(kind), what="integration state differs from the reference for this world's term",
                           components=comps, world_changed_by_op=bool(terms[w] != prev_term[w]), magnitude="roundoff" if rel < 2e-6 else "large"),
                      f"step {k} op={json.dumps(op)} world {w}: {len(bad)} cells differ, first {int(bad[0])} got {got[bad[0]]} exp {exp[bad[0]]}; term={json.dumps(terms[w])[:200]}", where)
        if kind == "forward" and comps == ["history"]:
          break  # forward() wrote sensor history; the next step re-converges, so keep checking the rest of the behaviour
        return False
    # contacts
    con = [h.contacts(h.d, w) for w in W]
    for w in W:
      if kind in ("step", "step12", "forward", "stepn"):
        exp_con = None
        _, dref = h.ref(terms[w], w)
        if kind == "forward":
          continue  # reference contacts after a bare forward are covered by C37's own comparison
        exp_con = h.contacts(dref, (w + h.ref_shift) % h.ref_nworld)
        same = con[w] == exp_con if tol == 0.0 else (
          [c[:3] for c in con[w]] == [c[:3] for c in exp_con] and all(abs(a[3] - b[3]) <= 10 * tol for a, b in zip(con[w], exp_con)))
        if not same:
          ctx.violation(dict(pid_key, api=_api(kind), what="contacts differ from the reference"), f"step {k} world {w}: got {con[w][:3]} exp {exp_con[:3]}", where)
          return False
      elif kind in ("reset", "keyarray", "keyscalar"):
        touched = terms[w] != prev_term[w] or (kind == "reset" and (op["none"] or op["mask"][str(w)])) or \
          (kind == "keyarray" and 0 <= op["keys"][str(w)] < h.mjm.nkey) or (kind == "keyscalar" and op["ok"])
        if touched and con[w]:
          ctx.violation(dict(pid_key, api=_api(kind), what="reset world still reports contacts"), f"step {k} world {w}: {con[w][:3]}", where)
          return False
        if not touched and con[w] != prev_con[w]:
          ctx.violation(dict(pid_key, api=_api(kind), what="contacts of an unselected world changed", world0_selected=_sel0(op, h)),
                        f"step {k} world {w}: before {prev_con[w][:3]} after {con[w][:3]}", where)
          return False
      elif kind == "copy":
        if con[w] != prev_con[w]:
          ctx.violation(dict(pid_key, api="set_state", what="contacts changed by set_state"), f"step {k} world {w}", where)
          return False
    prev_con, prev_term = con, terms
  return True


def _sel0(op, h):
  if op["kind"] == "reset":
    return bool(op["none"] or op["mask"]["0"])
  if op["kind"] == "keyarray":
    return bool(0 <= op["keys"]["0"] < h.mjm.nkey)
  return True


def _api(kind):
  return {"stepn": "step", "reset": "reset_data", "keyarray": "reset_data_keyframe", "keyscalar": "reset_data_keyframe", "copy": "set_state", "step12": "step1;step2"}.get(kind, kind)


def gen_cfg(nworld, nkey, ctrls, maxlevel, ops, record=True, pick="PickRand", props=()):
  mod = f"""---- MODULE Gen_Pipeline ----
EXTENDS Pipeline
GCtrls == {{{", ".join(map(str, ctrls))}}}
GOps == {{{", ".join('"%s"' % o for o in ops)}}}
====
"""
  cfg = f"""CONSTANTS
  NWorld = {nworld}
  NKey = {nkey}
  Ctrls <- GCtrls
  MaxLevel = {maxlevel}
  Record = {"TRUE" if record else "FALSE"}
  Pick <- {pick}
  Ops <- GOps
  ResetContacts = "intended"
SPECIFICATION Spec
INVARIANT EmitBeh
INVARIANT NoPhantom
""" + "".join(f"PROPERTY {p}\n" for p in props)
  return {"Gen_Pipeline.tla": mod, "Gen_Pipeline.cfg": cfg}
