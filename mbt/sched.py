"""Schedule controller for Warp's CPU backend: every kernel launch executes its tasks in the order selected by the environment variable
MJW_VERIF_SCHED  ('f' forward = stock behaviour, 'r' reverse, 'a<seed>' affine permutation (a*k+b) mod n with gcd(a, n) = 1).

The generated per-kernel launch loop of Warp (warp._src.codegen.cpu_module_template_forward) is replaced IN THIS PROCESS before any kernel is
compiled; nothing on disk is edited.  Binaries built with this template must not be mixed with stock ones (Warp keys its kernel cache by
source hash, which does not cover the template), so a separate kernel cache directory is used."""

from __future__ import annotations

import os

TEMPLATE = """

extern "C" {{

char* getenv(const char*);
unsigned long long strtoull(const char*, char**, int);

// Python CPU entry points
WP_API void {name}_cpu_forward(
    wp::launch_bounds_t<{launch_ndim}> *dim,
    wp_args_{name} *_wp_args)
{{
    wp::tile_shared_storage_t tile_mem;
#if defined(WP_ENABLE_TILES_IN_STACK_MEMORY)
    wp::shared_tile_storage = &tile_mem;
#endif

    const char* mjw_sched = getenv("MJW_VERIF_SCHED");
    size_t n = dim->size;
    if (!mjw_sched || mjw_sched[0] == 'f' || n < 2)
    {{
        for (size_t task_index = 0; task_index < n; ++task_index)
        {{
            {name}_cpu_kernel_forward(*dim, task_index, _wp_args);
        }}
    }}
    else if (mjw_sched[0] == 'r')
    {{
        for (size_t k = n; k-- > 0;)
        {{
            {name}_cpu_kernel_forward(*dim, k, _wp_args);
        }}
    }}
    else
    {{
        unsigned long long seed = strtoull(mjw_sched + 1, 0, 10);
        unsigned long long a = (seed % n) | 1ULL;
        if (a >= n) a = 1;
        for (;;)
        {{
            unsigned long long x = a, y = n;
            while (y) {{ unsigned long long t = x % y; x = y; y = t; }}
            if (x == 1) break;
            a += 2; if (a >= n) a = 1;
        }}
        unsigned long long b = (seed / 7ULL) % n;
        for (size_t k = 0; k < n; ++k)
        {{
            size_t task_index = (size_t)((a * (unsigned long long)k + b) % n);
            {name}_cpu_kernel_forward(*dim, task_index, _wp_args);
        }}
    }}
}}

}} // extern C

"""


def install(cache_dir: str) -> None:
  """Must run before any kernel module is loaded."""
  import warp as wp
  import warp._src.codegen as cg

  os.makedirs(cache_dir, exist_ok=True)
  wp.config.kernel_cache_dir = cache_dir
  cg.cpu_module_template_forward = TEMPLATE
