"""Check context: TLC runs, scenario accounting, violations, known findings, evidence."""

from __future__ import annotations

import hashlib
import json
import os
import subprocess
import sys
import time
import traceback
from typing import Any, Callable, Dict, Iterable, List, Optional

from . import tlc as _tlc

VERIF = _tlc.VERIF
EVID = os.path.join(VERIF, "evidence")
REPLAY = os.path.join(VERIF, "replay")
FINDINGS = os.path.join(VERIF, "known_findings.json")
REPO = os.environ.get("VERIF_REPO", "/repo")


def jhash(x: Any) -> str:
  return hashlib.sha1(json.dumps(x, sort_keys=True, default=str).encode()).hexdigest()[:12]


def _match(match: Dict[str, Any], key: Dict[str, Any]) -> bool:
  return all(k in key and key[k] == v for k, v in match.items())


class Ctx:
  def __init__(self, pid: str, tier: str, seed: int, level: str):
    self.pid, self.tier, self.seed, self.level = pid, tier, seed, level
    self.t0 = time.time()
    self.states = 0
    self.transitions = 0
    self.tlc_runs: List[Dict[str, Any]] = []
    self.evaluations = 0
    self.distinct: set = set()
    self.samples: List[Any] = []
    self.traces_validated = 0
    self.violations: List[Dict[str, Any]] = []
    self.extra: Dict[str, Any] = {}
    self.assumptions: List[str] = []
    self.rule = ""
    self.skipped: Dict[str, int] = {}
    self.quick = tier == "quick"
    os.makedirs(os.path.join(VERIF, ".cache", "tlc"), exist_ok=True)

  # ---- TLC ----
  def tlc(self, module: str, cfg: Optional[str] = None, **kw) -> _tlc.TLCResult:
    r = _tlc.run(module, cfg, **kw)
    self.states += r.distinct
    self.transitions += r.generated
    rec = {"module": module, "cfg": r.cfg, "distinct": r.distinct, "generated": r.generated, "depth": r.depth,
           "wall_s": round(r.wall_s, 2), "emits": {k: len(v) for k, v in r.emits.items()}}
    if r.coverage:
      rec["action_coverage"] = r.coverage
    if kw.get("simulate"):
      rec["simulate"] = kw["simulate"]
    self.tlc_runs.append(rec)
    return r

  # ---- accounting ----
  def case(self, scenario: Any, nontrivial: bool = True, key: Any = None) -> None:
    """Count one executed scenario; distinct non-trivial ones are tracked by hash."""
    self.evaluations += 1
    if nontrivial:
      self.distinct.add(jhash(key if key is not None else scenario))
    if len(self.samples) < 4:
      self.samples.append(scenario)

  def skip(self, why: str, n: int = 1) -> None:
    self.skipped[why] = self.skipped.get(why, 0) + n

  def violation(self, key: Dict[str, Any], msg: str, scenario: Any = None) -> None:
    """key: structured cause used to match known findings; scenario: replayable description."""
    self.violations.append({"key": key, "msg": msg, "scenario": scenario})

  # ---- finish ----
  def finish(self) -> int:
    known = []
    if os.path.exists(FINDINGS):
      known = [f for f in json.load(open(FINDINGS))["findings"] if f["property"] == self.pid and f.get("kind") == "known"]
    new, listed = [], {}
    for v in self.violations:
      hit = next((f for f in known if _match(f["match"], v["key"])), None)
      if hit is None:
        new.append(v)
      else:
        listed.setdefault(hit["id"], (hit, []))[1].append(v)
    for fid, (f, vs) in sorted(listed.items()):
      print(f"KNOWN-FINDING: property={self.pid} {fid} {f['what']} ({len(vs)} scenario(s) reproduce it)")
    os.makedirs(REPLAY, exist_ok=True)
    seen = set()
    for v in new:
      h = jhash(v["key"])
      if h in seen:
        continue
      seen.add(h)
      path = os.path.join(REPLAY, f"{self.pid}-{h}.json")
      with open(path, "w") as f:
        json.dump({"property": self.pid, "key": v["key"], "msg": v["msg"], "scenario": v["scenario"], "seed": self.seed,
                   "tier": self.tier}, f, indent=1, default=str)
      print(f"VIOLATION property={self.pid} replay={path}")
      print(f"  cause: {json.dumps(v['key'], default=str)}  {v['msg'][:600]}")
    self.write_evidence(len(new), {fid: len(vs) for fid, (f, vs) in listed.items()})
    return 1 if new else 0

  def write_evidence(self, nviol: int, known: Dict[str, int]) -> None:
    cov: Dict[str, Any] = {
      "evaluations": self.evaluations,
      "distinct_nontrivial": len(self.distinct),
      "rule": self.rule,
      "samples": self.samples[:4] if self.samples else [],
      "states": self.states,
      "transitions": self.transitions,
      "traces_validated_against_impl": self.traces_validated,
      "tlc_runs": self.tlc_runs,
      "skipped": self.skipped,
      "known_findings_reproduced": known,
    }
    cov.update(self.extra)
    ev = {
      "property_id": self.pid,
      "tier": self.tier,
      "seed": self.seed,
      "level": self.level,
      "coverage": cov,
      "assumptions": self.assumptions,
      "wall_s": round(time.time() - self.t0, 2),
      "violations": nviol,
    }
    os.makedirs(EVID, exist_ok=True)
    tmp = os.path.join(EVID, f".{self.pid}.json.tmp")
    with open(tmp, "w") as f:
      json.dump(ev, f, indent=1, default=str)
    os.replace(tmp, os.path.join(EVID, f"{self.pid}.json"))


# ---------------------------------------------------------------------------
# process pool for scenario replay (Warp CPU kernels are single threaded)
# ---------------------------------------------------------------------------


def _worker_init(repo: str, envs: Dict[str, str]):
  os.environ.update(envs)
  sys.path.insert(0, repo)
  import warp as wp

  wp.config.quiet = True
  try:
    wp.config.log_level = wp.LOG_WARNING  # type: ignore[attr-defined]
  except Exception:
    pass


def _call(args):
  modname, fname, item = args
  import importlib

  mod = importlib.import_module(modname)
  try:
    return ("ok", getattr(mod, fname)(item))
  except Exception:
    return ("exc", traceback.format_exc())


def pmap(func: Callable, items: Iterable[Any], nproc: int = 14, envs: Optional[Dict[str, str]] = None, chunksize: int = 1) -> List[Any]:
  """Run top-level function func over items in spawned worker processes, order preserved.

  A Python exception in a worker is machinery failure unless func catches it itself.
  """
  import multiprocessing as mp

  items = list(items)
  if not items:
    return []
  nproc = max(1, min(nproc, len(items)))
  args = [(func.__module__, func.__name__, it) for it in items]
  if nproc == 1:
    _worker_init(REPO, envs or {})
    res = [_call(a) for a in args]
  else:
    ctx = mp.get_context("spawn")
    with ctx.Pool(nproc, initializer=_worker_init, initargs=(REPO, envs or {})) as pool:
      res = pool.map(_call, args, chunksize=chunksize)
  out = []
  for (st, val), it in zip(res, items):
    if st == "exc":
      raise RuntimeError(f"worker failed on {json.dumps(it, default=str)[:500]}:\n{val}")
    out.append(val)
  return out


def run_isolated(code: str, timeout: int = 600, envs: Optional[Dict[str, str]] = None) -> subprocess.CompletedProcess:
  """Run python code in a fresh interpreter (process-history / crash experiments)."""
  e = dict(os.environ)
  e.update(envs or {})
  e["PYTHONPATH"] = REPO + os.pathsep + VERIF + os.pathsep + e.get("PYTHONPATH", "")
  return subprocess.run([sys.executable, "-c", code], capture_output=True, text=True, timeout=timeout, env=e, cwd="/")
