"""Check context: TLC runs, scenario accounting, violations, known findings, evidence."""

from __future__ import annotations

import hashlib
import json
import os
import subprocess
import sys
import time
import traceback
from typing import Any, Callable, Dict, Iterable, List, Optional, Tuple

from . import tlc as _tlc

VERIF = _tlc.VERIF
EVID = os.environ.get("VERIF_EVIDENCE_DIR") or os.path.join(VERIF, "evidence")
REPLAY = os.environ.get("VERIF_REPLAY_DIR") or os.path.join(VERIF, "replay")
FINDINGS = os.path.join(VERIF, "known_findings.json")
REPO = os.environ.get("VERIF_REPO", "/repo")


def jhash(x: Any) -> str:
  return hashlib.sha1(json.dumps(x, sort_keys=True, default=str).encode()).hexdigest()[:12]


def _match(match: Dict[str, Any], key: Dict[str, Any]) -> bool:
  return all(k in key and key[k] == v for k, v in match.items())


class Ctx:
  def __init__(self, pid: str, tier: str, seed: int, level: str):
    self.pid, self.tier, self.seed, self.level = pid, tier, seed, level
    self.t0 = time.time()
    self.states = 0
    self.transitions = 0
    self.tlc_runs: List[Dict[str, Any]] = []
    self.evaluations = 0
    self.distinct: set = set()
    self.samples: List[Any] = []
    self.traces_validated = 0
    self.violations: List[Dict[str, Any]] = []
    self.extra: Dict[str, Any] = {}
    self.assumptions: List[str] = []
    self.rule = ""
    self.skipped: Dict[str, int] = {}
    self.quick = tier == "quick"
    os.makedirs(os.path.join(VERIF, ".cache", "tlc"), exist_ok=True)

  # ---- TLC ----
  def tlc(self, module: str, cfg: Optional[str] = None, **kw) -> _tlc.TLCResult:
    r = _tlc.run(module, cfg, **kw)
    self.states += r.distinct
    self.transitions += r.generated
    rec = {"module": module, "cfg": r.cfg, "distinct": r.distinct, "generated": r.generated, "depth": r.depth,
           "wall_s": round(r.wall_s, 2), "emits": {k: len(v) for k, v in r.emits.items()}}
    if r.coverage:
      rec["action_coverage"] = r.coverage
    if kw.get("simulate"):
      rec["simulate"] = kw["simulate"]
    self.tlc_runs.append(rec)
    return r

  # ---- accounting ----
  def case(self, scenario: Any, nontrivial: bool = True, key: Any = None) -> None:
    """Count one executed scenario; distinct non-trivial ones are tracked by hash."""
    self.evaluations += 1
    if nontrivial:
      self.distinct.add(jhash(key if key is not None else scenario))
    if len(self.samples) < 4:
      self.samples.append(scenario)

  def skip(self, why: str, n: int = 1) -> None:
    self.skipped[why] = self.skipped.get(why, 0) + n

  def violation(self, key: Dict[str, Any], msg: str, scenario: Any = None) -> None:
    """key: structured cause used to match known findings; scenario: replayable description."""
    self.violations.append({"key": key, "msg": msg, "scenario": scenario})

  # ---- finish ----
  def finish(self) -> int:
    known = []
    if os.path.exists(FINDINGS):
      known = [f for f in json.load(open(FINDINGS))["findings"] if f["property"] == self.pid and f.get("kind") == "known"]
    new, listed = [], {}
    for v in self.violations:
      hit = next((f for f in known if _match(f["match"], v["key"])), None)
      if hit is None:
        new.append(v)
      else:
        listed.setdefault(hit["id"], (hit, []))[1].append(v)
    for fid, (f, vs) in sorted(listed.items()):
      print(f"KNOWN-FINDING: property={self.pid} {fid} {f['what']} ({len(vs)} scenario(s) reproduce it)")
    os.makedirs(REPLAY, exist_ok=True)
    seen = set()
    for v in new:
      h = jhash(v["key"])
      if h in seen:
        continue
      seen.add(h)
      path = os.path.join(REPLAY, f"{self.pid}-{h}.json")
      with open(path, "w") as f:
        json.dump({"property": self.pid, "key": v["key"], "msg": v["msg"], "scenario": v["scenario"], "seed": self.seed,
                   "tier": self.tier}, f, indent=1, default=str)
      print(f"VIOLATION property={self.pid} replay={path}")
      print(f"  cause: {json.dumps(v['key'], default=str)}  {v['msg'][:600]}")
    self.write_evidence(len(new), {fid: len(vs) for fid, (f, vs) in listed.items()})
    return 1 if new else 0

  def write_evidence(self, nviol: int, known: Dict[str, int]) -> None:
    cov: Dict[str, Any] = {
      "evaluations": self.evaluations,
      "distinct_nontrivial": len(self.distinct),
      "rule": self.rule,
      "samples": self.samples[:4] if self.samples else [],
      "states": self.states,
      "transitions": self.transitions,
      "traces_validated_against_impl": self.traces_validated,
      "tlc_runs": self.tlc_runs,
      "skipped": self.skipped,
      "known_findings_reproduced": known,
    }
    cov.update(self.extra)
    ev = {
      "property_id": self.pid,
      "tier": self.tier,
      "seed": self.seed,
      "level": self.level,
      "coverage": cov,
      "assumptions": self.assumptions,
      "wall_s": round(time.time() - self.t0, 2),
      "violations": nviol,
    }
    # a replay of one scenario is not a record of the check: it goes next to the replay files and leaves evidence/<id>.json alone
    dirn, name = (REPLAY, f"{self.pid}.replay-evidence.json") if getattr(self, "replaying", False) else (EVID, f"{self.pid}.json")
    os.makedirs(dirn, exist_ok=True)
    tmp = os.path.join(dirn, f".{name}.tmp")
    with open(tmp, "w") as f:
      json.dump(ev, f, indent=1, default=str)
    os.replace(tmp, os.path.join(dirn, name))


# ---------------------------------------------------------------------------
# process pool for scenario replay (Warp CPU kernels are single threaded)
# ---------------------------------------------------------------------------


class Crash:
  """Result of an item whose worker process died (signal / abort) while running it."""

  def __init__(self, returncode, stderr_tail):
    self.returncode, self.stderr_tail = returncode, stderr_tail

  def __repr__(self):
    return f"Crash(returncode={self.returncode})"


def pmap(func: Callable, items: Iterable[Any], nproc: int = 14, envs: Optional[Dict[str, str]] = None, crash_ok: bool = False,
         item_timeout: float = 900.0) -> List[Any]:
  """Run top-level function func over items in worker subprocesses (mbt.worker), order preserved.

  A Python exception in a worker is machinery failure.  A worker that dies while running an item yields a
  Crash object for that item when crash_ok, else machinery failure.
  """
  import pickle
  import selectors
  import struct
  import tempfile

  items = list(items)
  if not items:
    return []
  nproc = max(1, min(nproc, len(items)))
  e = dict(os.environ)
  e.update(envs or {})
  e["PYTHONPATH"] = REPO + os.pathsep + VERIF + os.pathsep + e.get("PYTHONPATH", "")
  results: List[Any] = [None] * len(items)
  pending = list(range(len(items)))[::-1]
  sel = selectors.DefaultSelector()

  class W:
    pass

  def spawn():
    w = W()
    w.err = tempfile.TemporaryFile()
    w.p = subprocess.Popen([sys.executable, "-m", "mbt.worker"], stdin=subprocess.PIPE, stdout=subprocess.PIPE, stderr=w.err, env=e, cwd="/")
    w.item = None
    w.buf = b""
    w.t0 = 0.0
    os.set_blocking(w.p.stdout.fileno(), False)
    sel.register(w.p.stdout, selectors.EVENT_READ, w)
    return w

  def feed(w):
    if not pending:
      try:
        w.p.stdin.close()
      except Exception:
        pass
      w.item = None
      return
    i = pending.pop()
    w.item, w.t0 = i, time.time()
    b = pickle.dumps((func.__module__, func.__name__, items[i]))
    try:
      w.p.stdin.write(struct.pack("<I", len(b)) + b)
      w.p.stdin.flush()
    except BrokenPipeError:
      pass

  workers = [spawn() for _ in range(nproc)]
  for w in workers:
    feed(w)
  live = len(workers)
  failure = None
  while live > 0:
    evs = sel.select(timeout=5.0)
    now = time.time()
    if not evs:
      for w in workers:
        if w.item is not None and w.p.poll() is None and now - w.t0 > item_timeout:
          w.p.kill()
      continue
    for key, _ in evs:
      w = key.data
      chunk = w.p.stdout.read()
      if chunk is None:
        continue
      if chunk:
        w.buf += chunk
        while len(w.buf) >= 4:
          (n,) = struct.unpack("<I", w.buf[:4])
          if len(w.buf) < 4 + n:
            break
          st, val = pickle.loads(w.buf[4 : 4 + n])
          w.buf = w.buf[4 + n :]
          if st == "exc":
            failure = failure or f"worker failed on {json.dumps(items[w.item], default=str)[:400]}:\n{val}"
          results[w.item] = val
          feed(w)
      else:
        # EOF: worker exited
        sel.unregister(w.p.stdout)
        rc = w.p.wait()
        w.err.seek(0)
        tail = w.err.read()[-1500:].decode(errors="replace")
        w.err.close()
        live -= 1
        if w.item is not None:
          results[w.item] = Crash(rc, tail)
          if not crash_ok:
            failure = failure or f"worker crashed (rc={rc}) on {json.dumps(items[w.item], default=str)[:400]}:\n{tail}"
          w.item = None
          if pending:
            nw = spawn()
            workers.append(nw)
            live += 1
            feed(nw)
  if failure:
    raise RuntimeError(failure)
  return results


def pmap_chunks(func: Callable, chunks: List[Any], split: Callable[[Any], List[Any]], nproc: int = 14) -> Tuple[List[Any], List[Tuple[Any, "Crash"]]]:
  """pmap over chunks of scenarios where the implementation under test may kill the process: a chunk whose worker dies is re-run one
  scenario per item (split(chunk) -> single-scenario chunks).  Returns (results of all chunks/singles that completed, [(single, Crash)])."""
  res = pmap(func, chunks, nproc=nproc, crash_ok=True)
  done = [r for r in res if not isinstance(r, Crash)]
  singles = [s for c, r in zip(chunks, res) if isinstance(r, Crash) for s in split(c)]
  crashes = []
  if singles:
    res2 = pmap(func, singles, nproc=nproc, crash_ok=True)
    for s, r in zip(singles, res2):
      if isinstance(r, Crash):
        crashes.append((s, r))
      else:
        done.append(r)
  return done, crashes


def crash_site(c: "Crash") -> str:
  """innermost frame of the implementation in a faulthandler dump / traceback of a dead worker"""
  import re

  m = re.findall(r'File "[^"]*/mujoco_warp/_src/([a-z_0-9]+\.py)", line \d+ in (\w+)', c.stderr_tail)
  return f"{m[0][0]}:{m[0][1]}" if m else "unknown"


def run_isolated(code: str, timeout: int = 600, envs: Optional[Dict[str, str]] = None) -> subprocess.CompletedProcess:
  """Run python code in a fresh interpreter (process-history / crash experiments)."""
  e = dict(os.environ)
  e.update(envs or {})
  e["PYTHONPATH"] = REPO + os.pathsep + VERIF + os.pathsep + e.get("PYTHONPATH", "")
  return subprocess.run([sys.executable, "-c", code], capture_output=True, text=True, timeout=timeout, env=e, cwd="/")
