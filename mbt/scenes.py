"""Concretiser: abstract scene descriptors (as the specs emit them) -> MJCF.

All numeric fill is deterministic.  A descriptor is a plain dict so that it can be written into
evidence/replay files and regenerated.
"""

from __future__ import annotations

from typing import Any, Dict, List


def rows_scene(
  spheres: List[int],  # condim per free sphere resting on the plane (penetrating => one contact each)
  connects: int = 0,  # connect equalities between consecutive spheres
  welds: int = 0,  # weld equalities between consecutive spheres (after the connected ones)
  hinges: int = 0,  # hinge arms (no collision)
  hinge_limit: bool = False,  # each hinge violates its joint limit (one limit row each)
  hinge_friction: bool = False,  # each hinge has frictionloss (one friction row each)
  jointeqs: int = 0,  # joint equalities between consecutive hinges
  cone: str = "pyramidal",
  jacobian: str = "dense",
  solver: str = "Newton",
  lifted: List[int] = (),  # spheres lifted off the plane (no contact)
  extra_opt: str = "",
  chain: int = 0,  # extra: serial hinge chain of this length hanging (deeper dof ancestry for sparse rows)
  sleep: bool = False,
) -> str:
  b = []
  n = len(spheres)
  for i, cd in enumerate(spheres):
    z = 0.09 if i not in lifted else 0.5
    b.append(
      f'<body name="s{i}" pos="{0.5 * i} 0 {z}"><freejoint/><geom name="gs{i}" type="sphere" size="0.1" condim="{cd}" '
      f'mass="1"/></body>'
    )
  for i in range(hinges):
    lim = ' limited="true" range="10 50"' if hinge_limit else ""
    fr = ' frictionloss="0.1"' if hinge_friction else ""
    b.append(
      f'<body name="h{i}" pos="{0.5 * i} 2 1"><joint name="jh{i}" type="hinge" axis="0 1 0"{lim}{fr}/>'
      f'<geom type="capsule" fromto="0 0 0 0.3 0 0" size="0.02" contype="0" conaffinity="0" mass="1"/></body>'
    )
  if chain:
    s = ""
    for i in reversed(range(chain)):
      s = (f'<body name="c{i}" pos="0 0 -0.2"><joint name="jc{i}" type="hinge" axis="0 1 0"/>'
           f'<geom type="capsule" fromto="0 0 0 0 0 -0.2" size="0.02" contype="0" conaffinity="0" mass="0.5"/>{s}</body>')
    b.append(s.replace('pos="0 0 -0.2"', 'pos="0 -2 3"', 1))  # outermost body is placed in the world
  eq = []
  k = 0
  for _ in range(connects):
    eq.append(f'<connect body1="s{k}" body2="s{k + 1}" anchor="0.25 0 0"/>')
    k += 1
  for _ in range(welds):
    eq.append(f'<weld body1="s{k}" body2="s{k + 1}"/>')
    k += 1
  assert k < max(n, 1) or k == 0, "not enough spheres for the requested equalities"
  for i in range(jointeqs):
    eq.append(f'<joint joint1="jh{i}" joint2="jh{i + 1}"/>')
  flag = '<flag sleep="enable"/>' if sleep else ""
  return f"""<mujoco>
  <option cone="{cone}" jacobian="{jacobian}" solver="{solver}" {extra_opt}>{flag}</option>
  <worldbody>
    <geom name="floor" type="plane" size="10 10 .1" condim="1"/>
    {chr(10).join(b)}
  </worldbody>
  <equality>{"".join(eq)}</equality>
</mujoco>"""
