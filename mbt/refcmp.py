"""Differential comparison of MJWarp Data fields with MuJoCo C MjData fields (the oracle the properties name)."""

from __future__ import annotations

from typing import Any, Dict, Iterable, List, Optional, Tuple

import numpy as np


def get(obj, name: str):
  """obj.a.b for name 'a.b'; warp arrays are converted to numpy."""
  x = obj
  for part in name.split("."):
    x = getattr(x, part)
  if hasattr(x, "numpy"):
    x = x.numpy()
  return np.asarray(x)


def err(got, exp) -> Tuple[float, float]:
  """(max abs error, scale) ; scale = max(1, max|exp|) so that tolerances are relative to the field's magnitude."""
  got = np.asarray(got, dtype=np.float64).ravel()
  exp = np.asarray(exp, dtype=np.float64).ravel()
  if got.size != exp.size:
    return float("inf"), 1.0
  if got.size == 0:
    return 0.0, 1.0
  with np.errstate(invalid="ignore"):
    e = np.abs(got - exp)
  e = np.where(np.isnan(got) != np.isnan(exp), np.inf, np.where(np.isnan(e), 0.0, e))
  return float(e.max()), float(max(1.0, np.nanmax(np.abs(exp)) if np.isfinite(exp).any() else 1.0))


class Cmp:
  """Collects per-field mismatches of one scenario."""

  def __init__(self, tol: float = 1e-4):
    self.tol = tol
    self.bad: List[Tuple[str, float, float]] = []
    self.nfields = 0
    self.worst = 0.0
    self.worst_name = ""

  def close(self, name: str, got, exp, tol: Optional[float] = None, scale: Optional[float] = None) -> bool:
    """|got-exp| <= tol * max(1, max|exp|, scale).  `scale` lets a caller make the tolerance relative to the magnitude of the
    quantities the field was computed from (e.g. constraint forces for solver outputs)."""
    self.nfields += 1
    e, s = err(got, exp)
    if scale is not None:
      s = max(s, float(scale))
    t = self.tol if tol is None else tol
    rr = e / s / t if np.isfinite(e) else 1e9
    if rr > self.worst:
      self.worst, self.worst_name = rr, name
    if not (e <= t * s):
      self.bad.append((name, e, s))
      return False
    return True

  def equal(self, name: str, got, exp) -> bool:
    self.nfields += 1
    g, x = np.asarray(got), np.asarray(exp)
    if g.shape != x.shape or not np.array_equal(g, x):
      self.bad.append((name, float("nan"), 0.0))
      return False
    return True

  def fields(self, d, mjd, names: Iterable, world: int = 0, tol: Optional[float] = None):
    """names: 'x' (same name both sides) or ('mjw name', 'mujoco name')."""
    for n in names:
      a, b = (n, n) if isinstance(n, str) else n
      g = get(d, a)
      self.close(a, g[world], get(mjd, b), tol)

  def summary(self) -> str:
    return "; ".join(f"{n}: err {e:.3g} (scale {s:.3g})" for n, e, s in self.bad[:6])

  def first(self) -> str:
    return self.bad[0][0] if self.bad else ""
