"""Warm the Warp kernel cache by stepping representative models once (single process)."""

from __future__ import annotations

import time


def main():
  import mujoco
  import warp as wp

  import mujoco_warp as mjw
  from mujoco_warp import test_data

  wp.config.log_level = wp.LOG_WARNING
  t0 = time.time()
  for name in ("constraints.xml", "collision.xml", "humanoid/humanoid.xml", "pendula.xml"):
    try:
      mjm, mjd, m, d = test_data.fixture(name)
      mjw.step(m, d)
      wp.synchronize()
    except Exception as e:  # warming is best effort
      print("warm: skipped", name, type(e).__name__, e)
  print(f"warm: {time.time() - t0:.1f}s")
