"""C38  Compacted active-DOF solve is equivalent  (Compact.tla: maps, count, overflow bit; compact vs full solve)."""

from __future__ import annotations

import numpy as np

from .. import core

LEVEL = "model_checking"


def gen(n):
  mod = "---- MODULE Gen_Compact ----\nEXTENDS Compact\nGSizes == {1, 2, 3, 6}\n====\n"
  cfg = f"""CONSTANTS
  MaxTree = 4
  Sizes <- GSizes
  Mode = "sim"
  NCfg = {n}
SPECIFICATION Spec
INVARIANT Inverse
INVARIANT FrozenUnmapped
INVARIANT BitIffOverflow
INVARIANT OrderPreserving
INVARIANT EmitCfg
"""
  return {"Gen_Compact.tla": mod, "Gen_Compact.cfg": cfg}


def tree_xml(i, size):
  if size == 6:
    return f'<body pos="{0.6 * i} 0 0.1"><freejoint/><geom type="box" size="0.1 0.1 0.1"/></body>'
  s = ""
  for k in reversed(range(size)):
    s = f'<body pos="0.12 0 0"><joint type="hinge" axis="0 1 0" damping="0.5"/><geom type="capsule" fromto="0 0 0 0.12 0 0" size="0.03"/>{s}</body>'
  return s.replace('pos="0.12 0 0"', f'pos="{0.6 * i} 1 0.031"', 1)


def scene(sizes, sleep=True):
  flag = '<flag sleep="enable"/>' if sleep else ""
  return f'<mujoco><option timestep="0.004">{flag}</option><worldbody><geom type="plane" size="8 8 .1"/>{"".join(tree_xml(i, s) for i, s in enumerate(sizes))}</worldbody></mujoco>'


def _chunk(cfgs):
  import mujoco
  import warp as wp

  import mujoco_warp as mjw
  from mujoco_warp._src import island as I
  from mujoco_warp._src.types import OverflowType

  out = []
  for rec in cfgs:
    c = rec["c"]
    sizes = c["size"] if isinstance(c["size"], list) else [c["size"][str(i + 1)] for i in range(c["ntree"])]
    awake = c["awake"] if isinstance(c["awake"], list) else [c["awake"][str(i + 1)] for i in range(c["ntree"])]
    mjm = mujoco.MjModel.from_xml_string(scene(sizes))
    where = {"cfg": c}
    if mjm.ntree != c["ntree"] or list(mjm.tree_dofnum) != sizes:
      out.append(("MACHINERY", f"concretiser: trees {list(mjm.tree_dofnum)} for {sizes}", where))
      continue
    m = mjw.put_model(mjm)
    nworld = 2
    try:
      d = mjw.make_data(mjm, nworld=nworld, nvmax=c["nvmax"])
    except ValueError as e:
      out.append(({"what": "make_data rejected a legal nvmax", "nvmax": c["nvmax"]}, str(e), where))
      continue
    # world 0: the spec's awake set ; world 1: everything awake
    ta = np.ones((nworld, mjm.ntree), dtype=np.int32)
    ta[0] = [1 if a else 0 for a in awake]
    wp.copy(d.tree_awake, wp.array(ta, dtype=int))
    I.update_active_dofs(m, d)
    dc, cd, nc, ov = d.dof_cdof.numpy(), d.cdof_dof.numpy(), d.ncdof.numpy(), d.overflow.numpy()
    exp_dc = np.array(rec["dof_cdof"], dtype=int)
    exp_cd = np.array(rec["cdof_dof"], dtype=int)
    bad = None
    if not np.array_equal(dc[0][: mjm.nv], exp_dc):
      bad = f"dof_cdof {dc[0][: mjm.nv].tolist()} vs spec {exp_dc.tolist()}"
    elif int(nc[0]) != rec["ncdof"]:
      bad = f"ncdof {int(nc[0])} vs spec {rec['ncdof']}"
    elif not np.array_equal(cd[0][: rec["ncdof"]], exp_cd):
      bad = f"cdof_dof {cd[0][: rec['ncdof']].tolist()} vs spec {exp_cd.tolist()}"
    elif (cd[0][rec["ncdof"] :] != -1).any():
      bad = f"cdof_dof tail not cleared: {cd[0].tolist()}"
    elif bool(ov[0] & int(OverflowType.NVMAX)) != rec["overflow"]:
      bad = f"NVMAX bit {bool(ov[0] & int(OverflowType.NVMAX))} vs spec {rec['overflow']}"
    if bad:
      out.append(({"what": "active-dof compaction differs from Compact.tla"}, bad, where))
      continue
    out.append(("ok", None, None))
  return out


def _equiv_chunk(args):
  """compact solve (sleep enabled, everything awake / or nvmax = nv) vs full solve; frozen dofs have zero acceleration"""
  import mujoco
  import warp as wp

  import mujoco_warp as mjw

  sizes, seed, jac = args
  out = []
  rng = np.random.default_rng(seed)
  xs, xf = scene(sizes, True).replace("<option ", f'<option jacobian="{jac}" '), scene(sizes, False).replace("<option ", f'<option jacobian="{jac}" ')
  ms, mf = mujoco.MjModel.from_xml_string(xs), mujoco.MjModel.from_xml_string(xf)
  m_s, m_f = mjw.put_model(ms), mjw.put_model(mf)
  nworld = 2
  d_s, d_f = mjw.make_data(ms, nworld=nworld), mjw.make_data(mf, nworld=nworld)
  qv = rng.uniform(-1, 1, size=(nworld, ms.nv)).astype(np.float32)
  for d in (d_s, d_f):
    wp.copy(d.qvel, wp.array(qv, dtype=float))
  where = {"sizes": sizes, "jacobian": jac}
  for k in range(3):
    mjw.step(m_s, d_s)
    mjw.step(m_f, d_f)
    a, b = d_s.qacc.numpy(), d_f.qacc.numpy()
    sc = max(1.0, float(np.abs(b).max()))
    if float(np.abs(a - b).max()) > 5e-3 * sc:
      out.append(({"what": "compact solve differs from the full solve with every tree awake", "field": "qacc"}, f"step {k}: max diff {float(np.abs(a - b).max()):.3g} scale {sc:.3g}", where))
      return out
    ns, nf = d_s.nefc.numpy(), d_f.nefc.numpy()
    if not np.array_equal(ns, nf):
      out.append(({"what": "compact solve differs from the full solve with every tree awake", "field": "nefc"}, f"step {k}: {ns.tolist()} vs {nf.tolist()}", where))
      return out
  # let world 0 come to rest and sleep; keep world 1 excited
  for k in range(500):
    if k % 20 == 0:
      v = d_s.qvel.numpy()
      v[1] += rng.uniform(-0.3, 0.3, size=ms.nv).astype(np.float32)
      wp.copy(d_s.qvel, wp.array(v, dtype=float))
    mjw.step(m_s, d_s)
    asleep = d_s.tree_asleep.numpy()
    if (asleep[0] >= 0).any():
      qa = d_s.qacc.numpy()[0]
      dof_tree = np.array(ms.dof_treeid)
      frozen = np.isin(dof_tree, np.nonzero(asleep[0] >= 0)[0])
      if (qa[frozen] != 0).any() or (d_s.qvel.numpy()[0][frozen] != 0).any():
        out.append(({"what": "frozen dofs have non-zero acceleration or velocity"}, f"step {k}: qacc {qa[frozen].tolist()}", where))
        return out
      out.append(("ok_frozen", int(frozen.sum()), None))
      break
  else:
    out.append(("never_slept", None, None))
    return out
  # partial sleep: wait until every tree of world 0 sleeps, wake the LAST tree (its dofs follow sleeping trees in dof order) with a velocity, and
  # compare the awake tree's acceleration with the no-sleep model at the very same state (incl. the warm start), for a few steps
  for k in range(600):
    if (d_s.tree_asleep.numpy()[0] >= 0).all():
      break
    mjw.step(m_s, d_s)
  else:
    out.append(("never_all_slept", None, None))
    return out
  dof_tree = np.array(ms.dof_treeid)
  last = ms.ntree - 1
  dl = np.nonzero(dof_tree == last)[0]
  def kick():  # a disturbance that keeps the tree on the floor (the point is a constrained solve): no upward velocity for a free body
    kv = rng.uniform(-1.0, 1.0, size=dl.size).astype(np.float32)
    if dl.size == 6:
      kv[2] = -0.3
      kv[3:] *= 0.5
    return kv

  v = d_s.qvel.numpy()
  v[0, dl] = kick()
  wp.copy(d_s.qvel, wp.array(v, dtype=float))
  mjw.step(m_s, d_s)
  constrained = 0
  for k in range(30):
    if (d_s.tree_asleep.numpy()[0][last] >= 0) or not (d_s.tree_asleep.numpy()[0][:last] >= 0).all():
      out.append(("partial_not_realised", None, None) if not constrained else ("ok_partial", constrained, None))
      return out
    if k % 3 == 2:  # keep it moving, with a fresh disturbance (different warm starts and active sets)
      v = d_s.qvel.numpy()
      v[0, dl] = kick()
      wp.copy(d_s.qvel, wp.array(v, dtype=float))
    for f in ("qpos", "qvel", "qacc_warmstart", "ctrl"):
      a = getattr(d_s, f).numpy()
      wp.copy(getattr(d_f, f), wp.array(np.tile(a[:1], (nworld,) + (1,) * (a.ndim - 1)), dtype=float))
    mjw.forward(m_f, d_f)
    mjw.step(m_s, d_s)  # its qacc belongs to the state just copied
    constrained += int(d_s.nefc.numpy()[0] > 0)
    a, b = d_s.qacc.numpy()[0][dl], d_f.qacc.numpy()[0][dl]
    sc = max(1.0, float(np.abs(b).max()))
    if float(np.abs(a - b).max()) > 5e-3 * sc:
      out.append(({"what": "compact solve with sleeping trees differs from the full solve on the awake tree", "field": "qacc"},
                  f"step {k}: awake tree {last} qacc {a.round(3).tolist()} full solve {b.round(3).tolist()}", where))
      return out
  out.append(("ok_partial", constrained, None) if constrained else ("partial_without_constraints", None, None))
  return out


def run(ctx: core.Ctx):
  ctx.rule = ("Compact.tla: tree dof-size vectors (sizes 1,2,3,6; up to 4 trees) x awake subsets x nvmax 0..nv; TLC checks the maps are mutually inverse, "
              "order preserving, frozen dofs unmapped and the NVMAX bit <=> need > nvmax, and emits the expected maps; each configuration is "
              "realised (make_data(nvmax), tree_awake written, update_active_dofs) and dof_cdof / cdof_dof / ncdof / NVMAX bit compared. Equivalence: "
              "sleep-enabled (compact) vs sleep-disabled (full) models stepped side by side with everything awake (qacc, nefc), dense and sparse; "
              "then a world is left to fall asleep and its frozen dofs must have exactly zero qacc and qvel")
  n = 150 if ctx.quick else 2000
  r = ctx.tlc("Gen_Compact", "Gen_Compact.cfg", gen=gen(n), workers=1, simulate="num=1", depth=n + 1, seed=ctx.seed % (1 << 30), timeout=900)
  cfgs, seen = [], set()
  for c in r.emit("cfg"):
    h = core.jhash(c["c"])
    if h not in seen:
      seen.add(h)
      cfgs.append(c)
      ctx.case({"cfg": c["c"], "ncdof": c["ncdof"], "overflow": c["overflow"]}, nontrivial=True, key=c["c"])
  ctx.traces_validated = len(cfgs)
  CH = max(1, len(cfgs) // 14 + 1)
  for res in core.pmap(_chunk, [cfgs[i : i + CH] for i in range(0, len(cfgs), CH)], nproc=14):
    for key, msg, scen in res:
      if key == "MACHINERY":
        raise RuntimeError(msg)
      if key != "ok":
        ctx.violation(key, msg, scen)
  combos = [[6, 6], [1, 2, 3], [6, 3, 1, 2], [2, 2, 6]] if ctx.quick else [[6, 6], [1, 2, 3], [6, 3, 1, 2], [2, 2, 6], [6, 6, 6, 6], [3, 3, 3], [1, 1, 1, 1], [6, 1]]
  work = [(s, ctx.seed + i, jac) for i, s in enumerate(combos) for jac in ("dense", "sparse")]
  slept = 0
  for (sizes, sd, jac), res in zip(work, core.pmap(_equiv_chunk, work, nproc=8)):
    ctx.case({"equivalence": sizes, "jacobian": jac}, key=("eq", sizes, jac))
    for key, msg, scen in res:
      if key == "ok_frozen":
        slept += 1
      elif key == "ok_partial":
        ctx.extra["scenes_with_partial_sleep_checked"] = ctx.extra.get("scenes_with_partial_sleep_checked", 0) + 1
        ctx.extra["constrained_partial_solves_compared"] = ctx.extra.get("constrained_partial_solves_compared", 0) + int(msg)
        if jac == "sparse":
          ctx.extra["constrained_partial_solves_compared_sparse"] = ctx.extra.get("constrained_partial_solves_compared_sparse", 0) + int(msg)
      elif key in ("never_slept", "never_all_slept", "partial_not_realised", "partial_without_constraints"):
        ctx.skip(key)
      else:
        ctx.violation(key, msg, scen)
  ctx.extra["scenes_with_sleeping_trees_checked"] = slept
  if not ctx.violations and (not ctx.extra.get("constrained_partial_solves_compared_sparse") or ctx.extra.get("constrained_partial_solves_compared", 0) < 20):
    raise RuntimeError(f"vacuous: too few constrained solves with a partially sleeping world: {ctx.extra}")
  ctx.assumptions += ["tree_awake is written directly to realise every awake subset for the map check; equivalence tolerance 5e-3 relative (solver outputs)"]


def replay(ctx, scen):
  run(ctx)


META = {
  "text": "Compact.tla defines the active-dof compaction (maps, count, overflow); TLC checks inverse / order / frozen / bit invariants and emits the "
          "expected maps for dof-size vectors x awake subsets x nvmax; each is realised on the real update_active_dofs and compared. The compact "
          "solve is compared with the full solve when every tree is awake, and frozen dofs of genuinely sleeping trees must have zero acceleration.",
  "note": "maps and bit are spec-decided (exact); equivalence of the solves is differential at 5e-3",
  "technique": "TLA+ compaction spec (Compact.tla) checked by TLC + one implementation test per TLC-emitted configuration; differential compact-vs-full solve",
}
