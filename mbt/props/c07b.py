"""C07 part B: sensors that read the contact list (contact sensors, touch) and ray / distance sensors (rangefinder, distance, normal,
fromto).  ContactSensor.tla gives, for every criterion pair of a contact sensor, which contacts must be reported and with which sign."""

from __future__ import annotations

import json
import os

import numpy as np

from .. import core

# ---------------------------------------------------------------- the scene (bodies, geoms, designed contacts)
PARENT = [0, 1, 0, 3]  # bodies A, B (child of A), C, D (child of C)
BODYNAME = ["world", "A", "B", "C", "D"]
GEOMNAME = ["P", "a1", "a2", "b1", "c1", "d1"]
GEOMBODY = [0, 1, 1, 2, 3, 4]
CONTACTS = [(0, 1), (0, 3), (0, 4), (2, 4), (3, 5)]
# (penetrations 2, 3, 4, 1.5 and 2.5 mm: no two contacts at the same distance, so that reduce=mindist has no ties)
# sites on body A (local frame), all around the a2-c1 contact point or around the a1-plane one; type, size, pos, euler
SITES = [("sphere", "0.04", "0.2358 0 0.0662", "0 0 0"), ("box", "0.05 0.03 0.12", "0.0 0.0 -0.1", "0 0 20"), ("capsule", "0.03 0.3", "0 0 -0.098", "0 90 0"),
         ("ellipsoid", "0.5 0.02 0.02", "0.0 0 -0.098", "0 0 0"), ("cylinder", "0.06 0.02", "0.2358 0 0.0662", "30 40 0")]


def scene_xml(sensors: str, perturb=None) -> str:
  return f"""<mujoco><option gravity="0 0 -9.81" cone="{(perturb or {}).get('cone', 'pyramidal')}"/><worldbody>
<geom name="P" type="plane" size="3 3 .1"/>
<body name="A" pos="0 0 0.098"><freejoint/><geom name="a1" size="0.1"/><geom name="a2" size="0.05" pos="0.2 0 0.1"/>
  {"".join(f'<site name="S{i}" type="{t}" size="{sz}" pos="{p}" euler="{e}"/>' for i, (t, sz, p, e) in enumerate(SITES))}
  <body name="B" pos="-0.25 0 0"><joint type="hinge" axis="0 1 0"/><geom name="b1" size="0.101"/></body></body>
<body name="C" pos="0.30793 0 0.096"><freejoint/><geom name="c1" size="0.1"/>
  <body name="D" pos="-0.55793 0 0.1505"><joint type="hinge" axis="0 1 0"/><geom name="d1" size="0.05"/></body></body>
</worldbody><compiler angle="degree"/><sensor>{sensors}</sensor></mujoco>"""


def inside(mjm, mjd, sid, p):
  """independent point-in-site test; returns (inside, margin to the boundary in metres, roughly)"""
  import mujoco

  x = mjd.site_xmat[sid].reshape(3, 3).T @ (p - mjd.site_xpos[sid])
  s = mjm.site_size[sid]
  t = mjm.site_type[sid]
  G = mujoco.mjtGeom
  if t == G.mjGEOM_SPHERE:
    v = np.linalg.norm(x) - s[0]
  elif t == G.mjGEOM_BOX:
    v = float(np.max(np.abs(x) - s))
  elif t == G.mjGEOM_CAPSULE:
    z = np.clip(x[2], -s[1], s[1])
    v = np.linalg.norm(x - np.array([0, 0, z])) - s[0]
  elif t == G.mjGEOM_ELLIPSOID:
    v = (np.linalg.norm(x / s) - 1.0) * float(np.min(s))
  elif t == G.mjGEOM_CYLINDER:
    v = max(np.linalg.norm(x[:2]) - s[0], abs(x[2]) - s[1])
  else:
    raise AssertionError(t)
  return v < 0, abs(float(v))


def crit_attr(c, which):
  k, i = c["k"], int(c["id"])
  if k == "none":
    return ""
  if k == "site":
    return f' site="S{i - 1}"'
  if k == "geom":
    return f' geom{which}="{GEOMNAME[i]}"'
  if k == "body":
    return f' body{which}="{BODYNAME[i]}"'
  if k == "subtree":
    return f' subtree{which}="{BODYNAME[i]}"'
  raise AssertionError(c)


def gen(insite):
  tl = lambda xs: "<<" + ", ".join(str(x) for x in xs) + ">>"
  mod = ("---- MODULE Gen_ContactSensor ----\nEXTENDS ContactSensor\n"
         f"GParent == {tl(PARENT)}\nGGeomBody == {tl(GEOMBODY)}\nGContacts == {tl(tl(c) for c in CONTACTS)}\n"
         f"GInSite == {tl('{' + ', '.join(str(i) for i in sorted(s)) + '}' for s in insite)}\n====\n")
  cfg = """CONSTANTS
  Mode = "scene"
  NBodyMax = 1
  SParent <- GParent
  SGeomBody <- GGeomBody
  SContacts <- GContacts
  SInSite <- GInSite
SPECIFICATION Spec
INVARIANT LoopIsAncestor
INVARIANT EmitScene
CHECK_DEADLOCK FALSE
"""
  return {"Gen_ContactSensor.tla": mod, "Gen_ContactSensor.cfg": cfg}


def slots(sd, num, width):
  out = []
  for k in range(num):
    s = sd[k * width : (k + 1) * width]
    if s[0] > 0:
      out.append(s)
  return out


def run_part(ctx: core.Ctx):
  """contact sensors: three-way (ContactSensor.tla / MuJoCo / MJWarp) over every criterion pair; then the numeric families"""
  import mujoco
  import warp as wp

  import mujoco_warp as mjw

  ctx.tlc("MC_ContactSensor", "MC_ContactSensor_quick.cfg" if ctx.quick else "MC_ContactSensor.cfg", timeout=1800)
  # which designed contacts lie in which site: computed here, independently of both implementations
  mjm0 = mujoco.MjModel.from_xml_string(scene_xml(""))
  mjd0 = mujoco.MjData(mjm0)
  mujoco.mj_forward(mjm0, mjd0)
  pairs0 = [tuple(int(x) for x in mjd0.contact.geom[i]) for i in range(mjd0.ncon)]
  if sorted(pairs0) != sorted(CONTACTS):
    raise RuntimeError(f"scene does not realise the designed contacts: {pairs0}")
  cpos = {pairs0[i]: np.array(mjd0.contact.pos[i]) for i in range(mjd0.ncon)}
  insite = []
  for sid in range(len(SITES)):
    members = set()
    for ci, pr in enumerate(CONTACTS):
      ins, marg = inside(mjm0, mjd0, sid, cpos[pr])
      if marg < 1e-3:
        raise RuntimeError(f"contact {pr} within {marg} of the boundary of site {sid}: the scene must keep a margin")
      if ins:
        members.add(ci + 1)
    insite.append(members)
  if not all(insite) or all(len(s) == len(CONTACTS) for s in insite):
    raise RuntimeError(f"vacuous site membership {insite}")
  r = ctx.tlc("Gen_ContactSensor", "Gen_ContactSensor.cfg", gen=gen(insite), workers=1, timeout=900)
  exp = r.emit("sensor")
  # the spec has one site criterion per site: [k |-> "site", id |-> s]
  num, width = len(CONTACTS) + 1, 5
  sens = "".join(f'<contact name="s{i}"{crit_attr(e["o1"], 1)}{crit_attr(e["o2"], 2)} data="found dist normal" num="{num}"/>' for i, e in enumerate(exp))
  bad = 0
  for cone in ("pyramidal", "elliptic"):
    xml = scene_xml(sens, {"cone": cone})
    mjm = mujoco.MjModel.from_xml_string(xml)
    mjd = mujoco.MjData(mjm)
    mujoco.mj_forward(mjm, mjd)
    m = mjw.put_model(mjm)
    d = mjw.make_data(mjm, nworld=2)
    mjw.forward(m, d)
    got = mujoco.MjData(mjm)
    conR = {tuple(int(x) for x in mjd.contact.geom[i]): (float(mjd.contact.dist[i]), np.array(mjd.contact.frame[i][:3])) for i in range(mjd.ncon)}
    for w in range(2):
      mjw.get_data_into(got, mjm, d, world_id=w)
      sd = d.sensordata.numpy()[w]
      con = {tuple(int(x) for x in got.contact.geom[i]): (float(got.contact.dist[i]), np.array(got.contact.frame[i][:3])) for i in range(got.ncon)}
      if sorted(con) != sorted(CONTACTS):
        ctx.violation({"what": "contact list of the sensor scene differs from the designed one"}, str(sorted(con)), {"xml": xml})
        return
      for i, e in enumerate(exp):
        a = int(mjm.sensor_adr[i])
        mine = slots(sd[a : a + num * width], num, width)
        ref = slots(mjd.sensordata[a : a + num * width], num, width)
        want = [(con[CONTACTS[k]][0], sgn * con[CONTACTS[k]][1]) for k, sgn in enumerate(e["report"]) if sgn != 0]
        want_ref = [(conR[CONTACTS[k]][0], sgn * conR[CONTACTS[k]][1]) for k, sgn in enumerate(e["report"]) if sgn != 0]
        ctx.case({"o1": e["o1"], "o2": e["o2"], "cone": cone, "world": w}, nontrivial=bool(want), key=(e["o1"], e["o2"], cone, w))
        desc = f'o1={e["o1"]} o2={e["o2"]} spec={e["report"]} mjwarp={[np.round(s, 3).tolist() for s in mine]} mujoco={[np.round(s, 3).tolist() for s in ref]}'

        def same(slots_, want_):
          if len(slots_) != len(want_) or any(abs(s[0] - len(want_)) > 0 for s in slots_):
            return False
          left = list(want_)
          for s in slots_:
            hit = [j for j, (dist, n) in enumerate(left) if abs(s[1] - dist) < 1e-5 and np.abs(s[2:5] - n).max() < 1e-4]
            if not hit:
              return False
            left.pop(hit[0])
          return True

        ok_spec, ok_ref = same(mine, want), same(ref, want_ref)
        if not ok_ref:
          # the spec and MuJoCo disagree: the spec (or the scene) is wrong, not the code under test
          raise RuntimeError("ContactSensor.tla disagrees with MuJoCo: " + desc)
        if not ok_spec:
          bad += 1
          ctx.violation({"what": "contact sensor reports other contacts / signs than ContactSensor.tla and MuJoCo", "o1": e["o1"]["k"], "o2": e["o2"]["k"]}, desc,
                        {"o1": e["o1"], "o2": e["o2"], "cone": cone, "world": w, "xml_sensor": f'<contact{crit_attr(e["o1"], 1)}{crit_attr(e["o2"], 2)} data="found dist normal" num="{num}"/>'})
  ctx.extra["contact_sensor_criteria_pairs"] = len(exp)
  ctx.extra["contact_sensor_nonempty"] = sum(1 for e in exp if any(e["report"]))
  numeric(ctx)


# ---------------------------------------------------------------- numeric families (MuJoCo as oracle)
def _numeric_chunk(args):
  import mujoco
  import warp as wp

  import mujoco_warp as mjw

  items, seed = args
  out = []
  for it in items:
    r = np.random.default_rng([seed, it])
    S = []
    nb = {"A": 1, "B": 2, "C": 3, "D": 4}
    crit1 = [""] + [f' geom1="{g}"' for g in GEOMNAME] + [f' body1="{b}"' for b in BODYNAME] + [f' subtree1="{b}"' for b in BODYNAME] + [f' site="S{i}"' for i in range(len(SITES))]
    crit2 = [""] + [f' geom2="{g}"' for g in GEOMNAME] + [f' body2="{b}"' for b in BODYNAME] + [f' subtree2="{b}"' for b in BODYNAME]
    fields = ["found", "force", "torque", "dist", "pos", "normal", "tangent"]
    for k in range(10):
      fs = [f for f in fields if r.random() < 0.5] or ["found"]
      red = ["none", "mindist", "maxforce", "netforce"][int(r.integers(4))]
      S.append(f'<contact{crit1[int(r.integers(len(crit1)))]}{crit2[int(r.integers(len(crit2)))]} data="{" ".join(fs)}" reduce="{red}" num="{int(r.integers(1, 5))}"' +
               (f' cutoff="{r.uniform(0.5, 30):.3f}"' if r.random() < 0.2 else "") + "/>")
    for i in range(len(SITES)):
      S.append(f'<touch site="S{i}"' + (f' cutoff="{r.uniform(1, 40):.3f}"' if r.random() < 0.3 else "") + "/>")
    # rangefinders: extra sites with their z axis towards the scene are part of the scene below
    for i in range(4):
      S.append(f'<rangefinder site="R{i}"' + (f' cutoff="{r.uniform(0.1, 1.0):.3f}"' if r.random() < 0.3 else "") + "/>")
    objs = [f'geom{{}}="{g}"' for g in GEOMNAME[1:]] + [f'body{{}}="{b}"' for b in BODYNAME[1:]]
    geomsof = [{g} for g in range(1, len(GEOMNAME))] + [{g for g in range(len(GEOMNAME)) if GEOMBODY[g] == b} for b in range(1, len(BODYNAME))]
    for k in range(8):
      while True:  # two objects without a geom in common (the distance of a geom to itself is not a meaningful request)
        o1, o2 = r.choice(len(objs), size=2, replace=False)
        if not (geomsof[o1] & geomsof[o2]):
          break
      kind = ["distance", "normal", "fromto"][int(r.integers(3))]
      S.append(f'<{kind} {objs[o1].format(1)} {objs[o2].format(2)} cutoff="{[0.05, 0.5, 3.0][int(r.integers(3))]}"/>')
    sensors = "".join(S)
    cone = ["pyramidal", "elliptic"][int(r.integers(2))]
    rf = "".join(f'<site name="R{i}" pos="{r.uniform(-0.6, 0.6):.3f} {r.uniform(-0.3, 0.3):.3f} {r.uniform(0.3, 0.8):.3f}" euler="{r.uniform(120, 240):.1f} {r.uniform(-40, 40):.1f} 0"/>' for i in range(4))
    xml = scene_xml(sensors, {"cone": cone}).replace('<geom name="P"', rf + '<geom name="P"')
    where = {"item": int(it), "xml": xml}
    try:
      mjm = mujoco.MjModel.from_xml_string(xml)
    except Exception as e:
      out.append(("MACHINERY", f"sensor scene does not compile: {str(e)[:200]}", where))
      continue
    nworld = 2
    mjds = []
    for w in range(nworld):
      mjd = mujoco.MjData(mjm)
      if w:
        mjd.qvel[:] = 0.05 * r.normal(size=mjm.nv)
        mjd.qpos[:3] += 1e-4 * r.normal(size=3)
      mujoco.mj_forward(mjm, mjd)
      mjds.append(mjd)
    m = mjw.put_model(mjm)
    d = mjw.make_data(mjm, nworld=nworld)
    wp.copy(d.qpos, wp.array(np.stack([x.qpos for x in mjds]).astype(np.float32), dtype=float))
    wp.copy(d.qvel, wp.array(np.stack([x.qvel for x in mjds]).astype(np.float32), dtype=float))
    mjw.forward(m, d)
    sd = d.sensordata.numpy()
    bad = []
    for w in range(nworld):
      mjd = mjds[w]
      fscale = max(1.0, float(np.abs(mjd.efc_force).max()) if mjd.nefc else 1.0)
      for s in range(mjm.nsensor):
        a, n = int(mjm.sensor_adr[s]), int(mjm.sensor_dim[s])
        st = mujoco.mjtSensor(mjm.sensor_type[s]).name
        g, e = sd[w, a : a + n], mjd.sensordata[a : a + n]
        if st == "mjSENS_CONTACT":
          red = int(mjm.sensor_intprm[s, 1])
          # reduce "none" keeps the first matches in contact-list order, which is not part of the result: compare the slots as a set
          bits, num = int(mjm.sensor_intprm[s, 0]), int(mjm.sensor_intprm[s, 2])
          width = n // num
          if red in (0, 1, 2):
            # "none": only decidable when every match fits (otherwise the subset depends on the order of the contact list).  mindist / maxforce: contacts
            # that tie in the criterion (equal depths, zero forces) have no defined order, so the filled slots are compared as a set as well
            if red == 0 and (e[0] > num if (bits & 1) else False):
              continue
            if red != 0 and (bits & 1) and e[0] > num:
              continue  # more matches than slots: which of several tied ones is kept is not defined either
            key = lambda sl: tuple(np.round(sl, 3))
            gs, es = sorted(slots_any(g, num, width), key=key), sorted(slots_any(e, num, width), key=key)
            if len(gs) != len(es):
              bad.append((st, f"sensor {s} filled slots {len(gs)} vs {len(es)}", 0.0, 0.0))
              continue
            g, e = (np.concatenate(gs), np.concatenate(es)) if gs else (np.zeros(1), np.zeros(1))
        force_like = st in ("mjSENS_CONTACT", "mjSENS_TOUCH")
        tol = 5e-3 * fscale if force_like else 2e-4 * max(1.0, float(np.abs(e).max()) if len(e) else 1.0)
        err = float(np.abs(np.asarray(g, dtype=float) - np.asarray(e, dtype=float)).max()) if len(g) else 0.0
        if not err <= tol:
          x = xml[xml.index("<sensor>") + 8 :].split("/>")[s] + "/>"
          bad.append((st, f"world {w} sensor {s} {x}: mjwarp {np.round(g, 4).tolist()} mujoco {np.round(e, 4).tolist()}", err, tol))
    out.append((bad, int(mjm.nsensor), where))
  return out


def slots_any(sd, num, width):
  return [sd[k * width : (k + 1) * width] for k in range(num) if np.abs(sd[k * width : (k + 1) * width]).max() > 0]


def numeric(ctx: core.Ctx):
  n = 48 if ctx.quick else 640
  items = list(range(n))
  CH = max(1, n // 32)
  done, crashes = core.pmap_chunks(_numeric_chunk, [(items[i : i + CH], ctx.seed) for i in range(0, n, CH)], lambda ch: [([x], ch[1]) for x in ch[0]])
  for single, cr in crashes:
    ctx.violation({"what": "the process dies", "signal": int(cr.returncode), "where": core.crash_site(cr)}, cr.stderr_tail[-600:], {"item": single[0][0]})
  nsens = 0
  for res in done:
    for bad, ns, where in res:
      if bad == "MACHINERY":
        raise RuntimeError(ns)
      nsens += ns
      ctx.case({"item": where["item"]}, nontrivial=True, key=("numeric", where["item"]))
      for st, msg, err, tol in bad:
        ctx.violation({"what": "sensor / energy differs from MuJoCo C", "field": f"sensor:{st}"}, msg[:900], where)
  ctx.extra["contact_scene_sensors_compared"] = nsens
