"""C31  Host/device conversion is faithful  (PutModel.tla acceptance table; field-by-field copy; put_data -> get_data_into round trip)."""

from __future__ import annotations

import numpy as np

from .. import core, efc, family, parity
from . import c05

LEVEL = "model_checking"


def gen(n):
  mod = "---- MODULE Gen_PutModel ----\nEXTENDS PutModel\n====\n"
  cfg = f"CONSTANTS\n  Mode = \"sim\"\n  NCfg = {n}\nSPECIFICATION Spec\nINVARIANT DefaultAccepted\nINVARIANT Monotone\nINVARIANT EmitCfg\n"
  return {"Gen_PutModel.tla": mod, "Gen_PutModel.cfg": cfg}


def accept_xml(c):
  fl = []
  for f in c["flags"]:
    kind, name = f.split("_", 1)
    fl.append(f'{name}="{"disable" if kind == "dis" else "enable"}"')
  n = {"small": 2, "mid": 15, "big": 21}[c["size"]]   # ball joints: 6, 45 (between the two sparsity thresholds), 63 dofs
  bodies = "".join(f'<body pos="{0.4 * i} 0 {0.09 if i % 2 == 0 else 0.5}"><joint type="ball" limited="true" range="0 0.5"/><geom type="capsule" size="0.03 0.1"/></body>' for i in range(n))
  return (f'<mujoco><option solver="{c["solver"]}" integrator="{c["integrator"]}" noslip_iterations="{c["noslip"]}" jacobian="{c["jacobian"]}" cone="{c["cone"]}">'
          f'<flag {" ".join(fl)}/></option><worldbody><geom type="plane" size="9 9 .1"/>{bodies}</worldbody></mujoco>')


def _accept_chunk(cfgs):
  import mujoco

  import mujoco_warp as mjw

  out = []
  for rec in cfgs:
    c = rec["c"]
    where = {"cfg": c}
    try:
      mjm = mujoco.MjModel.from_xml_string(accept_xml(c))
    except Exception as e:
      out.append(("skip", f"compile:{str(e)[:80]}", where))
      continue
    try:
      m = mjw.put_model(mjm)
      got = True
    except (NotImplementedError, ValueError) as e:
      got = False
    except Exception as e:
      out.append(({"what": "put_model failed with a foreign exception", "type": type(e).__name__}, str(e)[:300], where))
      continue
    if got != rec["accepted"]:
      out.append(({"what": "put_model acceptance differs from PutModel.tla", "accepted_by_code": got}, f"spec says accepted={rec['accepted']} for {c}", where))
      continue
    if got:
      # the representation is the spec's on both sides
      if mjm.nv != rec["nv"] or bool(m.is_sparse) != rec["sparse_device"] or bool(mujoco.mj_isSparse(mjm)) != rec["sparse_host"]:
        out.append(("MACHINERY", f"PutModel.tla sizes/sparsity: nv {mjm.nv} device sparse {m.is_sparse} host sparse {mujoco.mj_isSparse(mjm)} vs spec {rec}", where))
        continue
      # constraint rows survive put_data -> get_data_into whatever the two representations are
      mjd = mujoco.MjData(mjm)
      mjd.qpos[:] = mjm.qpos0
      for j in range(mjm.njnt):
        mjd.qpos[mjm.jnt_qposadr[j] : mjm.jnt_qposadr[j] + 4] = [0.94, 0.2, 0.2, 0.18]   # beyond the ball limit
      mujoco.mj_forward(mjm, mjd)
      if mjd.nefc:
        dd = mjw.put_data(mjm, mjd, nworld=2)
        back = mujoco.MjData(mjm)
        bad = None
        for w in range(2):
          mjw.get_data_into(back, mjm, dd, world_id=w)
          if back.nefc != mjd.nefc:
            bad = f"world {w}: nefc {back.nefc} vs {mjd.nefc}"
          elif np.abs(efc.dense_J(mjm, back) - efc.dense_J(mjm, mjd)).max() > 1e-5:
            bad = f"world {w}: efc_J differs by {np.abs(efc.dense_J(mjm, back) - efc.dense_J(mjm, mjd)).max():.3g} ({mjd.nefc} rows)"
        if bad:
          out.append(({"what": "constraint Jacobian does not survive put_data -> get_data_into", "size": c["size"], "jacobian": c["jacobian"]}, bad, where))
          continue
      # an accepted model must also run
      d = mjw.make_data(mjm, nworld=1)
      mjw.step(m, d)
      if not np.isfinite(d.qpos.numpy()).all():
        out.append(({"what": "accepted configuration produces non-finite state"}, str(c), where))
        continue
    out.append(("ok", None, None))
  return out


def fields(rec, b, mjm, mjd, m, d, cmp, opts):
  """Model fields that have a same-named MjModel field must equal it; put_data -> get_data_into reproduces the represented MjData fields."""
  import dataclasses

  import mujoco
  import warp as wp

  import mujoco_warp as mjw
  from mujoco_warp._src import types

  # ---- Model
  for f in dataclasses.fields(types.Model):
    name = f.name
    if name in ("opt", "stat", "callback") or not hasattr(mjm, name):
      continue
    v = getattr(m, name)
    a = v.numpy() if hasattr(v, "numpy") else np.asarray(v) if isinstance(v, (np.ndarray, list, tuple, int, float)) else None
    if a is None:
      continue
    ref = np.asarray(getattr(mjm, name))
    try:
      a = np.asarray(a, dtype=np.float64)
    except Exception:
      continue
    if a.size == ref.size:
      cmp.close("Model." + name, a.reshape(-1), ref.reshape(-1).astype(np.float64), 1e-6)
    elif a.ndim >= 1 and a.shape[0] == 1 and a[0].size == ref.size:
      cmp.close("Model." + name, a[0].reshape(-1), ref.reshape(-1).astype(np.float64), 1e-6)
  for name in ("timestep", "gravity", "wind", "density", "viscosity", "iterations", "ls_iterations", "integrator", "cone", "solver", "disableflags", "enableflags"):
    v = getattr(m.opt, name)
    a = v.numpy()[0] if hasattr(v, "numpy") else v
    cmp.close("Model.opt." + name, np.asarray(a, dtype=np.float64).reshape(-1), np.asarray(getattr(mjm.opt, name), dtype=np.float64).reshape(-1), 1e-6)
  # ---- Data round trip on a state with contacts and constraint rows
  mujoco.mj_forward(mjm, mjd)
  nworld = 3
  try:
    dd = mjw.put_data(mjm, mjd, nworld=nworld)
  except ValueError as e:
    return "skip:put_data " + str(e)[:60]
  back = mujoco.MjData(mjm)
  for w in range(nworld):
    mjw.get_data_into(back, mjm, dd, world_id=w)
    for name in ("time", "qpos", "qvel", "act", "ctrl", "qacc_warmstart", "qfrc_applied", "xfrc_applied", "mocap_pos", "mocap_quat", "qacc", "act_dot", "xpos", "xquat", "xmat",
                 "xipos", "ximat", "geom_xpos", "geom_xmat", "site_xpos", "subtree_com", "cinert", "cdof", "actuator_length", "ten_length", "cvel", "qfrc_bias", "qfrc_passive",
                 "actuator_force", "qfrc_actuator", "qfrc_smooth", "qacc_smooth", "qfrc_constraint", "sensordata", "energy"):
      cmp.close(f"roundtrip.{name}", np.asarray(getattr(back, name), dtype=np.float64).reshape(-1), np.asarray(getattr(mjd, name), dtype=np.float64).reshape(-1), 1e-5)
    cmp.equal("roundtrip.ncon", back.ncon, mjd.ncon)
    cmp.equal("roundtrip.nefc", back.nefc, mjd.nefc)
    cmp.equal("roundtrip.ne/nf/nl", [back.ne, back.nf, back.nl], [mjd.ne, mjd.nf, mjd.nl])
    if back.ncon == mjd.ncon and mjd.ncon:
      # contacts in MuJoCo's order
      cmp.equal("roundtrip.contact.geom", np.array(back.contact.geom), np.array(mjd.contact.geom))
      cmp.close("roundtrip.contact.dist", np.array(back.contact.dist), np.array(mjd.contact.dist), 1e-6)
      cmp.close("roundtrip.contact.frame", np.array(back.contact.frame), np.array(mjd.contact.frame), 1e-6)
      cmp.equal("roundtrip.contact.efc_address", np.array(back.contact.efc_address), np.array(mjd.contact.efc_address))
    if back.nefc == mjd.nefc and mjd.nefc:
      # rows in MuJoCo's order
      cmp.equal("roundtrip.efc_type", np.array(back.efc_type), np.array(mjd.efc_type))
      cmp.equal("roundtrip.efc_id", np.array(back.efc_id), np.array(mjd.efc_id))
      for name in ("efc_pos", "efc_margin", "efc_D", "efc_aref", "efc_force", "efc_frictionloss"):
        cmp.close(f"roundtrip.{name}", np.array(getattr(back, name)), np.array(getattr(mjd, name)), 2e-5)
      cmp.close("roundtrip.efc_J", efc.dense_J(mjm, back), efc.dense_J(mjm, mjd), 1e-5)


def run(ctx: core.Ctx):
  ctx.rule = ("(1) PutModel.tla: acceptance table over solver x integrator x noslip x 10 flags x Jacobian x model size x cone; TLC emits configurations with "
              "the expected verdict; put_model must raise NotImplementedError/ValueError iff rejected, and an accepted model must step. (2) "
              "ModelFamily.tla configurations (all features of C05): every Model field with a same-named MjModel field must equal it (discovered from "
              "the dataclass at run time); put_data(mj_forward state, 3 worlds) followed by get_data_into must reproduce the represented MjData "
              "fields, contacts and constraint rows in MuJoCo's order, for every world")
  n = 120 if ctx.quick else 1500
  r = ctx.tlc("Gen_PutModel", "Gen_PutModel.cfg", gen=gen(n), workers=1, simulate="num=1", depth=n + 1, seed=ctx.seed % (1 << 30), timeout=900)
  cfgs, seen = [], set()
  for c in r.emit("cfg"):
    h = core.jhash(c["c"])
    if h not in seen:
      seen.add(h)
      cfgs.append(c)
  CH = max(1, len(cfgs) // 14 + 1)
  for res, chunk in zip(core.pmap(_accept_chunk, [cfgs[i : i + CH] for i in range(0, len(cfgs), CH)], nproc=14), [cfgs[i : i + CH] for i in range(0, len(cfgs), CH)]):
    for (key, msg, scen), rec in zip(res, chunk):
      if key == "MACHINERY":
        raise RuntimeError(msg)
      if key == "skip":
        ctx.skip("skip:" + msg.split(":")[0])
        continue
      ctx.case({"cfg": rec["c"], "accepted": rec["accepted"]}, nontrivial=True, key=rec["c"])
      if key != "ok":
        ctx.violation(key, msg, scen)
  ctx.extra["acceptance_cases"] = {"accepted": sum(1 for c in cfgs if c["accepted"]), "rejected": sum(1 for c in cfgs if not c["accepted"])}
  nf = 120 if ctx.quick else 1500
  recs = c05.sample(ctx, nf, seed_off=31)
  ctx.traces_validated = len(cfgs) + len(recs)
  parity.run(ctx, __name__, "fields", recs, nworld=1, opts={"tol": 1e-6, "vscale": 0.3}, what="conversion is not faithful")
  ctx.assumptions += ["features that cannot be written in MJCF of this MuJoCo version (removed enum values) are not generated", "float32 storage: 1e-6 / 1e-5 relative; opt.tolerance / ls_tolerance are deliberately clamped to float32-meaningful values by put_model and not compared"]


def replay(ctx, scen):
  run(ctx)


META = {
  "text": "PutModel.tla is the acceptance table of put_model (unsupported solver / noslip / flags / sleep+CG / dense with many dofs); TLC emits "
          "configurations with the expected verdict and put_model must reject exactly those with an exception. For TLC-generated models every "
          "Model field that mirrors an MjModel field is compared with it, and put_data followed by get_data_into must reproduce MjData (state, "
          "derived quantities, contacts and rows in MuJoCo's order) for every world.",
  "note": "acceptance table is spec-decided; field copies are compared exhaustively over the dataclass fields at 1e-6",
  "technique": "TLA+ acceptance table (PutModel.tla) sampled by TLC + spec->code replay; ModelFamily.tla configurations for the field and round-trip comparison",
}
