"""C09  Worlds in a batch do not influence each other  (Pipeline.tla terms; ContactBuf.tla WorldIsolation)."""

from __future__ import annotations

from .. import core, pipeline
from . import c13, c37

LEVEL = "model_checking"
OPS = ["step", "keyarray", "reset"]
PROPS = ("ResetSelected", "KeyframeOK")


def run(ctx: core.Ctx):
  ctx.rule = ("TLC -simulate behaviours of Pipeline.tla over 3 worlds with DIFFERENT controls / keyframes / resets per world, depth 7, 3 models; each "
              "world is compared bitwise after every action with the same term simulated ALONE (nworld=1) and with the same term at a different batch "
              "position of a 3-world reference; non-trivial = worlds have pairwise different terms at some point")
  ctx.tlc("MC_ContactBuf", "MC_ContactBuf_nosleep.cfg", timeout=900)  # WorldIsolation of the shared contact buffer, all interleavings
  mods = dict(c37.models())
  mods["constraints.xml"] = "/repo/mujoco_warp/test_data/constraints.xml"  # nv=50 dense Newton: the tiled solver path
  for tag, opts in (("alone", {"ref_nworld": 1}), ("shifted", {"ref_shift": 1})):
    c13.run_generic(ctx, OPS, PROPS, {f"{k}/{tag}": v for k, v in mods.items()}, depth=7, nbeh_quick=25, nbeh_thorough=300, opts=opts)
  ctx.assumptions += ["no overflow bit in these scenes; sleeping disabled"]


def replay(ctx, scen):
  run(ctx)


META = {
  "text": "TLC checks WorldIsolation on the shared contact-buffer model (all interleavings) and generates Pipeline.tla behaviours in which the worlds of "
          "a batch receive different controls, keyframes and resets; after every action each world's integration state and contacts must equal, "
          "bitwise, the same term simulated alone (nworld=1) and at another batch position.",
  "note": "3 models, batches of 3; comparison is bitwise (CPU); overflow-free scenes; sleeping disabled",
  "technique": "TLA+ (Pipeline.tla, ContactBuf.tla) model-checked with TLC + spec->code behaviour replay against single-world references",
}
