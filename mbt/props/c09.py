"""C09  Worlds in a batch do not influence each other  (Pipeline.tla terms; ContactBuf.tla WorldIsolation)."""

from __future__ import annotations

from .. import core, pipeline
from . import c13, c37

LEVEL = "model_checking"
OPS = ["step", "keyarray", "reset"]
PROPS = ("ResetSelected", "KeyframeOK")


def sap_row_xml(n=14):
  """Free spheres in a row perpendicular to the SAP sweep axis (all projections overlap: many sweep candidates), resting on a plane,
  sleeping enabled; keyframe 1 sends one sphere into its neighbour, keyframe 0 is at rest (the world falls asleep)."""
  import numpy as np

  u = np.array([0.7790, -0.5935, 0.0])
  u /= np.linalg.norm(u)
  bodies = "".join(f'<body name="s{i}" pos="{0.25 * i * u[0]:.5f} {0.25 * i * u[1]:.5f} 0.0995"><freejoint/><geom type="sphere" size="0.1" mass="1"/></body>' for i in range(n))
  q0 = " ".join(f"{0.25 * i * u[0]:.5f} {0.25 * i * u[1]:.5f} 0.0995 1 0 0 0" for i in range(n))
  v1 = " ".join((f"{-u[0]:.5f} {-u[1]:.5f} 0 0 0 0" if i == 4 else "0 0 0 0 0 0") for i in range(n))
  return f"""<mujoco><option timestep="0.005"><flag sleep="enable"/></option>
  <worldbody><geom name="floor" type="plane" size="10 10 .1"/>{bodies}</worldbody>
  <keyframe><key name="rest" qpos="{q0}"/><key name="hit" qpos="{q0}" qvel="{v1}"/></keyframe></mujoco>"""


def run(ctx: core.Ctx):
  ctx.rule = ("TLC -simulate behaviours of Pipeline.tla over 3 worlds with DIFFERENT controls / keyframes / resets per world, depth 7, 3 models; each "
              "world is compared bitwise after every action with the same term simulated ALONE (nworld=1) and with the same term at a different batch "
              "position of a 3-world reference; non-trivial = worlds have pairwise different terms at some point")
  ctx.tlc("MC_ContactBuf", "MC_ContactBuf_nosleep.cfg", timeout=900)  # WorldIsolation of the shared contact buffer, all interleavings
  mods = dict(c37.models())
  mods["constraints.xml"] = "/repo/mujoco_warp/test_data/constraints.xml"  # nv=50 dense Newton: the tiled solver path
  for tag, opts in (("alone", {"ref_nworld": 1}), ("shifted", {"ref_shift": 1})):
    c13.run_generic(ctx, OPS, PROPS, {f"{k}/{tag}": v for k, v in mods.items()}, depth=7, nbeh_quick=25, nbeh_thorough=300, opts=opts)
  # long quiet stretches with sleeping enabled and the sweep-and-prune broadphases (work packages of one kernel span worlds)
  row = sap_row_xml()
  long_models = {"sap_row/tile": (row, {"opt.broadphase": "sap_tile"}), "sap_row/segmented": (row, {"opt.broadphase": "sap_segmented"}), "sap_row/nxn": row}
  c13.run_generic(ctx, ["stepn", "keyarray", "step"], PROPS, {f"{k}/alone": v for k, v in long_models.items()}, depth=6, nbeh_quick=5, nbeh_thorough=40,
                  opts={"ref_nworld": 1, "tol": 1e-4})
  # the same scene driven only by keyframe assignment and long runs: one world asleep while its neighbours in the batch collide
  c13.run_generic(ctx, ["keyarray", "stepn"], PROPS, {"sap_row/tile/long": (row, {"opt.broadphase": "sap_tile"})}, depth=6, nbeh_quick=10, nbeh_thorough=60,
                  opts={"ref_nworld": 1, "tol": 1e-4})
  ctx.assumptions += ["no overflow bit in these scenes; sleeping enabled only in the sap_row scenes",
                      "sap_row scenes (nv=84, sparse Newton) are compared at 1e-4 instead of bitwise: solver._jtdaj_groups_per_world partitions the Hessian "
                      "assembly by a function of nworld, so the order of its atomic sums - and the last bits of qacc - depend on the batch size (F14)"]


def replay(ctx, scen):
  run(ctx)


META = {
  "text": "TLC checks WorldIsolation on the shared contact-buffer model (all interleavings) and generates Pipeline.tla behaviours in which the worlds of "
          "a batch receive different controls, keyframes and resets; after every action each world's integration state and contacts must equal, "
          "bitwise, the same term simulated alone (nworld=1) and at another batch position.",
  "note": "batches of 3; comparison is bitwise (CPU); overflow-free scenes; sleeping enabled in the sweep-and-prune row scenes only",
  "technique": "TLA+ (Pipeline.tla, ContactBuf.tla) model-checked with TLC + spec->code behaviour replay against single-world references",
}
