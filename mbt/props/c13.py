"""C13  reset_data restores a fresh Data  (Pipeline.tla: ResetData)."""

from __future__ import annotations

from .. import core, pipeline

LEVEL = "model_checking"
OPS = ["step", "reset"]
PROPS = ("ResetSelected", "ResetContactsOK")
PID = "C13"


def _replay_chunk(args):
  """worker: replay a chunk of behaviours; returns list of violations (key, msg, scenario) and counts."""
  xml, nworld, behs, pidkey = args[:4]
  opts = dict(args[4]) if len(args) > 4 else {}

  class Sink:
    def __init__(self):
      self.v = []

    def violation(self, key, msg, scen=None):
      self.v.append((key, msg, scen))

  s = Sink()
  hopts = {k: opts.pop(k) for k in ("ref_nworld", "ref_shift") if k in opts}
  h = pipeline.Harness(xml, nworld, **hopts)
  for b in behs:
    pipeline.replay(s, h, b, pidkey, **opts)
  return s.v


def run_generic(ctx, ops, props, models, depth, nbeh_quick, nbeh_thorough, nworld=3, opts=None):
  ctx.tlc("MC_Pipeline", "MC_Pipeline.cfg", timeout=900)
  if not ctx.quick:
    r = ctx.tlc("MC_Pipeline", "MC_Pipeline_asfound.cfg", timeout=900, allow_violation=True)
    ctx.extra["design_flaw_demo"] = {"cfg": "MC_Pipeline_asfound.cfg (reset re-tags cleared contacts to world 0 / zeroes the global counter)", "tlc_violates": r.violated}
  nbeh = nbeh_quick if ctx.quick else nbeh_thorough
  work = []
  for name, xml in models.items():
    import mujoco

    x0 = xml[0] if isinstance(xml, (tuple, list)) else xml
    nkey = (mujoco.MjModel.from_xml_string(x0) if x0.lstrip().startswith("<") else mujoco.MjModel.from_xml_path(x0)).nkey
    r = ctx.tlc("Gen_Pipeline", "Gen_Pipeline.cfg", gen=pipeline.gen_cfg(nworld, nkey, [0, 1, 2], depth + 1, ops, props=props),
                workers=1, simulate=f"num={nbeh}", depth=depth, seed=(ctx.seed + len(work)) % (1 << 30), timeout=900)
    behs = r.emit("beh")
    seen = set()
    uniq = []
    for b in behs:
      k = core.jhash([x["op"] for x in b])
      if k not in seen:
        seen.add(k)
        uniq.append(b)
    for b in uniq:
      ops_ = [x["op"] for x in b]
      ctx.case({"model": name, "ops": ops_[:5]}, nontrivial=any(o["kind"] in ("reset", "keyarray", "keyscalar", "copy", "step12") for o in ops_), key=(name, ops_))
    ctx.traces_validated += len(uniq)
    CH = max(1, len(uniq) // 14 + 1)
    for i in range(0, len(uniq), CH):
      work.append((xml, nworld, uniq[i : i + CH], {"model": name}, opts or {}))
  for vs in core.pmap(_replay_chunk, work, nproc=14):
    for key, msg, scen in vs:
      ctx.violation(key, msg, scen)


def models():
  return {"rich": pipeline.RICH_XML}


def run(ctx: core.Ctx):
  ctx.rule = ("TLC -simulate behaviours of Pipeline.tla (ops: step with per-world controls, reset_data with every mask / None, forward) over 3 worlds, "
              "depth 7; distinct = distinct op sequence; non-trivial = contains a reset; after EVERY action every world's integration state "
              "(get_state INTEGRATION incl. history) is compared bitwise with the reference evaluation of its term on a fresh Data and its "
              "reported contacts with the reference / its pre-reset snapshot")
  run_generic(ctx, OPS, PROPS, models(), depth=7, nbeh_quick=60, nbeh_thorough=600)
  ctx.assumptions += ["reference = fresh make_data (or mj_resetDataKeyframe+put_data) running the same term in a batch of the same size"]


def replay(ctx, scen):
  run(ctx)


META = {
  "text": "TLC checks Pipeline.tla (reset semantics incl. the shared contact buffer; the as-found buffer handling is shown to violate "
          "NoPhantom/ResetContactsOK) and generates behaviours of step/reset/forward over 3 worlds; each is replayed through the public API and "
          "after every action each world's integration state (incl. act, history) and reported contacts are compared with a fresh-Data "
          "evaluation of the world's term.",
  "note": "one rich model (free body in contact, hinge chain, delays, filter + user activation with na>nu, mocap, equality, userdata, keyframes); sleeping disabled",
  "technique": "TLA+ API state machine (Pipeline.tla) model-checked with TLC + spec->code behaviour replay against a term-evaluating reference",
}
