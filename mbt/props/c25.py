"""C25  Solver termination is correctly reported and transparent  (Solver.tla + SolverTrace.tla trace validation)."""

from __future__ import annotations

import json
import os
import tempfile

import numpy as np

from .. import core, tlc
from ..scenes import rows_scene

LEVEL = "model_checking"


def scenes():
  """Batches whose worlds converge at different iterations: world states differ (lifted vs resting spheres, different velocities)."""
  out = {}
  out["contacts_pyr_newton"] = rows_scene([3, 3, 4], hinges=2, hinge_limit=True, hinge_friction=True, cone="pyramidal", solver="Newton")
  out["contacts_ell_newton"] = rows_scene([3, 6, 1], connects=1, hinges=1, hinge_friction=True, cone="elliptic", solver="Newton")
  out["contacts_pyr_cg"] = rows_scene([3, 3, 3], welds=1, hinges=2, hinge_limit=True, cone="pyramidal", solver="CG")
  out["contacts_ell_cg_sparse"] = rows_scene([4, 3], connects=1, hinges=2, jointeqs=1, cone="elliptic", solver="CG", jacobian="sparse")
  out["sparse_newton"] = rows_scene([3, 3, 3], connects=1, welds=1, hinges=2, hinge_limit=True, hinge_friction=True, jacobian="sparse", chain=3)
  return out


def _record_chunk(args):
  """worker: run forward() under the recorder for (scene, iterations, tolerance, graph_conditional); returns traces and result hashes."""
  import mujoco
  import warp as wp

  import mujoco_warp as mjw
  from mujoco_warp._src import solver as S
  from mujoco_warp._src.types import OverflowType

  name, xml, limit, tol, seed = args
  mjm = mujoco.MjModel.from_xml_string(xml)
  mjm.opt.iterations = limit
  mjm.opt.tolerance = tol
  nworld = 4
  rng = np.random.default_rng(seed)
  # world 0: rest pose (few active rows), others: perturbed (more iterations); world 3 = world 1 (identical worlds must agree)
  q = np.tile(mjm.qpos0, (nworld, 1))
  v = np.zeros((nworld, mjm.nv))
  for w in (1, 2):
    v[w] = rng.uniform(-2, 2, size=mjm.nv)
    for j in range(mjm.njnt):
      if mjm.jnt_type[j] == mujoco.mjtJoint.mjJNT_FREE:
        q[w, mjm.jnt_qposadr[j] + 2] += rng.uniform(-0.03, 0.2)
      elif mjm.jnt_type[j] in (mujoco.mjtJoint.mjJNT_HINGE, mujoco.mjtJoint.mjJNT_SLIDE):
        q[w, mjm.jnt_qposadr[j]] += rng.uniform(-0.5, 0.5)
  q[3], v[3] = q[1], v[1]
  results = {}
  traces = []
  for cond in (True, False):
    m = mjw.put_model(mjm)
    m.opt.graph_conditional = cond
    d = mjw.make_data(mjm, nworld=nworld)
    wp.copy(d.qpos, wp.array(q.astype(np.float32), dtype=float))
    wp.copy(d.qvel, wp.array(v.astype(np.float32), dtype=float))
    ev = []
    dd = d
    orig = S._solver_iteration

    def snap(ctx):
      return {"done": [bool(x) for x in ctx.done.numpy()], "niter": [int(x) for x in dd.solver_niter.numpy()],
              "bit": [bool(x & int(OverflowType.ITERATIONS)) for x in dd.overflow.numpy()]}

    def res(ctx):
      return [dd.qacc.numpy().copy(), dd.efc.force.numpy().copy(), dd.qfrc_constraint.numpy().copy()]

    def wrapper(m=None, d=None, ctx=None, nsolving=None, compact=False):
      m_, d_ = m, d
      if not ev:
        s0 = snap(ctx)
        s0.update(nsolving=int(nsolving.numpy()[0]), conv=[False] * nworld, changed=[False] * nworld)
        ev.append(s0)
      before = res(ctx)
      orig(m_, d_, ctx, nsolving, compact=compact)
      s1 = snap(ctx)
      # independent recomputation of the tolerance test from the solver context (the kernel's formula: value / (meaninertia * nv))
      mean = m_.stat.meaninertia.numpy()
      tolv = m_.opt.tolerance.numpy()
      imp = ctx.improvement.numpy().astype(np.float32)
      gd = ctx.grad_dot.numpy().astype(np.float32)
      conv = []
      for w in range(nworld):
        scale = np.float32(mean[w % len(mean)]) * np.float32(m_.nv)
        c = (imp[w] / scale < tolv[w % len(tolv)]) or (np.sqrt(gd[w]) / scale < tolv[w % len(tolv)])
        if int(m_.opt.solver) == 2:  # Newton: model improvement as well
          nd = ctx.newton_decrement.numpy().astype(np.float32)
          c = c or (np.float32(0.5) * nd[w] / scale < tolv[w % len(tolv)])
        conv.append(bool(c))
      after = res(ctx)
      s1.update(nsolving=int(nsolving.numpy()[0]), conv=conv,
                changed=[bool(any(not np.array_equal(a[w], b[w], equal_nan=True) for a, b in zip(before, after))) for w in range(nworld)])
      ev.append(s1)

    S._solver_iteration = wrapper
    try:
      mjw.forward(m, d)
    finally:
      S._solver_iteration = orig
    if not ev:  # limit 0 in fixed mode: no iteration at all
      ev.append({"done": [False] * nworld, "niter": [int(x) for x in d.solver_niter.numpy()],
                 "bit": [bool(x & int(OverflowType.ITERATIONS)) for x in d.overflow.numpy()], "nsolving": nworld, "conv": [False] * nworld, "changed": [False] * nworld})
    traces.append({"limit": int(limit), "cond": bool(cond), "ev": ev, "scene": name, "tol": tol})
    results[cond] = (d.qacc.numpy().copy(), d.efc.force.numpy().copy(), d.solver_niter.numpy().copy(), d.overflow.numpy().copy())
  # graph_conditional on/off must give bitwise equal results per world; identical worlds (1 and 3) must agree
  problems = []
  a, b = results[True], results[False]
  for k, nm in enumerate(("qacc", "efc.force", "solver_niter", "overflow")):
    if not np.array_equal(a[k], b[k], equal_nan=True):
      problems.append(("graph_conditional on/off results differ", nm))
  for cond in (True, False):
    r = results[cond]
    if not (np.array_equal(r[0][1], r[0][3]) and r[2][1] == r[2][3]):
      problems.append(("identical worlds of one batch got different results", f"cond={cond}"))
  return traces, problems


def validate(ctx, traces):
  fd, path = tempfile.mkstemp(suffix=".json", dir=os.path.join(tlc.VERIF, ".cache", "tlc"))
  with os.fdopen(fd, "w") as f:
    json.dump([{"limit": t["limit"], "cond": t["cond"], "ev": t["ev"]} for t in traces], f)
  try:
    r = ctx.tlc("SolverTrace", "SolverTrace.cfg", env={"TRACE_FILE": path}, workers=1, allow_violation=True, timeout=900)
  finally:
    os.unlink(path)
  bad = r.emit("bad")[0]["bad"] if r.emit("bad") else {}
  if isinstance(bad, list):  # a TLA+ function with domain 1..n is serialised as an array
    bad = {str(i + 1): c for i, c in enumerate(bad)}
  cov = r.emit("cov")[0] if r.emit("cov") else {}
  return bad, cov


def run(ctx: core.Ctx):
  ctx.rule = ("Solver.tla is model-checked for 3 worlds, limits 0..3, both loop modes and every convergence oracle (NiterBound, NsolvingCount, "
              "DoneFrozen, ExitCorrect: bit <=> stopped without meeting the tolerance test, Terminates). forward() is then run under a recorder on 4-world "
              "batches whose worlds need different numbers of iterations (5 scenes x iteration limits x tolerances x graph_conditional on/off): one event "
              "per _solver_iteration call with done[], niter[], ITERATIONS bit, nsolving, the tolerance test recomputed from the solver context, and "
              "bitwise-changed flags per world; TLC validates every recorded trace against Solver.tla's IterRel; on/off results compared bitwise")
  for cfg in ("MC_Solver.cfg", "MC_Solver_3_FALSE.cfg", "MC_Solver_0_TRUE.cfg", "MC_Solver_0_FALSE.cfg", "MC_Solver_1_TRUE.cfg", "MC_Solver_2_FALSE.cfg"):
    ctx.tlc("Solver", cfg, timeout=900)
  limits = (0, 1, 2, 5, 100) if ctx.quick else (0, 1, 2, 3, 5, 8, 20, 100)
  tols = (1e-8, 1e-3) if ctx.quick else (1e-10, 1e-8, 1e-5, 1e-3, 1e-1)
  work = [(n, x, lim, tol, ctx.seed + i) for i, (n, x) in enumerate(scenes().items()) for lim in limits for tol in tols]
  traces = []
  for (name, xml, lim, tol, sd), (trs, problems) in zip(work, core.pmap(_record_chunk, work, nproc=14)):
    for t in trs:
      ctx.case({"scene": name, "limit": lim, "tol": tol, "cond": t["cond"], "iterations_recorded": len(t["ev"]) - 1, "final_niter": t["ev"][-1]["niter"]},
               nontrivial=len(t["ev"]) > 1, key=(name, lim, tol, t["cond"]))
    traces += trs
    for what, detail in problems:
      ctx.violation({"what": what, "field": detail}, f"scene {name} limit {lim} tol {tol}", {"scene": name, "limit": lim, "tol": tol})
  ctx.traces_validated = len(traces)
  bad, cov = validate(ctx, traces)
  ctx.extra["trace_coverage"] = cov
  for i, clause in bad.items():
    t = traces[int(i) - 1]
    ctx.violation({"what": "recorded solver execution is not a behaviour of Solver.tla", "clause": clause},
                  f"scene {t['scene']} limit {t['limit']} tol {t['tol']} cond {t['cond']}: events {json.dumps(t['ev'])[:1500]}",
                  {"scene": t["scene"], "limit": t["limit"], "tol": t["tol"], "cond": t["cond"]})
  if not (cov.get("mixed") and cov.get("hitlimit")):
    raise RuntimeError(f"vacuous traces: {cov}")
  ctx.assumptions += ["the tolerance test is recomputed in float32 numpy from the solver context arrays (improvement, grad_dot, newton_decrement)",
                      "limit 0: no tolerance test is ever evaluated, the specification only requires niter = 0 and no bit"]


def replay(ctx, scen):
  run(ctx)


META = {
  "text": "Solver.tla models the per-world done/niter/ITERATIONS-bit protocol, the shared nsolving counter and both loop modes over an arbitrary "
          "convergence oracle; TLC proves niter <= limit, bit <=> stopped without meeting the tolerance test, converged worlds untouched, loop exit, "
          "within the bounds. Every call of solver._solver_iteration in recorded forward() runs (mixed-convergence batches) is validated by TLC "
          "against the same transition relation (SolverTrace.tla), including bitwise immutability of converged worlds; graph_conditional on/off "
          "results are compared bitwise.",
  "note": "recorder interposes on solver._solver_iteration from the harness (no repository hook); CPU emulation of capture_while",
  "technique": "TLA+ protocol spec (Solver.tla) model-checked with TLC + code->spec trace validation (SolverTrace.tla) of recorded solver iterations",
}
