"""C06  Constrained acceleration is the convex-cost optimum  (ModelFamily.tla configurations; independent optimality certificate)."""

from __future__ import annotations

import numpy as np

from .. import core, efc, family, parity
from . import c05

LEVEL = "exploration"


def compare(rec, b, mjm, mjd, m, d, cmp, opts):
  import mujoco

  import mujoco_warp as mjw

  if mjm.nv == 0:
    return "skip:nv0"
  c05.forward_both(mjm, mjd, m, d)
  ov = d.overflow.numpy()
  if ov.any() or mjd.warning.number.any():
    return "skip:overflow_or_warning"
  if mjd.solver_niter[0] >= mjm.opt.iterations:
    return "skip:reference_not_converged"
  if mjd.nefc and (np.array(mjd.efc_D).max() > 1e8 or np.linalg.cond(np.array(mjd.efc_D).reshape(1, -1) * 0 + 1) < 0):
    return "skip:ill_conditioned"  # e.g. a tendon no dof moves: invweight 0 -> D = 1e15, outside float32's reach
  got = mujoco.MjData(mjm)
  M = np.zeros((mjm.nv, mjm.nv))
  mujoco.mju_sym2dense(M, mjd.M, mjm.M_rownnz, mjm.M_rowadr, mjm.M_colind)
  J = efc.dense_J(mjm, mjd)
  aref = np.array(mjd.efc_aref)
  work = mujoco.MjData(mjm)

  def certificate(x):
    """Gauss cost and M^-1 * gradient at acceleration x, from MuJoCo's rows and MuJoCo's own constraint update."""
    mujoco.mj_copyData(work, mjm, mjd)
    cost = np.zeros((1, 1))
    if mjd.nefc:
      jar = J @ x - aref
      mujoco.mj_constraintUpdate(mjm, work, jar.reshape(-1, 1), cost, 0)
      qfc = np.array(work.qfrc_constraint)
      force = np.array(work.efc_force)
    else:
      qfc, force = np.zeros(mjm.nv), np.zeros(0)
    dx = x - mjd.qacc_smooth
    grad = M @ dx - qfc
    return float(0.5 * dx @ M @ dx + cost[0, 0]), np.linalg.solve(M, grad), force

  cost_ref, g_ref, _ = certificate(np.array(mjd.qacc))
  if cost_ref > 1e5:
    return "skip:cost_beyond_float32_resolution"  # float32 resolves the cost to 6e-8 * cost: the solver's improvement test cannot see smaller gains
  scale = max(1.0, float(np.abs(mjd.qacc).max()), float(np.abs(mjd.qacc_smooth).max()))
  for w in range(d.nworld):
    mjw.get_data_into(got, mjm, d, world_id=w)
    c05.localize_contact_ids(mjm, d, w, got)
    _, cprob = efc.match_contacts(efc.contacts(mjd), efc.contacts(got))
    if cprob:
      return "skip:contact_set_differs"
    x = np.array(got.qacc, dtype=np.float64)
    cost, g, force = certificate(x)
    # (1) agreement with mj_forward (repository tolerance for solver outputs)
    cmp.close("qacc", x, mjd.qacc, 5e-2, scale=scale)
    # (2) optimality: the scaled gradient at MJWarp's qacc is as small as the solver tolerance allows (calibrated by MuJoCo's own residual)
    res = float(np.abs(g).max())
    # float32 noise floor of the certificate: a 1e-7 relative error of qacc moves the row forces by D*J*dqacc
    noise = 0.0
    if mjd.nefc:
      Dm0 = np.array(mjd.efc_D)
      noise = float(np.abs(np.linalg.solve(M, np.abs(J).T @ (Dm0 * (1e-4 + 1e-5 * (np.abs(aref) + np.abs(J) @ np.abs(x)))))).max())
    if res > max(50.0 * float(np.abs(g_ref).max()), 0.25 * scale, 10 * noise):
      cmp.bad.append(("optimality_gradient", res, scale))
    cmp.nfields += 1
    # (3) the cost at MJWarp's qacc is not worse than at MuJoCo's beyond round-off
    if cost > cost_ref + 2e-3 * max(1.0, abs(cost_ref)) + 1e-2:
      # MJWarp minimises the cost of ITS rows, which equal MuJoCo's to float32 only (C05); where forces are large the optimum moves with them.
      # The sound form of the claim: on MJWarp's own rows (and MuJoCo's constraint update, float64) its qacc costs no more than MuJoCo's qacc does
      def own_cost(z):
        wk = mujoco.MjData(mjm)
        mujoco.mj_copyData(wk, mjm, got)
        cst = np.zeros((1, 1))
        jar = efc.dense_J(mjm, got) @ z - np.array(got.efc_aref)
        mujoco.mj_constraintUpdate(mjm, wk, jar.reshape(-1, 1), cst, 0)
        dz = z - np.array(got.qacc_smooth, dtype=np.float64)
        return float(0.5 * dz @ M @ dz + cst[0, 0])

      own_x, own_ref = own_cost(x), own_cost(np.array(mjd.qacc))
      if own_x > own_ref + 2e-3 * max(1.0, abs(own_ref)) + 1e-2:
        cmp.bad.append(("gauss_cost", own_x - own_ref, abs(own_ref)))
    cmp.nfields += 1
    # (4) reported generalized constraint force = J^T (reported row forces), rows and forces of MJWarp itself
    if got.nefc:
      Jg = efc.dense_J(mjm, got)
      fg = np.array(got.efc_force)
      cmp.close("qfrc_constraint=J^T*efc_force", got.qfrc_constraint, Jg.T @ fg, 1e-3, scale=float(np.abs(fg).max()))

def run(ctx: core.Ctx):
  ctx.rule = ("ModelFamily.tla configurations (contacts of every condim, limits, friction loss, equalities) x {Newton, CG} x {pyramidal, elliptic} x "
              "{dense, sparse, auto}: after forward(), (1) qacc vs mj_forward, (2) an independent optimality certificate: M^-1 * gradient of MuJoCo's "
              "Gauss cost (rows and mj_constraintUpdate of MuJoCo C, float64) evaluated AT MJWarp's qacc must be as small as MuJoCo's own residual "
              "allows, (3) cost not worse than at MuJoCo's optimum - on MuJoCo's rows, or else on MJWarp's own rows (float64 constraint update), (4) reported qfrc_constraint equals J^T times the reported row forces (the row-force law itself is validated under C24)")
  n = 260 if ctx.quick else 3000
  recs = c05.sample(ctx, n, seed_off=6, qclasses=("near", "zero"))
  ctx.traces_validated = len(recs)
  parity.run(ctx, __name__, "compare", recs, nworld=2, opts={"tol": 5e-3, "vscale": 0.3}, what="constrained acceleration is not the Gauss-cost optimum")
  ctx.assumptions += ["MuJoCo C rows and constraint update are the cost oracle; tolerances: qacc 5e-2 relative to max(|qacc|,|qacc_smooth|) (the repository's own solver tests use 1e-1), gradient residual "
                      "<= max(50 x MuJoCo's residual, 0.25 scale, 10 x float32 noise floor), cost within 2e-3 relative"
                      " (float32 Newton/CG stop a few percent short of the optimum on stiff problems); scenarios where MuJoCo did not converge or contact sets differ are skipped and counted"]


def replay(ctx, scen):
  rec = {"c": scen["scenario"]["cfg"]}
  for res in parity.chunk((__name__, "compare", [rec], scen.get("seed", ctx.seed), 2, {"tol": 5e-3, "vscale": 0.3})):
    ctx.case(rec)
    for name in sorted({x[0] for x in res["bad"]}):  # same keys as parity.run: one per field, class after the '@'
      fld, _, cls = name.partition("@")
      ctx.violation(dict({"what": "constrained acceleration is not the Gauss-cost optimum", "field": fld}, **({"cls": cls} if cls else {})), str([x for x in res["bad"] if x[0] == name][:5]), scen["scenario"])


META = {
  "text": "TLC (-simulate over ModelFamily.tla) generates constrained configurations across solvers, cones and Jacobian layouts; after forward() "
          "MJWarp's qacc is checked against an independent float64 optimality certificate built from MuJoCo C's rows and constraint update (gradient "
          "of the Gauss cost at MJWarp's qacc, cost comparison), against mj_forward's qacc, and its reported forces against the forces implied by it.",
  "note": "numeric property: the specification contributes the configuration space only; MuJoCo C's cost function is the oracle",
  "technique": "TLA+ model family (ModelFamily.tla) enumerated by TLC; spec->code replay with an optimality certificate computed from MuJoCo C",
}
