"""C19  Contact pair filtering follows MuJoCo's rules  (PairFilter.tla; every configuration replayed, three-way)."""

from __future__ import annotations

import numpy as np

from .. import core

LEVEL = "model_checking"


def gen(nb, ncfg, mode="sim"):
  mod = "---- MODULE Gen_PairFilter ----\nEXTENDS PairFilter\nGMasks == {0, 1, 2, 3}\n====\n"
  cfg = f"""CONSTANTS
  NB = {nb}
  Masks <- GMasks
  Mode = "{mode}"
  NCfg = {ncfg}
SPECIFICATION Spec
INVARIANT Symmetric
INVARIANT StaticNeverDynamic
INVARIANT ExplicitWins
INVARIANT EmitCfg
CHECK_DEADLOCK FALSE
"""
  return {"Gen_PairFilter.tla": mod, "Gen_PairFilter.cfg": cfg}


def build(nb, c):
  par = [None] + [c["parent"][str(b)] if isinstance(c["parent"], dict) else c["parent"][b - 1] for b in range(1, nb + 1)]
  jt = [None] + [c["jointed"][str(b)] if isinstance(c["jointed"], dict) else c["jointed"][b - 1] for b in range(1, nb + 1)]
  ct = [c["contype"][str(g)] if isinstance(c["contype"], dict) else c["contype"][g] for g in range(nb + 1)]
  ca = [c["conaffinity"][str(g)] if isinstance(c["conaffinity"], dict) else c["conaffinity"][g] for g in range(nb + 1)]
  children = {b: [x for x in range(1, nb + 1) if par[x] == b] for b in range(nb + 1)}

  def body(b):
    j = f'<joint name="j{b}" type="slide" axis="0 0 1"/>' if jt[b] else ""
    inner = j + f'<geom name="g{b}" type="sphere" size="0.1" contype="{ct[b]}" conaffinity="{ca[b]}"/>' + "".join(body(x) for x in children[b])
    return f'<body name="b{b}" pos="0.01 0 0">{inner}</body>'

  world = f'<geom name="g0" type="sphere" size="0.1" contype="{ct[0]}" conaffinity="{ca[0]}"/>' + "".join(body(b) for b in children[0])
  excl = "".join(f'<exclude body1="b{a}" body2="b{b}"/>' for a, b in c["exclude"])
  pairs = "".join(f'<pair geom1="g{a}" geom2="g{b}" condim="1" friction="0.7 0.7 0.01 0.001 0.001" margin="0.003"/>' for a, b in c["pairs"])
  fp = "" if c["filterparent"] else '<flag filterparent="disable"/>'
  return f'<mujoco><option>{fp}</option><worldbody>{world}</worldbody><contact>{excl}{pairs}</contact></mujoco>'


def _chunk(args):
  import mujoco

  import mujoco_warp as mjw

  nb, cfgs = args
  out = []
  for rec in cfgs:
    c = rec["c"]
    kinds = {(a, b): k for a, b, k in rec["kinds"] if a < b}
    xml = build(nb, c)
    mjm = mujoco.MjModel.from_xml_string(xml)
    mjd = mujoco.MjData(mjm)
    mujoco.mj_kinematics(mjm, mjd)
    mujoco.mj_collision(mjm, mjd)
    where = {"nb": nb, "cfg": c}
    allowed = {p for p, k in kinds.items() if k != "filtered"}
    mjpairs = {(int(mjd.contact.geom[i][0]), int(mjd.contact.geom[i][1])) for i in range(mjd.ncon)}
    if mjpairs != allowed:
      out.append(("MACHINERY", f"spec/MuJoCo disagree: mujoco {sorted(mjpairs)} spec {sorted(allowed)} cfg {c}", where))
      continue
    m = mjw.put_model(mjm)
    # table
    ng = nb + 1
    tab = np.asarray(m.nxn_pairid.numpy() if hasattr(m.nxn_pairid, "numpy") else m.nxn_pairid)[:, 0]
    gp = np.asarray(m.nxn_geom_pair.numpy() if hasattr(m.nxn_geom_pair, "numpy") else m.nxn_geom_pair)
    bad = []
    for idx in range(len(tab)):
      a, b = int(gp[idx][0]), int(gp[idx][1])
      k = kinds[(min(a, b), max(a, b))]
      got = "explicit" if tab[idx] >= 0 else "dynamic" if tab[idx] == -1 else "filtered"
      if got != k:
        bad.append(f"pair ({a},{b}): table says {got}, spec says {k}")
    if bad:
      out.append(({"what": "put_model pair table differs from PairFilter.tla"}, "; ".join(bad[:4]), where))
      continue
    d = mjw.make_data(mjm, nworld=2)
    mjw.kinematics(m, d)
    mjw.collision(m, d)
    nacon = int(d.nacon.numpy()[0])
    wid = d.contact.worldid.numpy()[:nacon]
    geo = d.contact.geom.numpy()[:nacon]
    for w in range(2):
      got = {(int(g[0]), int(g[1])) for g, ww in zip(geo, wid) if ww == w}
      if got != allowed:
        out.append(({"what": "reported contact pairs differ from the allowed set"}, f"world {w}: got {sorted(got)} allowed {sorted(allowed)}", where))
        break
    else:
      # explicit pairs use the pair's parameters
      dim = d.contact.dim.numpy()[:nacon]
      fr = d.contact.friction.numpy()[:nacon]
      inc = d.contact.includemargin.numpy()[:nacon]
      for i in range(nacon):
        p = (int(geo[i][0]), int(geo[i][1]))
        if kinds[p] == "explicit":
          if dim[i] != 1 or abs(fr[i][0] - 0.7) > 1e-6 or abs(inc[i] - 0.003) > 1e-6:
            out.append(({"what": "explicit pair does not use the pair's parameters"}, f"pair {p}: dim {dim[i]} friction {fr[i].tolist()} margin {inc[i]}", where))
            break
        elif dim[i] != 3:
          out.append(({"what": "dynamic pair does not use the geoms' parameters"}, f"pair {p}: dim {dim[i]}", where))
          break
  return out


def run(ctx: core.Ctx):
  ctx.rule = ("PairFilter.tla: random configurations over 3 (and 4) bodies + world: depth-first forests, jointed / welded bodies, 2-bit contype and "
              "conaffinity per geom, body-pair excludes, explicit geom pairs (with distinctive parameters), filterparent on/off; TLC evaluates the "
              "declarative rule (invariants Symmetric, StaticNeverDynamic, ExplicitWins) and emits the expected kind of every geom pair; all geoms "
              "overlap, so mj_collision (spec oracle cross-check), put_model's nxn_pairid table and mjw.collision's reported pairs and pair "
              "parameters are compared with the spec for every configuration")
  n = 250 if ctx.quick else 4000
  work = []
  for nb, share in ((3, 0.6), (4, 0.4)):
    k = int(n * share)
    r = ctx.tlc("Gen_PairFilter", "Gen_PairFilter.cfg", gen=gen(nb, k), workers=1, simulate="num=1", depth=k + 1, seed=(ctx.seed + nb) % (1 << 30), timeout=900)
    cfgs = r.emit("cfg")
    for c in cfgs:
      ctx.case({"nb": nb, "cfg": c["c"]}, nontrivial=True, key=(nb, c["c"]))
    CH = max(1, len(cfgs) // 14 + 1)
    work += [(nb, cfgs[i : i + CH]) for i in range(0, len(cfgs), CH)]
  # exhaustive structural part: every forest x jointed/welded assignment x filterparent (96 for 3 bodies, 768 for 4)
  for nb in ((3,) if ctx.quick else (3, 4)):
    r = ctx.tlc("Gen_PairFilter", "Gen_PairFilter.cfg", gen=gen(nb, 1, mode="enum"), workers=1, timeout=900)
    cfgs = r.emit("cfg")
    def rootpath_count(n):
      import itertools
      cnt = 0
      for par in itertools.product(range(n + 1), repeat=n):
        ok = True
        for b in range(1, n + 1):
          pb = par[b - 1]
          if pb == 0:
            continue
          if b == 1:
            ok = False
            break
          path, x = set(), b - 1
          while x:
            path.add(x)
            x = par[x - 1]
          if pb not in path:
            ok = False
            break
        cnt += ok
      return cnt
    if len(cfgs) != rootpath_count(nb) * (2 ** nb) * 2:
      raise RuntimeError(f"enumeration of PairFilter structures for {nb} bodies gave {len(cfgs)} configurations")
    for c in cfgs:
      ctx.case({"nb": nb, "cfg": c["c"]}, nontrivial=True, key=(nb, c["c"]))
    CH = max(1, len(cfgs) // 14 + 1)
    work += [(nb, cfgs[i : i + CH]) for i in range(0, len(cfgs), CH)]
  ctx.traces_validated = ctx.evaluations
  for res in core.pmap(_chunk, work, nproc=14):
    for key, msg, scen in res:
      if key == "MACHINERY":
        raise RuntimeError(msg)
      ctx.violation(key, msg, scen)
  ctx.assumptions += ["one sphere geom per body, all overlapping; masks are 2-bit; MuJoCo C cross-checks the specification on every configuration"]


def replay(ctx, scen):
  run(ctx)


META = {
  "text": "PairFilter.tla states the pair-filtering rule declaratively (explicit pair, or contype/conaffinity test and different weld bodies and "
          "not weld-parent/child unless filterparent is disabled and not excluded); TLC evaluates it on generated forests/masks/excludes/pairs and "
          "emits the expected kind of every geom pair. Each configuration is concretised with all geoms overlapping: put_model's pair table and "
          "mjw.collision's reported pairs and parameters must equal the spec (which MuJoCo C must also reproduce).",
  "note": "configurations are TLC -simulate samples (3-4 bodies); spec validated against mj_collision on every configuration",
  "technique": "TLA+ rule spec (PairFilter.tla) evaluated by TLC + one implementation test per TLC-emitted configuration, three-way with MuJoCo C",
}
