"""C37  Pipeline stages compose consistently  (Pipeline.tla: Step12, Forward)."""

from __future__ import annotations

from .. import core, pipeline
from ..scenes import rows_scene
from . import c13

LEVEL = "model_checking"
OPS = ["step", "step12", "forward"]
PROPS = ("ForwardKeepsState",)


def models():
  eq = rows_scene([3, 3, 3], connects=1, welds=1, hinges=2, hinge_limit=True, hinge_friction=True, jointeqs=1, chain=2)
  eq = eq.replace("</worldbody>", "</worldbody><actuator><motor joint='jh0'/><position joint='jh1' kp='5'/></actuator>")
  imp = pipeline.RICH_XML.replace('<option timestep="0.005"/>', '<option timestep="0.005" integrator="implicitfast"/>')
  adh = """<mujoco><option timestep="0.005"/><worldbody><geom name="floor" type="plane" size="5 5 .1"/>
    <body name="pad" pos="0 0 0.048"><joint name="z" type="slide" axis="0 0 1"/><joint name="y" type="hinge" axis="0 1 0"/>
      <geom name="p1" type="sphere" size="0.05" pos="-0.1 0 0" mass="0.3" margin="0.01" gap="0.01"/><geom name="p2" type="sphere" size="0.05" pos="0.1 0 0" mass="0.3" margin="0.01" gap="0.01"/></body>
    <body name="box" pos="1 0 0.099"><freejoint/><geom type="box" size="0.1 0.1 0.1" mass="1"/></body></worldbody>
    <actuator><adhesion name="adh" body="pad" ctrlrange="0 1" gain="40"/><motor joint="z" gear="5"/><adhesion name="adh2" body="box" ctrlrange="0 1" gain="10"/></actuator>
    <keyframe><key name="k0" qpos="0.02 0.1 0 0 0.3 1 0 0 0" ctrl="0.5 0 0.2"/></keyframe></mujoco>"""
  return {"rich": pipeline.RICH_XML, "rich_implicitfast": imp, "equalities": eq, "adhesion": adh}


def run(ctx: core.Ctx):
  ctx.rule = ("TLC -simulate behaviours of Pipeline.tla (ops: step, step1;step2, forward) over 3 worlds with per-world controls, depth 6, on 3 models "
              "(Euler rich, implicitfast rich, moving connect/weld/joint equalities); after every action the integration state is compared bitwise with "
              "the reference (which uses step()), and every forward is immediately repeated and its outputs compared bitwise")
  c13.run_generic(ctx, OPS, PROPS, models(), depth=6, nbeh_quick=40, nbeh_thorough=400, opts={"check_forward_twice": True})


def replay(ctx, scen):
  run(ctx)


META = {
  "text": "TLC checks Pipeline.tla (step1;step2 = step on terms, forward keeps the term) and generates behaviours mixing step, step1;step2 and "
          "forward over 3 worlds; replayed on Euler and implicitfast models: state after step1;step2 must equal the reference step() bitwise, "
          "forward() must leave get_state(INTEGRATION) unchanged, and a repeated forward() must reproduce all outputs bitwise.",
  "note": "three models; Euler and implicitfast integrators; sleeping disabled",
  "technique": "TLA+ API state machine (Pipeline.tla) model-checked with TLC + spec->code behaviour replay",
}
