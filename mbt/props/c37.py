"""C37  Pipeline stages compose consistently  (Pipeline.tla: Step12, Forward)."""

from __future__ import annotations

from .. import core, pipeline
from ..scenes import rows_scene
from . import c13

LEVEL = "model_checking"
OPS = ["step", "step12", "forward"]
PROPS = ("ForwardKeepsState",)


def models():
  eq = rows_scene([3, 3, 3], connects=1, welds=1, hinges=2, hinge_limit=True, hinge_friction=True, jointeqs=1, chain=2)
  eq = eq.replace("</worldbody>", "</worldbody><actuator><motor joint='jh0'/><position joint='jh1' kp='5'/></actuator>")
  imp = pipeline.RICH_XML.replace('<option timestep="0.005"/>', '<option timestep="0.005" integrator="implicitfast"/>')
  return {"rich": pipeline.RICH_XML, "rich_implicitfast": imp, "equalities": eq}


def run(ctx: core.Ctx):
  ctx.rule = ("TLC -simulate behaviours of Pipeline.tla (ops: step, step1;step2, forward) over 3 worlds with per-world controls, depth 6, on 3 models "
              "(Euler rich, implicitfast rich, moving connect/weld/joint equalities); after every action the integration state is compared bitwise with "
              "the reference (which uses step()), and every forward is immediately repeated and its outputs compared bitwise")
  c13.run_generic(ctx, OPS, PROPS, models(), depth=6, nbeh_quick=40, nbeh_thorough=400, opts={"check_forward_twice": True})


def replay(ctx, scen):
  run(ctx)


META = {
  "text": "TLC checks Pipeline.tla (step1;step2 = step on terms, forward keeps the term) and generates behaviours mixing step, step1;step2 and "
          "forward over 3 worlds; replayed on Euler and implicitfast models: state after step1;step2 must equal the reference step() bitwise, "
          "forward() must leave get_state(INTEGRATION) unchanged, and a repeated forward() must reproduce all outputs bitwise.",
  "note": "three models; Euler and implicitfast integrators; sleeping disabled",
  "technique": "TLA+ API state machine (Pipeline.tla) model-checked with TLC + spec->code behaviour replay",
}
