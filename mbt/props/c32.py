"""C32  Disable and enable flags act exactly as in MuJoCo  (Flags.tla: per-flag contribution table; subsets vs mj_step)."""

from __future__ import annotations

import numpy as np

from .. import core, efc, family
from . import c10

LEVEL = "model_checking"

OBSV = ["qfrc_spring", "qfrc_damper", "qfrc_gravcomp", "qfrc_passive", "qfrc_bias", "actuator_force", "qfrc_actuator", "act_dot", "qacc_smooth", "qacc", "sensordata", "energy"]


def gen(n):
  mod = "---- MODULE Gen_Flags ----\nEXTENDS Flags\n====\n"
  cfg = f"CONSTANTS\n  Mode = \"sim\"\n  NCfg = {n}\nSPECIFICATION Spec\nINVARIANT TypeOK\nINVARIANT EmitCfg\n"
  return {"Gen_Flags.tla": mod, "Gen_Flags.cfg": cfg}


def with_flags(xml, dis, en):
  import re

  flag = "<flag " + " ".join(f'{f}="disable"' for f in sorted(dis)) + " " + " ".join(f'{f}="enable"' for f in sorted(en)) + "/>"
  return re.sub(r"<flag [^>]*/>", flag, xml, count=1)


def observe(mjw, mujoco, mjm, m, d):
  mjw.forward(m, d)
  o = {k: getattr(d, k).numpy()[0].astype(np.float64).copy() for k in OBSV}
  got = mujoco.MjData(mjm)
  mjw.get_data_into(got, mjm, d, world_id=0)
  T = mujoco.mjtConstraint
  kinds = {"equality": (int(T.mjCNSTR_EQUALITY),), "friction": (int(T.mjCNSTR_FRICTION_DOF), int(T.mjCNSTR_FRICTION_TENDON)),
           "limit": (int(T.mjCNSTR_LIMIT_JOINT), int(T.mjCNSTR_LIMIT_TENDON)),
           "contact": (int(T.mjCNSTR_CONTACT_FRICTIONLESS), int(T.mjCNSTR_CONTACT_PYRAMIDAL), int(T.mjCNSTR_CONTACT_ELLIPTIC))}
  J = efc.dense_J(mjm, got)
  for k, ts in kinds.items():
    sel = np.isin(got.efc_type, ts)
    o["rows:" + k] = np.concatenate([J[sel].ravel(), np.array(got.efc_pos)[sel]])
  o["aref"] = np.array(got.efc_aref)
  o["D"] = np.array(got.efc_D)
  o["contacts"] = np.array(sorted((int(got.contact.geom[i][0]), int(got.contact.geom[i][1])) for i in range(got.ncon))).ravel()
  return o


def _chunk(args):
  import mujoco
  import warp as wp

  import mujoco_warp as mjw

  cfgs, seed = args
  base = c10.SCENE.replace('<flag energy="enable"/>', "<flag />").replace('cone="elliptic"', 'cone="pyramidal"')
  out = []
  for c in cfgs:
    rng = family.rng_for(c, seed, "flags")  # the state belongs to the configuration (replayable), not to its place in the chunk
    dis, en, tg = set(c["dis"]), set(c["en"]), c["toggle"]
    integ = c.get("integrator", "Euler")
    where = {"disable": sorted(dis), "enable": sorted(en), "toggle": tg, "integrator": integ}
    # ---- (a) the whole subset against MuJoCo C, one step from a random state
    scene = base
    if integ != "Euler":
      scene = scene.replace('<option timestep="0.004"', f'<option integrator="{integ}" timestep="0.004"')
    if integ in ("implicit", "implicitfast"):
      # leave out what the implicit integrators are known to treat differently (findings F21 muscle, F32 fluid, F22 free/ball under implicitfast)
      scene = scene.replace('density="1.2" viscosity="0.01" wind="0.5 0 0.2"', "").replace(' fluidshape="ellipsoid"', "")
      scene = scene.replace('<muscle name="am" tendon="tf" lengthrange="-0.5 0.5"/>', '<motor name="am" tendon="tf" gear="0.3"/>')
    xml = with_flags(scene, dis, en)
    mjm = mujoco.MjModel.from_xml_string(xml)
    mjd = mujoco.MjData(mjm)
    m = mjw.put_model(mjm)
    d = mjw.make_data(mjm, nworld=1, nconmax=64, njmax=256)
    st = {"qpos": mjm.qpos0.copy(), "qvel": rng.uniform(-0.5, 0.5, size=mjm.nv), "ctrl": rng.uniform(-1.5, 1.5, size=mjm.nu), "act": rng.uniform(-0.3, 0.3, size=mjm.na)}
    st["qpos"][7] += 0.5  # the arm's hinge beyond its limit
    family.apply_state(mjm, mjd, m, d, st)
    if integ == "implicitfast":
      # F22: MuJoCo's implicitfast keeps a Coriolis-derivative term for free / ball joints: start those joints at rest
      st["qvel"][:6] = 0.0
      st["qvel"][mjm.jnt_dofadr[mjm.joint("b").id] : mjm.jnt_dofadr[mjm.joint("b").id] + 3] = 0.0
      family.apply_state(mjm, mjd, m, d, st)
    mujoco.mj_step(mjm, mjd)
    mjw.step(m, d)
    if d.overflow.numpy().any():
      raise RuntimeError(f"capacity overflow in the flag scene ({d.overflow.numpy().tolist()}): the comparison would be meaningless")
    sc = max(1.0, float(np.abs(mjd.qacc).max()) * mjm.opt.timestep * 2)
    for f, tol in (("qpos", 1e-3), ("qvel", 5e-4), ("act", 1e-5), ("sensordata", 5e-3), ("energy", 1e-4)):
      g, r = getattr(d, f).numpy()[0], np.asarray(getattr(mjd, f))
      s = max(1.0, float(np.abs(r).max()) if r.size else 1.0, sc if f in ("qvel", "sensordata") else 0.0)
      if r.size and float(np.abs(g - r).max()) > tol * s:
        i_ = int(np.argmax(np.abs(g - r)))
        out.append(({"what": "step with these flags differs from mj_step", "field": f}, f"{f}: err {float(np.abs(g - r).max()):.3g} scale {s:.3g} at index {i_}; contacts {int(d.nacon.numpy()[0])} vs {mjd.ncon}, "
                    f"rows {int(d.nefc.numpy()[0])} vs {mjd.nefc}", dict(where, state={k: np.asarray(v).tolist() for k, v in st.items()})))
        break
    # ---- (b) toggling ONE flag changes only what Flags.tla allows
    on = (dis | {tg}) if tg in ("constraint", "equality", "frictionloss", "limit", "contact", "spring", "damper", "gravity", "clampctrl", "warmstart", "filterparent",
                                 "actuation", "refsafe", "sensor", "eulerdamp") else dis
    en_on = (en | {tg}) if tg in ("energy", "invdiscrete") else en
    off, en_off = dis - {tg}, en - {tg}
    obs = []
    for dd, ee in ((off, en_off), (on, en_on)):
      mm = mujoco.MjModel.from_xml_string(with_flags(scene, dd, ee))
      m2 = mjw.put_model(mm)
      d2 = mjw.make_data(mm, nworld=1, nconmax=64, njmax=256)
      family.apply_state(mm, mujoco.MjData(mm), m2, d2, st)
      obs.append(observe(mjw, mujoco, mm, m2, d2))
    allowed = set(c["maychange"])
    for k in obs[0]:
      a, b_ = obs[0][k], obs[1][k]
      changed = a.shape != b_.shape or not np.allclose(a, b_, rtol=1e-5, atol=1e-6, equal_nan=True)
      if changed and k not in allowed:
        out.append(({"what": "a flag changes a quantity it does not own", "flag": tg, "field": k}, f"toggling {tg} on top of disable={sorted(off)} changed {k}", where))
        break
  return out


def run(ctx: core.Ctx):
  ctx.rule = ("Flags.tla lists the 15 disable + 2 enable flags and, per flag, the set of forward() quantities its toggling may change; TLC -simulate "
              "emits (base subset, flag to toggle) pairs. For each: (a) one step() of a scene exercising every tagged contribution (contacts, "
              "limits, friction loss, equalities, springs, dampers, gravity compensation, clamped actuators with dynamics, sensors, energy) with the "
              "whole subset vs mj_step with the same flags; (b) forward() with and without the toggled flag: every quantity outside the flag's "
              "MayChange set must be unchanged")
  n = 200 if ctx.quick else 3000
  r = ctx.tlc("Gen_Flags", "Gen_Flags.cfg", gen=gen(n), workers=1, simulate="num=1", depth=n + 1, seed=ctx.seed % (1 << 30), timeout=900)
  cfgs = r.emit("cfg")
  for c in cfgs:
    ctx.case({"disable": c["dis"], "enable": c["en"], "toggle": c["toggle"]}, key=(c["dis"], c["en"], c["toggle"]))
  ctx.traces_validated = len(cfgs)
  CH = max(1, len(cfgs) // 14 + 1)
  for res in core.pmap(_chunk, [(cfgs[i : i + CH], ctx.seed + i) for i in range(0, len(cfgs), CH)], nproc=14):
    for key, msg, scen in res:
      ctx.violation(key, msg, scen)
  ctx.assumptions += ["one scene (C10's), pyramidal cone; MuJoCo C is the oracle for (a); tolerances as C08"]


def replay(ctx, scen):
  run(ctx)


META = {
  "text": "Flags.tla holds, per disable/enable flag, the set of pipeline quantities it owns; TLC generates flag subsets and a flag to toggle. Each "
          "subset is stepped against mj_step with the same flags, and toggling one flag on the real code must leave every quantity outside its "
          "owned set unchanged (each flag removes or adds exactly its own contribution).",
  "note": "one rich scene; subsets sampled by TLC -simulate (2^17 subsets exist)",
  "technique": "TLA+ flag/contribution table (Flags.tla) sampled by TLC + spec->code replay (ownership check on the real outputs, MuJoCo C for whole subsets)",
}
