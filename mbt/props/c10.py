"""C10  Per-world model parameters take effect only in their world  (Batch.tla; every batchable field replayed)."""

from __future__ import annotations

import dataclasses
import typing

import numpy as np

from .. import core

LEVEL = "model_checking"

SCENE = """<mujoco>
  <option timestep="0.004" density="1.2" viscosity="0.01" wind="0.5 0 0.2" impratio="2" cone="elliptic"><flag energy="enable"/></option>
  <default><geom solmix="1"/></default>
  <worldbody>
    <geom name="floor" type="plane" size="5 5 .1" friction="0.8 0.01 0.001" margin="0.002"/>
    <light name="l0" pos="0 0 3" dir="0 0 -1" mode="trackcom"/>
    <camera name="c0" pos="0 -2 1" mode="track"/>
    <body name="box" pos="0 0 0.098" gravcomp="0.2">
      <freejoint/>
      <geom name="gbox" type="box" size="0.1 0.1 0.1" mass="1" friction="0.9 0.02 0.002" margin="0.003" gap="0.001" solref="0.015 1.1" solimp="0.5 0.55 0.1 0.5 2"/>
      <site name="sb" pos="0.05 0 0.1"/>
    </body>
    <body name="arm" pos="1 0 0.6">
      <joint name="h" type="hinge" axis="0 1 0" damping="0.2 0.05" stiffness="2 0.5 0.1" armature="0.05" frictionloss="0.1" solimpfriction="0.5 0.55 0.1 0.5 2" limited="true" range="0.05 0.4" margin="0.01"
             solreflimit="0.03 1" solimplimit="0.5 0.55 0.1 0.5 2" springref="0.1" actuatorfrclimited="true" actuatorfrcrange="-3 3"/>
      <geom name="garm" type="capsule" fromto="0 0 0 0.3 0 0" size="0.03" mass="0.5"/>
      <site name="sa" pos="0.4 0 0"/>
      <camera name="c1" pos="0.1 0 0.1"/><camera name="c2" pos="0.3 -0.5 0.4" mode="trackcom"/>
      <body name="fore" pos="0.4 0 0">
        <joint name="h2" type="slide" axis="0 0 1" damping="0.1" limited="true" range="-0.05 0.05"/>
        <geom name="gfore" type="ellipsoid" size="0.05 0.03 0.04" mass="0.3" fluidshape="ellipsoid"/>
        <geom name="gfs" type="sphere" size="0.04" pos="-0.08 0 0" mass="0.05"/>
        <site name="sf" pos="0 0 0.05"/>
      </body>
    </body>
    <body name="ball" pos="-0.6 0 0.5"><joint name="b" type="ball" damping="0.05"/><geom name="gball" type="sphere" size="0.07" pos="0.1 0 0" mass="0.4"/><site name="sball" pos="0.1 0 0"/></body>
    <body name="box2" pos="0 1 0.0533" gravcomp="1"><freejoint/><geom name="gbox2" type="box" size="0.05 0.05 0.05" mass="0.3" contype="0" conaffinity="0"/></body>
    <body name="box3" pos="0 2 0.05465" gravcomp="1"><freejoint/><geom name="gbox3" type="box" size="0.05 0.05 0.05" mass="0.3" contype="0" conaffinity="0"/></body>
    <body name="hover" pos="1 1 0.05625" gravcomp="1"><freejoint/><geom name="ghover" type="sphere" size="0.05" mass="0.2" margin="0.003" gap="0.001" solmix="2" solimp="0.8 0.9 0.003 0.4 2"/></body>
    <body name="off" pos="-1 1 0.3"><joint name="ho" type="hinge" axis="0 1 0" pos="0.02 0 0.05" damping="0.05"/><geom name="goff" type="capsule" size="0.03 0.1" pos="0.05 0 -0.16" euler="0 20 0" mass="0.3"/></body>
    <body name="mc" mocap="true" pos="-0.6 0 0.9"><geom type="sphere" size="0.02" contype="0" conaffinity="0"/></body>
  </worldbody>
  <tendon>
    <spatial name="ts" stiffness="5" damping="0.3" limited="true" range="0.1 0.8" frictionloss="0.05" margin="0.01" springlength="0.3" armature="0.01" solreflimit="0.03 1"
             solimplimit="0.5 0.55 0.1 0.5 2" solimpfriction="0.5 0.55 0.1 0.5 2" actuatorfrclimited="true" actuatorfrcrange="-0.1 0.1"><site site="sa"/><site site="sf"/></spatial>
    <fixed name="tf" stiffness="1"><joint joint="h" coef="1"/><joint joint="h2" coef="-2"/></fixed>
    <fixed name="tg" stiffness="0.5 0.2 0.1" damping="0.05 0.02 0.01"><joint joint="h2" coef="1.5"/></fixed>
  </tendon>
  <contact><pair geom1="floor" geom2="gbox2" condim="4" friction="0.7 0.6 0.02 0.001 0.001" margin="0.004" gap="0.0005" solref="0.02 1.1" solimp="0.5 0.55 0.1 0.5 2" solreffriction="0.03 1"/>
    <pair geom1="floor" geom2="gbox3" condim="3" margin="0.004" gap="0.0005"/></contact>
  <equality><connect body1="ball" body2="mc" anchor="0.1 0 0.2" solref="0.03 1" solimp="0.5 0.55 0.1 0.5 2"/><joint joint1="h" joint2="h2" polycoef="0 0.1 0 0 0" solref="0.04 1" solimp="0.5 0.55 0.1 0.5 2"/></equality>
  <actuator>
    <position name="ap" joint="h" kp="8" kv="0.5" ctrlrange="-1 1" forcerange="-4 4"/>
    <general name="af" joint="h2" dyntype="filter" dynprm="0.05" gainprm="2" biastype="affine" biasprm="0.1 -1 -0.2" actlimited="true" actrange="-1 1"/>
    <motor name="at" tendon="ts" gear="0.5"/>
    <position name="ap2" joint="ho" kp="1" ctrlrange="-0.3 0.3"/>
    <muscle name="am" tendon="tf" lengthrange="-0.5 0.5"/>
  </actuator>
  <sensor><jointpos joint="h"/><framepos objtype="site" objname="sf"/><tendonpos tendon="ts"/><actuatorfrc actuator="ap"/><accelerometer site="sball"/><framequat objtype="camera" objname="c0"/>
    <framepos objtype="camera" objname="c1" reftype="body" refname="box"/><magnetometer site="sball"/><framepos objtype="geom" objname="goff"/><framepos objtype="camera" objname="c2"/></sensor>
</mujoco>"""

SKIP_PREFIX = ("mat_", "light_", "cam_fovy", "cam_intrinsic", "geom_rgba", "geom_matid", "geom_dataid", "cam_res", "flex", "hfield", "mesh", "oct", "tex", "plugin")
OBS = ["qpos", "qvel", "act", "qacc", "sensordata", "energy", "xpos", "cam_xpos", "cam_xmat", "light_xpos", "actuator_force", "qfrc_passive", "qfrc_actuator", "qfrc_constraint", "geom_xpos", "site_xpos",
       "ten_length", "subtree_com", "nefc", "nacon"]


def batched_fields():
  """(container, name) of every field annotated array("*", ...) in types.Model / Option / Statistic, read from the annotations at run time."""
  from mujoco_warp._src import types

  out = []
  for cont, cls in (("", types.Model), ("opt", types.Option), ("stat", types.Statistic)):
    hints = typing.get_type_hints(cls, include_extras=True) if False else cls.__annotations__
    for name, ann in hints.items():
      shp = getattr(ann, "shape", None)
      s = repr(ann)
      if (shp and len(shp) and shp[0] == "*") or "'*'" in s or '"*"' in s:
        out.append((cont, name))
  return out


def _get(m, cont, name):
  return getattr(getattr(m, cont) if cont else m, name)


def _set(m, cont, name, val):
  setattr(getattr(m, cont) if cont else m, name, val)


def _field_chunk(args):
  import mujoco
  import warp as wp

  import mujoco_warp as mjw

  fields, pairs, seed = args
  mjm = mujoco.MjModel.from_xml_string(SCENE)
  out = []
  rng = np.random.default_rng(seed)
  ctrl = np.array([1.3, 5.0, 0.4, 0.9, 0.6], dtype=np.float32)  # beyond ctrlrange; drives the filter activation past actrange; force beyond forcerange / actuatorfrcrange
  qv = rng.uniform(-0.5, 0.5, size=mjm.nv).astype(np.float32)
  for bn in ("box2", "box3", "hover"):  # the two bodies that hover inside a contact margin stay where they are
    bid = mujoco.mj_name2id(mjm, mujoco.mjtObj.mjOBJ_BODY, bn)
    qv[mjm.body_dofadr[bid] : mjm.body_dofadr[bid] + 6] = 0.0

  def simulate(m, nworld, nsteps=2):
    d = mjw.make_data(mjm, nworld=nworld)
    wp.copy(d.ctrl, wp.array(np.tile(ctrl, (nworld, 1)), dtype=float))
    wp.copy(d.qvel, wp.array(np.tile(qv, (nworld, 1)), dtype=float))
    wp.copy(d.act, wp.array(np.tile(np.full(mjm.na, 0.995, dtype=np.float32), (nworld, 1)), dtype=float))
    for _ in range(nsteps):
      mjw.step(m, d)
    obs = {k: getattr(d, k).numpy().copy() for k in OBS if k != "nacon"}
    wid = d.contact.worldid.numpy()[: int(d.nacon.numpy()[0])]
    obs["contacts_per_world"] = np.array([[int((wid == w).sum())] for w in range(nworld)])  # detected contacts, active or not (gap widens detection only)
    # constraint rows as sorted multisets per world: parameters that only shape rows which happen to carry no force are still observed
    ne = d.nefc.numpy()
    for f in ("D", "aref", "pos", "frictionloss"):
      a = getattr(d.efc, f).numpy()
      obs["efc." + f] = np.stack([np.sort(np.where(np.arange(a.shape[1]) < ne[w], a[w], np.float32(0))) for w in range(nworld)])
    return obs, d.overflow.numpy().copy()

  for cont, name in fields:
    base = mjw.put_model(mjm)
    arr = _get(base, cont, name)
    a0 = arr.numpy()
    if a0.size == 0 or a0.dtype.kind not in "f":
      out.append((cont, name, "skipped:not_float_or_empty", None))
      continue
    for nworld, size in pairs:
      # per-world rows: distinct perturbations of the model's own values
      # element-wise different factors (a uniform factor cannot be seen by ratios such as solmix); entries that are zero in the model move additively for position-like fields
      u = np.random.default_rng([seed % (1 << 30), len(name)] + [ord(ch) for ch in name]).uniform(0.6, 1.4, size=a0[:1].shape)
      addz = 0.01 if name in ("geom_pos", "jnt_pos", "site_pos", "qpos0", "body_ipos", "cam_pos", "tendon_range", "actuator_ctrlrange", "actuator_forcerange", "actuator_actrange") else 0.0
      rows = np.concatenate([a0[:1] * (1.0 + 0.15 * (i + 1) * u) + np.where(np.abs(a0[:1]) < 1e-12, addz * (i + 1) * u, 0.0)
                             + (0.004 * (i + 1) if name.endswith(("margin", "armature", "frictionloss")) else 0.0) for i in range(size)], axis=0).astype(a0.dtype)
      mb = mjw.put_model(mjm)
      _set(mb, cont, name, wp.array(rows, dtype=arr.dtype))
      try:
        got, ov = simulate(mb, nworld)
      except Exception as e:
        out.append((cont, name, "violation", (f"batched model raised {type(e).__name__}: {e}"[:300], {"nworld": nworld, "size": size})))
        break
      observable = False
      bad = None
      for w in range(nworld):
        mi = mjw.put_model(mjm)
        _set(mi, cont, name, wp.array(rows[w % size : w % size + 1], dtype=arr.dtype))
        ref, ov1 = simulate(mi, 1)
        for k in got:
          g, r = got[k][w], ref[k][0]
          if not np.array_equal(g, r, equal_nan=True):  # same code, same arithmetic: bitwise
            bad = (w, k, float(np.nanmax(np.abs(np.asarray(g, dtype=np.float64) - np.asarray(r, dtype=np.float64)))))
            break
        if bad:
          break
      if nworld > 1 and size > 1:
        observable = any(not np.array_equal(got[k][0], got[k][1]) for k in got)
      if bad:
        out.append((cont, name, "violation", (f"world {bad[0]} of a batch of {nworld} with {size} rows differs from the unbatched model holding row {bad[0] % size}: {bad[1]} differs by {bad[2]:.3g}",
                                             {"nworld": nworld, "size": size})))
        break
      out.append((cont, name, "observed" if observable else "unobserved", {"nworld": nworld, "size": size}))
  return out


def run(ctx: core.Ctx):
  ctx.rule = ("Batch.tla fixes the meaning (world w reads row w mod Size) and TLC enumerates the (nworld, Size) pairs. The list of batchable fields "
              "is read from the annotations of types.Model / Option / Statistic at run time; for every float field and several (nworld, Size) pairs a "
              "Model whose field holds Size distinct rows is stepped twice on a scene that exercises contacts, limits, equalities, tendons, "
              "actuators, fluid forces, cameras and lights, and EVERY world is compared with an unbatched Model holding its row. distinct = field x "
              "pair; non-trivial = the field is observable (worlds of the batch differ from each other)")
  r = ctx.tlc("Batch", "Batch.cfg", timeout=300)
  allpairs = [(p["nworld"], p["size"]) for p in r.emit("pair")]
  pairs = [(3, 3), (4, 2)] if ctx.quick else [(2, 2), (3, 3), (4, 2), (6, 3), (6, 2), (5, 5)]
  assert all(p in allpairs for p in pairs)
  fields = [f for f in batched_fields() if not f[1].startswith(SKIP_PREFIX)]
  ctx.extra["batchable_fields_found"] = len(batched_fields())
  CH = max(1, len(fields) // 42 + 1)
  work = [(fields[i : i + CH], pairs, ctx.seed) for i in range(0, len(fields), CH)]
  observed, unobserved, skipped = set(), set(), set()
  for res in core.pmap(_field_chunk, work, nproc=14):
    for cont, name, status, info in res:
      full = (cont + "." if cont else "") + name
      if status == "violation":
        ctx.violation({"what": "batched field leaks across worlds or is ignored", "field": full}, info[0], {"field": full, **info[1]})
        ctx.case({"field": full, **info[1]}, key=(full, str(info[1])))
      elif status.startswith("skipped"):
        skipped.add(full)
      else:
        ctx.case({"field": full, **info}, nontrivial=status == "observed", key=(full, str(info)))
        (observed if status == "observed" else unobserved).add(full)
  ctx.traces_validated = ctx.evaluations
  ctx.extra["fields_observed"] = sorted(observed)
  ctx.extra["fields_unobserved_in_this_scene"] = sorted(unobserved - observed)
  ctx.extra["fields_skipped_not_float"] = sorted(skipped)
  ctx.assumptions += ["bitwise comparison (dense model, CPU); fields whose perturbation does not change this scene's trajectory "
                      "are listed as unobserved and not claimed; integer / boolean / rendering-only fields are skipped"]


def replay(ctx, scen):
  run(ctx)


META = {
  "text": "Batch.tla defines how a batched field is read (row = world mod Size) and TLC enumerates the (nworld, Size) combinations; the set of "
          "batchable fields is extracted from the type annotations at run time, and for each float field a Model carrying distinct per-world rows "
          "is simulated and every world compared with an unbatched Model holding that world's row.",
  "note": "one rich scene (81 of 95 float fields observable; the rest - broadphase bounds, solver tolerances, adhesion, crank length - are listed as unobserved in the evidence rather than claimed)",
  "technique": "TLA+ indexing spec (Batch.tla) enumerated by TLC + spec->code replay over every batchable field discovered from type annotations",
}
