"""C04  Collision detection agrees with MuJoCo C  (CollisionFamily.tla cases + parameter mixing rules; ModelFamily.tla scenes)."""

from __future__ import annotations

import numpy as np

from .. import collide, core

LEVEL = "exploration"
PRIMITIVE = {("plane", "sphere"), ("plane", "capsule"), ("plane", "ellipsoid"), ("plane", "cylinder"), ("plane", "box"), ("sphere", "sphere"), ("sphere", "capsule"),
             ("sphere", "cylinder"), ("sphere", "box"), ("capsule", "capsule"), ("capsule", "box")}


def gen(n, types=("plane", "hfield", "sphere", "capsule", "ellipsoid", "cylinder", "box", "mesh")):
  mod = "---- MODULE Gen_CollisionFamily ----\nEXTENDS CollisionFamily\nGTypes == {" + ", ".join('"%s"' % t for t in types) + "}\n====\n"
  cfg = f"CONSTANTS\n  Types <- GTypes\n  Mode = \"sim\"\n  NCase = {n}\nSPECIFICATION Spec\nINVARIANT Ordered\nINVARIANT MixSymmetric\nINVARIANT EmitCase\n"
  return {"Gen_CollisionFamily.tla": mod, "Gen_CollisionFamily.cfg": cfg}


def gen_enum(types=("plane", "hfield", "sphere", "capsule", "ellipsoid", "cylinder", "box", "mesh")):
  mod = "---- MODULE Enum_CollisionFamily ----\nEXTENDS CollisionFamily\nGTypes == {" + ", ".join('"%s"' % t for t in types) + "}\n====\n"
  cfg = "CONSTANTS\n  Types <- GTypes\n  Mode = \"enum\"\n  NCase = 1\nSPECIFICATION Spec\nINVARIANT Ordered\nINVARIANT MixSymmetric\nINVARIANT EmitCase\nCHECK_DEADLOCK FALSE\n"
  return {"Enum_CollisionFamily.tla": mod, "Enum_CollisionFamily.cfg": cfg}


def _chunk(args):
  import mujoco
  import warp as wp

  import mujoco_warp as mjw

  cases, seed = args
  out = []
  for case in cases:
    c = case["c"]
    try:
      mjm, target, actual = collide.build(case, seed)
      m = mjw.put_model(mjm)
    except NotImplementedError as e:
      out.append(("skip", "unsupported", None))
      continue
    where = {"case": c, "seed": seed}
    mjd = mujoco.MjData(mjm)
    mujoco.mj_kinematics(mjm, mjd)
    mujoco.mj_collision(mjm, mjd)
    ref = collide.contacts_of(mjd)
    # pose-unstable reference (the contact COUNT changes under a 1e-4 nudge): not comparable, counted
    unstable = False
    for sgn in (+1, -1):
      d2 = mujoco.MjData(mjm)
      d2.qpos[:3] = mjd.qpos[:3] + sgn * 1e-4 * np.array([0.577, 0.577, 0.577])
      d2.qpos[3:7] = mjd.qpos[3:7]
      mujoco.mj_kinematics(mjm, d2)
      mujoco.mj_collision(mjm, d2)
      unstable |= d2.ncon != mjd.ncon
    if unstable:
      out.append(("skip", "pose_unstable_reference", None))
      continue
    if c["pose"] == "engulfed" and ref and collide.ill_conditioned(mjm, mjd):
      out.append(("skip", "ill_conditioned_engulfed", None))
      continue
    # the specification's discrete expectations, checked on MuJoCo first (spec bug otherwise)
    if ref:
      if ref[0]["dim"] != case["condim"] or abs(ref[0]["friction"][0] - case["friction"] / 10) > 1e-9:
        out.append(("MACHINERY", f"spec/MuJoCo disagree on mixed parameters: spec condim {case['condim']} friction {case['friction'] / 10} mujoco {ref[0]['dim']} {ref[0]['friction']} case {c}", where))
        continue
    if case["expect"] and not ref and c["pose"] != "margin":
      out.append(("MACHINERY", f"spec expects a contact, MuJoCo has none (signed distance {actual}) case {c}", where))
      continue
    d = mjw.make_data(mjm, nworld=2, nconmax=32)
    mjw.kinematics(m, d)
    mjw.collision(m, d)
    prim = (c["t1"], c["t2"]) in PRIMITIVE
    tol = 2e-5 if prim else 2e-3
    for w in range(2):
      got = collide.mjw_contacts(mjw, m, d, w)
      if c["t1"] == "hfield":
        # a height field meets the geom prism by prism: mj_collision lists every prism's contact (coinciding ones included), MJWarp keeps a bounded
        # number of distinct ones.  Decidable: every contact MJWarp reports is one of MuJoCo's, and MuJoCo's deepest contact is among them.
        near = lambda y, x: abs(y["dist"] - x["dist"]) <= tol and np.abs(y["pos"] - x["pos"]).max() <= 5 * tol and np.abs(y["frame"][0] - x["frame"][0]).max() <= 2e-2
        extra = sorted([y for y in got if not any(near(y, x) for x in ref)], key=lambda y: y["frame"][0][2])
        deepest = min(ref, key=lambda x: x["dist"]) if ref else None
        pairn = f"{c['t1']}-{c['t2']}"
        if extra:
          y = extra[0]
          down = y["frame"][0][2] < -0.5  # a normal from the terrain to the geom that points DOWN: the contact pushes the geom into the terrain
          out.append(({"what": "contact differs from mj_collision", "pair": pairn, "field": "extra", "cls": "hfield_downward_contact" if down else "hfield_contact_not_in_mujoco"},
                      f"world {w}: dist {y['dist']:.5f} pos {y['pos'].round(4).tolist()} normal {y['frame'][0].round(3).tolist()} is none of mj_collision's {len(ref)} contacts "
                      f"(their distances {sorted(round(x['dist'], 5) for x in ref)[:6]})", where))
          break
        if deepest is not None and not any(near(y, deepest) for y in got):
          out.append(({"what": "contact differs from mj_collision", "pair": pairn, "field": "deepest", "cls": "hfield_deepest_missing"},
                      f"world {w}: mj_collision's deepest contact (dist {deepest['dist']:.5f}) is not reported; reported {sorted(round(y['dist'], 5) for y in got)}", where))
          break
        bad = None
        for y in got:
          x = next(x for x in ref if near(y, x))
          if y["geom"] != x["geom"] or y["dim"] != x["dim"] or np.abs(y["friction"] - x["friction"]).max() > 1e-6 or np.abs(y["solref"] - x["solref"]).max() > 1e-6 \
              or np.abs(y["solimp"] - x["solimp"]).max() > 1e-6 or abs(y["includemargin"] - x["includemargin"]) > 1e-7:
            bad = f"geoms / parameters {y['geom']} {y['dim']} {y['friction']} {y['includemargin']} vs {x['geom']} {x['dim']} {x['friction']} {x['includemargin']}"
            break
        if bad:
          out.append(({"what": "contact differs from mj_collision", "pair": pairn, "field": "parameters"}, f"world {w}: {bad}", where))
          break
        continue
      if len(got) != len(ref):
        cls = {}
        if c["explicit"] and c["pose"] == "margin" and len(got) < len(ref):
          cls = {"cls": "explicit_pair_margin"}
        elif (c["t1"], c["t2"]) == ("box", "box") and got and ref:
          cls = {"cls": "multiccd_count"}
        elif (c["t1"], c["t2"]) == ("plane", "mesh") and got and ref:
          # a different number of contacts than MuJoCo, but the shorter list is part of the longer one (same point, depth and normal)
          short, long_ = (got, ref) if len(got) < len(ref) else (ref, got)
          if all(any(abs(y["dist"] - x["dist"]) <= tol and np.abs(y["pos"] - x["pos"]).max() <= 5 * tol and np.abs(y["frame"][0] - x["frame"][0]).max() <= 2e-2 for x in long_) for y in short):
            cls = {"cls": "plane_mesh_manifold"}
        elif (c["t1"], c["t2"]) in (("box", "mesh"), ("mesh", "mesh")) and got and ref and len(got) < len(ref):
          # the multi-contact routine found no face contact where MuJoCo's did: what is reported must then be MuJoCo's single-contact (multiccd off) answer
          import copy

          mjm1 = copy.copy(mjm)
          mjm1.opt.disableflags |= int(mujoco.mjtDisableBit.mjDSBL_MULTICCD)
          d1 = mujoco.MjData(mjm1)
          d1.qpos[:] = mjd.qpos
          mujoco.mj_kinematics(mjm1, d1)
          mujoco.mj_collision(mjm1, d1)
          ref1 = collide.contacts_of(d1)
          near = lambda y, xs: any(abs(y["dist"] - x["dist"]) <= tol and np.abs(y["pos"] - x["pos"]).max() <= 5 * tol and np.abs(y["frame"][0] - x["frame"][0]).max() <= 2e-2 for x in xs)
          if (len(ref1) == len(got) and all(near(y, ref1) for y in got)) or all(near(y, ref) for y in got):  # ... or part of MuJoCo's face polygon
            cls = {"cls": "multiccd_count_mesh"}
        out.append((dict({"what": "number of contacts differs from mj_collision", "pair": f"{c['t1']}-{c['t2']}", "pose": c["pose"]}, **cls),
                    f"world {w}: {len(got)} vs {len(ref)} contacts (signed distance {actual:.5f}, margin {case['margin'] / 1000})", where))
        break
      bad = None
      used = set()
      for x in ref:
        j = min((j for j in range(len(got)) if j not in used), key=lambda j: np.linalg.norm(got[j]["pos"] - x["pos"]))
        used.add(j)
        y = got[j]
        if y["geom"] != x["geom"] or y["dim"] != x["dim"]:
          bad = f"geom/dim {y['geom']} {y['dim']} vs {x['geom']} {x['dim']}"
        elif abs(y["dist"] - x["dist"]) > tol or np.abs(y["pos"] - x["pos"]).max() > tol * 5:
          bad = f"dist/pos {y['dist']:.6f} {y['pos']} vs {x['dist']:.6f} {x['pos']}"
        elif np.abs(y["frame"][0] - x["frame"][0]).max() > (1e-4 if prim else 2e-2):
          bad = f"normal {y['frame'][0]} vs {x['frame'][0]}"
        elif np.abs(y["friction"] - x["friction"]).max() > 1e-6 or np.abs(y["solref"] - x["solref"]).max() > 1e-6 or np.abs(y["solimp"] - x["solimp"]).max() > 1e-6 \
            or abs(y["includemargin"] - x["includemargin"]) > 1e-7:
          bad = f"parameters friction {y['friction']} solref {y['solref']} solimp {y['solimp']} margin {y['includemargin']} vs {x['friction']} {x['solref']} {x['solimp']} {x['includemargin']}"
        if bad:
          break
      if bad:
        cls = {"cls": "convex_accuracy"} if (not prim and bad.split(" ")[0] in ("normal", "dist/pos")) else {}
        out.append((dict({"what": "contact differs from mj_collision", "pair": f"{c['t1']}-{c['t2']}", "field": bad.split(" ")[0]}, **cls), f"world {w}: {bad}", where))
        break
    else:
      out.append(("ok", len(ref), None))
  return out


def run(ctx: core.Ctx):
  ctx.rule = ("CollisionFamily.tla: geom type pairs over {plane, height field, sphere, capsule, ellipsoid, cylinder, box, convex mesh} x pose class {separated, inside margin, "
              "touching, shallow, deep} x per-geom condim / priority / friction / margin / solmix x explicit pair; TLC checks the parameter-mixing rule "
              "(symmetry) and emits cases with the expected condim / friction / margin. Each case is concretised (random orientations; the free geom "
              "is placed by bisection at the class's signed distance) and mjw.collision compared with mj_collision per contact: geoms, dim, dist, "
              "pos, normal, friction, solref, solimp, includemargin. Reference contact counts that change under a 1e-4 nudge are skipped and counted")
  n = 320 if ctx.quick else 5000
  r = ctx.tlc("Gen_CollisionFamily", "Gen_CollisionFamily.cfg", gen=gen(n), workers=1, simulate="num=1", depth=n + 1, seed=ctx.seed % (1 << 30), timeout=900)
  cases = r.emit("case")
  # every type pair x pose class once (TLC enumerates them), each with several geometries (engulfed poses: more, a third of them is ill-conditioned)
  r2 = ctx.tlc("Enum_CollisionFamily", "Enum_CollisionFamily.cfg", gen=gen_enum(), workers=1, timeout=900)
  for e in r2.emit("case"):
    for rep in range((4 if e["c"]["pose"] == "engulfed" else 2) * (1 if ctx.quick else 6)):
      cases.append(dict(e, c=dict(e["c"], rep=rep)))
  CH = max(1, len(cases) // 42 + 1)
  ncon = 0
  for res, chunk in zip(core.pmap(_chunk, [(cases[i : i + CH], ctx.seed) for i in range(0, len(cases), CH)], nproc=14), [cases[i : i + CH] for i in range(0, len(cases), CH)]):
    for (key, msg, scen), case in zip(res, chunk):
      if key == "MACHINERY":
        raise RuntimeError(msg)
      if key == "skip":
        ctx.skip("skip:" + msg)
        continue
      ctx.case({"case": case["c"]}, nontrivial=case["c"]["pose"] != "separated", key=case["c"])
      if key == "ok":
        ncon += msg
      else:
        ctx.violation(key, msg, scen)
  ctx.traces_validated = len(cases)
  ctx.extra["contacts_compared"] = ncon
  ctx.assumptions += ["primitive (closed-form) pairs: dist 2e-5, pos 1e-4, normal 1e-4; convex (GJK/EPA) pairs: dist 2e-3, pos 1e-2, normal 2e-2 - the convex solver's tolerance",
                      "meshes are random convex polytopes of 8..14 vertices; height fields are random 4..6 x 4..6 terrains and are compared by a subset rule (every reported contact is one of mj_collision's per-prism contacts, and its deepest one is reported), sdf geoms are not generated; mesh pairs with a margin under multiccd are rejected by put_model and skipped"]


def replay(ctx, scen):
  run(ctx)


META = {
  "text": "CollisionFamily.tla spans geom type pairs x pose classes x parameter classes and states the parameter-mixing rule; TLC emits cases "
          "with the expected mixed parameters; each is concretised at a prescribed signed distance and every contact mjw.collision reports is "
          "matched with mj_collision's (geoms, dim, distance, position, normal, friction, solver parameters, margin).",
  "note": "differential against MuJoCo C; pose-unstable reference cases skipped and counted; convex meshes and height fields included (height fields: subset rule, see assumptions), no sdf geoms",
  "technique": "TLA+ case family + parameter-mixing rule (CollisionFamily.tla) enumerated by TLC; spec->code replay with MuJoCo C as oracle",
}
