"""C07  Sensors and energy agree with MuJoCo C  (ModelFamily.tla configurations; forward())."""

from __future__ import annotations

import numpy as np

from .. import core, family, parity
from . import c07b

LEVEL = "exploration"
JOINTS = ("weld", "free", "ball", "hinge", "slide", "hinge2", "slidehinge", "ballslide")
GEOMS = ("sphere", "capsule", "box", "ellipsoid", "cylinder")
FEATS = ("tlimit", "sens_pos", "sens_vel", "sens_acc", "sens_site", "site", "camlight", "cutoff", "energy", "tendon_fixed", "tendon_spatial", "act_motor",
         "act_position", "act_filter", "act_tendon", "spring", "gravcomp", "applied", "jlimit", "eq_connect", "damper")


def compare(rec, b, mjm, mjd, m, d, cmp, opts):
  import mujoco

  import mujoco_warp as mjw

  if mjm.nsensor == 0 and not (mjm.opt.enableflags & mujoco.mjtEnableBit.mjENBL_ENERGY):
    return "skip:no_sensor"
  for rnd in range(3):
    if rnd == 2:
      st3 = family.make_state({"c": dict(rec["c"] if "c" in rec else rec, salt=2)}, mjm, opts.get("seed", 0))
      family.apply_state(mjm, mjd, m, d, st3)
    if rnd == 1:
      # a second evaluation on the SAME Data at a different state: outputs must not carry anything over from the first one
      # (sensors that only write their slot while something is active, e.g. limit sensors, rely on the buffer being reset)
      st2 = family.make_state({"c": dict(rec["c"] if "c" in rec else rec, salt=1, qc="zero", vc="zero")}, mjm, opts.get("seed", 0))  # rest pose: limits inactive
      family.apply_state(mjm, mjd, m, d, st2)
    _compare_once(mjm, mjd, m, d, cmp)


def _compare_once(mjm, mjd, m, d, cmp):
  import mujoco

  import mujoco_warp as mjw

  mujoco.mj_forward(mjm, mjd)
  mjw.forward(m, d)
  sd = d.sensordata.numpy()
  # acceleration-stage sensors are computed from solver outputs: tolerance relative to the magnitude of the forces involved
  # (without constraints as well: a small linear acceleration of a fast-spinning body is a difference of large terms)
  fscale = max([1.0] + [float(np.abs(x).max()) for x in (mjd.qfrc_constraint, mjd.qacc, mjd.cfrc_int, mjd.cacc) if x.size])
  # F23 (C05): an equality between two static bodies has no row in MuJoCo and an all-zero row with D = 1e15 in MJWarp; any rounding residual then gives an
  # astronomic row force, and everything computed from constraint forces (force / torque / accelerometer ...) is off.  Same finding, named here by its cause.
  EQ = mujoco.mjtEq
  zero_eq = any(int(mjm.eq_type[e]) in (int(EQ.mjEQ_CONNECT), int(EQ.mjEQ_WELD)) and int(mjm.eq_objtype[e]) == int(mujoco.mjtObj.mjOBJ_BODY) and mjm.body_treeid[mjm.eq_obj1id[e]] < 0
                and mjm.body_treeid[mjm.eq_obj2id[e]] < 0 for e in range(mjm.neq)) and int(d.nefc.numpy()[0]) > mjd.nefc
  for w in range(d.nworld):
    # per sensor, so that a violation names the sensor type
    for s in range(mjm.nsensor):
      a, n = mjm.sensor_adr[s], mjm.sensor_dim[s]
      st = mujoco.mjtSensor(mjm.sensor_type[s]).name
      stage_tol = (5e-3 if mjd.nefc else 5e-4) if mjm.sensor_needstage[s] == mujoco.mjtStage.mjSTAGE_ACC else 1e-4
      name = f"sensor:{st}"
      if st in ("mjSENS_FRAMELINACC", "mjSENS_ACCELEROMETER", "mjSENS_FRAMEANGACC"):
        ot, oid = mjm.sensor_objtype[s], mjm.sensor_objid[s]
        body = {int(mujoco.mjtObj.mjOBJ_BODY): lambda i: i, int(mujoco.mjtObj.mjOBJ_XBODY): lambda i: i, int(mujoco.mjtObj.mjOBJ_GEOM): lambda i: mjm.geom_bodyid[i],
                int(mujoco.mjtObj.mjOBJ_SITE): lambda i: mjm.site_bodyid[i], int(mujoco.mjtObj.mjOBJ_CAMERA): lambda i: mjm.cam_bodyid[i]}.get(int(ot), lambda i: -1)(int(oid))
        if body >= 0 and mjm.body_treeid[body] < 0:
          name += "@static_body"
      acc = mjm.sensor_needstage[s] == mujoco.mjtStage.mjSTAGE_ACC
      if acc and zero_eq:
        name = f"sensor:{st}@zero_jacobian_equality"
      ref = mjd.sensordata[a : a + n]
      if st == "mjSENS_E_KINETIC":
        # mj_forward evaluates the e_kinetic SENSOR before it recomputes the kinetic energy (it reports the previous call's value on
        # a re-used MjData); the energy itself is the reference
        ref = np.array([mjd.energy[1]])
      cmp.close(name, sd[w, a : a + n], ref, stage_tol, scale=fscale if acc else None)
    cmp.close("energy", d.energy.numpy()[w], mjd.energy, 1e-4)


def run(ctx: core.Ctx):
  ctx.rule = ("ModelFamily.tla configurations (forests <= 5 bodies) x feature subsets: position / velocity / acceleration stage sensor groups (joint, ball, "
              "frame pos/quat/axes with and without reference frames on body/xbody/geom/camera objects, subtree com/linvel/angmom, tendon, actuator, "
              "clock, velocimeter, gyro, accelerometer, force, torque, jointactuatorfrc, tendonactuatorfrc, energy sensors), cutoffs, energy flag; "
              "random state; forward() vs mj_forward sensor by sensor and energy, both worlds")
  n = 200 if ctx.quick else 3000
  recs = family.sample(ctx, 2 * n, maxbody=5, joints=JOINTS, geoms=GEOMS, feats=FEATS, maxfeat=7, qclasses=("rand", "unnorm"), vclasses=("rand",))
  recs = [r for r in recs if {"sens_pos", "sens_vel", "sens_acc", "energy"} & set(r["c"]["feats"])][:n]
  ctx.traces_validated = len(recs)
  parity.run(ctx, __name__, "compare", recs, nworld=2, opts={"tol": 1e-4}, what="sensor / energy differs from MuJoCo C")
  # part B: sensors that read the contact list, rays and geom distances (own scene, ContactSensor.tla)
  c07b.run_part(ctx)
  ctx.assumptions += ["part B (contact-list sensors): one designed scene of 4 bodies / 6 geoms / 5 contacts at distinct depths, every criterion pair of a contact sensor three-way "
                      "(ContactSensor.tla, MuJoCo, MJWarp); touch, rangefinder, distance / normal / fromto and contact sensors with random data fields, reduce modes, num and "
                      "cutoffs against MuJoCo (5e-3 of the force scale for force-valued outputs, 2e-4 otherwise); reduce=none compared as a set of slots and only when every match fits"]
  ctx.assumptions += ["MuJoCo C is the oracle; 1e-4 relative for position/velocity-stage sensors, 5e-4 for acceleration-stage sensors, 5e-3 when constraint rows are active (solver output, the repository's own tolerance)"]


def replay(ctx, scen):
  if "cfg" not in scen["scenario"]:  # a scenario of part B: the part is cheap, run it whole
    c07b.run_part(ctx)
    return
  rec = {"c": scen["scenario"]["cfg"]}
  for res in parity.chunk((__name__, "compare", [rec], scen.get("seed", ctx.seed), 2, {"tol": 1e-4})):
    ctx.case(rec)
    for name in sorted({x[0] for x in res["bad"]}):  # same keys as parity.run: one per field, class after the '@'
      fld, _, cls = name.partition("@")
      ctx.violation(dict({"what": "sensor / energy differs from MuJoCo C", "field": fld}, **({"cls": cls} if cls else {})), str([x for x in res["bad"] if x[0] == name][:5]), scen["scenario"])


META = {
  "text": "TLC (-simulate over ModelFamily.tla) generates model configurations x sensor-group / cutoff / energy features; each is concretised and every "
          "sensor's output and the potential/kinetic energy after forward() are compared with mj_forward in every world. Part B: ContactSensor.tla states which "
          "contacts a contact sensor reports and with which sign for every criterion pair (geom / body / subtree / site x geom / body / subtree); TLC checks its laws "
          "over all forests of <= 4 bodies (the implementations' parent walk is the ancestor relation) and emits the expected reports for the replay scene; every "
          "sensor is built and compared three-way; touch, rangefinder, geom distance sensors and contact sensors with reduce modes are compared with MuJoCo.",
  "note": "float comparison against MuJoCo C; contact-list sensors in one designed scene (tactile sensors and camera projection are not generated)",
  "technique": "TLA+ model family (ModelFamily.tla) enumerated by TLC + contact-sensor semantics (ContactSensor.tla) model-checked and enumerated; spec->code replay, MuJoCo C as numeric oracle (three-way for contact sensors)",
}
