"""C27  Velocity derivatives are correct  (ModelFamily.tla configurations; MuJoCo's analytic qDeriv and finite differences)."""

from __future__ import annotations

import numpy as np

from .. import core, family, parity

LEVEL = "exploration"
JOINTS = ("free", "ball", "hinge", "slide", "hinge2", "slidehinge", "weld")
GEOMS = ("sphere", "capsule", "box", "ellipsoid")
FEATS = ("damper", "poly", "act_velocity", "act_position", "act_damper", "act_affinegain", "act_filter", "act_limits", "actearly", "tendon_fixed", "tendon_spatial", "tendon_spring",
         "fluid", "fluid_ellipsoid", "spring", "armature", "site", "act_tendon")


def compare(rec, b, mjm, mjd, m, d, cmp, opts):
  import mujoco
  import warp as wp

  import mujoco_warp as mjw
  from mujoco_warp._src import derivative

  nv = mjm.nv
  if nv == 0:
    return "skip:nv0"
  implicit = mjm.opt.integrator == mujoco.mjtIntegrator.mjINT_IMPLICIT
  dt = mjm.opt.timestep
  # ---- MuJoCo: finite differences of the smooth force w.r.t. qvel (float64) and the analytic qDeriv of its integrator
  def smooth_force(v):
    mjd.qvel[:] = v
    mujoco.mj_forward(mjm, mjd)
    f = np.array(mjd.qfrc_passive) + np.array(mjd.qfrc_actuator)
    return f - np.array(mjd.qfrc_bias) if implicit else f
  v0 = np.array(mjd.qvel)
  eps = 1e-6
  Dfd = np.zeros((nv, nv))
  for j in range(nv):
    e = np.zeros(nv)
    e[j] = eps
    Dfd[:, j] = (smooth_force(v0 + e) - smooth_force(v0 - e)) / (2 * eps)
  mjd.qvel[:] = v0
  mujoco.mj_forward(mjm, mjd)
  M = np.zeros((nv, nv))
  mujoco.mju_sym2dense(M, mjd.M, mjm.M_rownnz, mjm.M_rowadr, mjm.M_colind)
  scratch = mujoco.MjData(mjm)
  mujoco.mj_copyData(scratch, mjm, mjd)
  mujoco.mj_step(mjm, scratch)  # fills qDeriv for implicit / implicitfast
  Dmj = np.zeros((nv, nv))
  mujoco.mju_sparse2dense(Dmj, scratch.qDeriv, mjm.D_rownnz, mjm.D_rowadr, mjm.D_colind)
  # ---- MJWarp: M - dt*qDeriv_smooth (M structure) [+ RNE part in D structure]
  mjw.forward(m, d)
  out = wp.zeros((d.nworld, m.nC), dtype=float)
  derivative.deriv_smooth_vel(m, d, out)
  A = np.zeros((d.nworld, nv, nv))
  res = wp.zeros((d.nworld, nv), dtype=float)
  for j in range(nv):
    e = np.zeros((d.nworld, nv), dtype=np.float32)
    e[:, j] = 1.0
    mjw.mul_m(m, d, res, wp.array(e, dtype=float), M=out)
    A[:, :, j] = res.numpy()
  if implicit:
    rne = wp.zeros((d.nworld, m.nD), dtype=float)
    derivative.deriv_rne_vel(m, d, rne)
    ii, jj = m.qD_fullm_i.numpy(), m.qD_fullm_j.numpy()
    rn = rne.numpy()
    for w in range(d.nworld):
      for k in range(len(ii)):
        A[w, ii[k], jj[k]] += rn[w, k]
  tag = ""
  if (mjm.actuator_gaintype == mujoco.mjtGain.mjGAIN_MUSCLE).any():
    tag = "@muscle_implicit"
  elif implicit and (mjm.opt.density > 0 or mjm.opt.viscosity > 0):
    tag = "@implicit_fluid"
  scale = max(1.0, float(np.abs(Dfd).max()), float(np.abs(M).max()) * 1e-3 / dt)
  # finite differences are an oracle only where MuJoCo's own analytic derivative agrees with them (it approximates some terms)
  ref_sym = lambda X: X if implicit else 0.5 * (X + X.T)
  fd_usable = float(np.abs(ref_sym(Dmj) - ref_sym(Dfd)).max()) <= 5e-3 * scale
  for w in range(d.nworld):
    Dw = (M - A[w]) / dt          # MJWarp's derivative of the smooth force
    if implicit:
      if fd_usable:
        cmp.close("qDeriv_vs_finite_difference" + tag, Dw, Dfd, 2e-2, scale=scale)
      cmp.close("qDeriv_vs_mujoco_analytic" + tag, Dw, Dmj, 2e-2, scale=scale)
    else:
      # implicitfast keeps the symmetric part only
      if fd_usable:
        cmp.close("qDeriv_sym_vs_finite_difference" + tag, 0.5 * (Dw + Dw.T), 0.5 * (Dfd + Dfd.T), 2e-2, scale=scale)
      cmp.close("qDeriv_sym_vs_mujoco_analytic" + tag, 0.5 * (Dw + Dw.T), 0.5 * (Dmj + Dmj.T), 2e-2, scale=scale)


def run(ctx: core.Ctx):
  ctx.rule = ("ModelFamily.tla configurations with velocity-dependent forces (joint/tendon dampers incl. polynomial, velocity/position/damper/affine "
              "actuators with and without activation, fluid inertia-box and ellipsoid models, tendon armature) x integrator in {implicitfast, implicit}; "
              "the matrix M - dt*qDeriv assembled by deriv_smooth_vel (+ deriv_rne_vel for implicit) is turned into qDeriv and compared with "
              "central finite differences of MuJoCo C's smooth force in float64 and with MuJoCo's analytic qDeriv")
  n = 180 if ctx.quick else 2500
  recs = family.sample(ctx, n, seed_off=27, maxbody=4, joints=JOINTS, geoms=GEOMS, feats=FEATS, maxfeat=6, integrators=("implicitfast", "implicit"), qclasses=("rand",), vclasses=("rand",))
  ctx.traces_validated = len(recs)
  parity.run(ctx, __name__, "compare", recs, nworld=2, opts={"tol": 2e-2}, what="velocity derivative of the smooth force is wrong")
  ctx.assumptions += ["2e-2 relative to max(|qDeriv|, 1e-3*|M|/dt): float32 resolution of (M - A)/dt; implicitfast compared on the symmetric part"]


def replay(ctx, scen):
  run(ctx)


META = {
  "text": "On TLC-generated configurations with velocity-dependent forces the derivative matrix MJWarp integrates with (from deriv_smooth_vel and "
          "deriv_rne_vel) is compared with float64 central finite differences of MuJoCo C's smooth force and with MuJoCo's analytic qDeriv.",
  "note": "numeric property; the specification contributes the configuration space only",
  "technique": "TLA+ model family (ModelFamily.tla) enumerated by TLC; spec->code replay against finite differences and MuJoCo C's analytic derivative",
}
