"""C21  Inertia factorization solves the inertia system  (BlockLayout.tla: layout selection; factor/solve residuals for every class)."""

from __future__ import annotations

import numpy as np

from .. import core

LEVEL = "model_checking"


def gen(n):
  mod = "---- MODULE Gen_BlockLayout ----\nEXTENDS BlockLayout\nGSizes == {1, 2, 3, 4, 5, 6, 7, 8, 12, 63, 64, 65, 66}\n====\n"
  cfg = f"""CONSTANTS
  Sizes <- GSizes
  MaxBlocks = 3
  Mode = "sim"
  NCfg = {n}
SPECIFICATION Spec
INVARIANT AllValid
INVARIANT Thresholds
INVARIANT Disjoint
INVARIANT InRange
INVARIANT EmitCfg
"""
  return {"Gen_BlockLayout.tla": mod, "Gen_BlockLayout.cfg": cfg}


def block_xml(i, b, r):
  """one kinematic tree with b.size dofs of the requested coupling kind"""
  size, kind = b["size"], b["kind"]
  arm = f' armature="{r.uniform(0.01, 0.1):.3f}"'
  if kind == "compact":
    axes = ["1 0 0", "0 1 0", "0 0 1"][:size]
    j = "".join(f'<joint type="slide" axis="{a}"/>' for a in axes)
    return f'<body pos="{i} 0 1">{j}<geom type="sphere" size="0.1" mass="{r.uniform(0.5, 2):.3f}"/></body>'
  mix = b.get("mix", "hinge")
  # dofs per body, front to back, summing to size
  counts = []
  rest = size
  if mix == "free":
    counts.append(6)
    rest -= 6
  per = {"ball": 3, "stacked": 2}.get(mix, 1)
  while rest >= per and per > 1:
    counts.append(per)
    rest -= per
  counts += [1] * rest

  def joints(k, n):
    ax = ["0 1 0", "1 0 0", "0 0 1"][k % 3]
    if n == 6:
      return "<freejoint/>"
    if n == 3:
      return f'<joint type="ball"{arm}/>'
    if n == 2:
      return f'<joint type="slide" axis="{ax}"{arm}/><joint type="hinge" axis="{["1 0 0", "0 0 1", "0 1 0"][k % 3]}"{arm}/>'
    return f'<joint type="hinge" axis="{ax}"{arm}/>'

  def link(k, inner=""):
    return (f'<body pos="0.15 0.02 -0.1">{joints(k, counts[k])}<geom type="capsule" fromto="0 0 0 0.15 0.02 -0.1" size="0.02" mass="{r.uniform(0.2, 1):.3f}"/>{inner}</body>')

  nb = len(counts)
  if kind == "tri":
    s = ""
    for k in reversed(range(nb)):
      s = link(k, s)
    return s.replace('pos="0.15 0.02 -0.1"', f'pos="{i} 0 1"', 1)
  # other: a root with two serial branches (bodies split)
  n1 = (nb - 1) // 2
  n2 = nb - 1 - n1

  def chain(idx):
    s = ""
    for k in reversed(idx):
      s = link(k, s)
    return s

  if n1 == 0 or n2 == 0:  # too few bodies to branch: a chain has the same size (the layout class of "other" does not need the branching for size > 6)
    s = ""
    for k in reversed(range(nb)):
      s = link(k, s)
    return s.replace('pos="0.15 0.02 -0.1"', f'pos="{i} 0 1"', 1)
  root = link(0, chain(range(1, 1 + n1)) + chain(range(1 + n1, nb)).replace('pos="0.15 0.02 -0.1"', 'pos="-0.15 0.05 -0.1"', 1))
  return root.replace('pos="0.15 0.02 -0.1"', f'pos="{i} 0 1"', 1)


def _chunk(args):
  import mujoco
  import warp as wp

  import mujoco_warp as mjw
  from mujoco_warp._src import io as _io
  from mujoco_warp._src import smooth

  cfgs, seed = args
  out = []
  for rec in cfgs:
    blocks = rec["blocks"]
    r = np.random.default_rng(abs(hash(str(blocks))) % (1 << 31) + seed)
    xml = f'<mujoco><option integrator="implicitfast"/><worldbody>{"".join(block_xml(i, b, r) for i, b in enumerate(blocks))}</worldbody></mujoco>'
    mjm = mujoco.MjModel.from_xml_string(xml)
    where = {"blocks": blocks}
    nv = mjm.nv
    if nv != sum(b["size"] for b in blocks):
      out.append(("MACHINERY", f"concretiser produced nv={nv} for {blocks}", where))
      continue
    # the concretisation realises the requested coupling kinds
    for (start, size), b in zip(_io._m_blocks(mjm), blocks):
      last = start + size - 1
      nnz = int(mjm.M_rowadr[last] + mjm.M_rownnz[last] - mjm.M_rowadr[start])
      kind = "compact" if nnz == size else "tri" if nnz == size * (size + 1) // 2 else "other"
      if kind != b["kind"] and not (size == 1):
        out.append(("MACHINERY", f"block {b} realised as {kind} (nnz {nnz})", where))
        break
    else:
      lay = _io.m_block_layout(mjm)
      exp_adr = np.array(rec["dofadr"])
      if not np.array_equal(lay["dof_adr"], exp_adr) or lay["total"] != rec["total"]:
        out.append(({"what": "m_block_layout differs from BlockLayout.tla"}, f"dof_adr {lay['dof_adr'].tolist()} total {lay['total']} vs spec {exp_adr.tolist()} total {rec['total']}", where))
        continue
      # factor and solve: M x = b for random right-hand sides, several worlds with different poses
      m = mjw.put_model(mjm)
      nworld = 3
      d = mjw.make_data(mjm, nworld=nworld)
      q = np.tile(mjm.qpos0, (nworld, 1)) + r.uniform(-0.6, 0.6, size=(nworld, mjm.nq))
      wp.copy(d.qpos, wp.array(q.astype(np.float32), dtype=float))
      mjw.fwd_position(m, d)
      bvec = r.uniform(-1, 1, size=(nworld, nv)).astype(np.float32)
      x = wp.zeros((nworld, nv), dtype=float)
      mjw.solve_m(m, d, x, wp.array(bvec, dtype=float))
      xs = x.numpy().astype(np.float64)
      mjd = mujoco.MjData(mjm)
      bad = None
      for w in range(nworld):
        mjd.qpos[:] = q[w]
        mujoco.mj_forward(mjm, mjd)
        M = np.zeros((nv, nv))
        mujoco.mju_sym2dense(M, mjd.M, mjm.M_rownnz, mjm.M_rowadr, mjm.M_colind)
        if np.abs(M - M.T).max() > 1e-9 or np.linalg.eigvalsh(M).min() <= 0:
          bad = ("M not symmetric positive definite", f"world {w}")
          break
        res = np.linalg.norm(M @ xs[w] - bvec[w]) / np.linalg.norm(bvec[w])
        cond = np.linalg.cond(M)
        if not res < max(2e-4, 3e-7 * cond):
          bad = ("solve_m residual", f"world {w}: |Mx-b|/|b| = {res:.3g} (cond {cond:.3g})")
          break
      if bad is None:
        # implicit-integration system matrix through factor_solve_i (M as the matrix: same answer expected)
        qLD = wp.empty_like(d.qLD)
        qLDiag = wp.empty((nworld, nv), dtype=float)
        x2 = wp.zeros((nworld, nv), dtype=float)
        smooth.factor_solve_i(m, d, d.M, qLD, qLDiag, x2, wp.array(bvec, dtype=float))
        if not np.allclose(x2.numpy(), xs, rtol=2e-3, atol=2e-4 * max(1.0, float(np.abs(xs).max()))):
          bad = ("factor_solve_i differs from factor_m + solve_m", f"max diff {float(np.abs(x2.numpy() - xs).max()):.3g}")
      if bad:
        out.append(({"what": bad[0], "classes": rec["classes"]}, bad[1], where))
  return out


def run(ctx: core.Ctx):
  ctx.rule = ("BlockLayout.tla: block lists (1-3 trees) over sizes {1..8, 12, 63, 64, 65, 66} x coupling kinds {compact, triangular, other}; TLC "
              "checks thresholds (6/7, 64/65), disjoint packed regions and emits the expected per-dof layout. Each list is concretised (slide-only "
              "bodies, serial hinge chains, branching trees), m_block_layout compared with the spec, then factor_m + solve_m and factor_solve_i are "
              "run in 3 worlds with different poses and random right-hand sides: |Mx-b|/|b| with M from MuJoCo C (which must be SPD)")
  n = 40 if ctx.quick else 500
  r = ctx.tlc("Gen_BlockLayout", "Gen_BlockLayout.cfg", gen=gen(n), workers=1, simulate="num=1", depth=n + 1, seed=ctx.seed % (1 << 30), timeout=900)
  cfgs, seen = [], set()
  for c in r.emit("cfg"):
    h = core.jhash(c["blocks"])
    if h not in seen:
      seen.add(h)
      cfgs.append(c)
      ctx.case({"blocks": c["blocks"], "classes": c["classes"]}, nontrivial=True, key=c["blocks"])
  ctx.traces_validated = len(cfgs)
  ctx.extra["classes_seen"] = sorted({x for c in cfgs for x in c["classes"]})
  CH = max(1, len(cfgs) // 14 + 1)
  for res in core.pmap(_chunk, [(cfgs[i : i + CH], ctx.seed) for i in range(0, len(cfgs), CH)], nproc=14):
    for key, msg, scen in res:
      if key == "MACHINERY":
        raise RuntimeError(msg)
      ctx.violation(key, msg, scen)
  ctx.assumptions += ["residual bound max(2e-4, 3e-7 * cond(M)) in float32; M itself is taken from MuJoCo C"]


def replay(ctx, scen):
  run(ctx)


META = {
  "text": "BlockLayout.tla states which factorisation a block of the inertia matrix gets (compact / scalar / tile / sparse, thresholds 6 and 64) "
          "and the packed factor offsets; TLC checks disjointness and thresholds and emits layouts; each is concretised, m_block_layout compared "
          "with the spec, and factor/solve run in several worlds: M from MuJoCo C must be SPD and M x = b within float32 round-off for every "
          "layout class, also through factor_solve_i.",
  "note": "layout selection is spec-decided; residuals are numeric checks over TLC-generated layouts (sizes up to 66 dofs per tree)",
  "technique": "TLA+ layout-selection spec (BlockLayout.tla) checked by TLC + one implementation test per TLC-emitted layout (layout table and solve residuals)",
}
