"""C18  Broadphase choice does not change contacts  (Sap.tla; interval configurations and random scenes under every broadphase/filter)."""

from __future__ import annotations

import numpy as np

from .. import core, family

LEVEL = "model_checking"
U = np.array([0.5935, 0.7790, 0.1235]) / np.linalg.norm([0.5935, 0.7790, 0.1235])
MASKS = (None, 0, 1, 2, 3, 4, 8, 15)  # None = put_model's default


def gen(ncfg):
  mod = "---- MODULE Gen_Sap ----\nEXTENDS Sap\nGCoord == 0..5\n====\n"
  cfg = f"""CONSTANTS
  NWorld = 2
  NGeom = 4
  Coord <- GCoord
  Mode = "sim"
  NCfg = {ncfg}
SPECIFICATION Spec
INVARIANT Superset
INVARIANT AtMostOnce
INVARIANT NoSelf
INVARIANT InRange
INVARIANT EmitCfg
"""
  return {"Gen_Sap.tla": mod, "Gen_Sap.cfg": cfg}


def contact_multiset(d, nworld):
  nacon = int(d.nacon.numpy()[0])
  wid = d.contact.worldid.numpy()[:nacon]
  geo = d.contact.geom.numpy()[:nacon]
  dist = d.contact.dist.numpy()[:nacon]
  pos = d.contact.pos.numpy()[:nacon]
  return [sorted((int(g[0]), int(g[1]), round(float(x), 5), tuple(np.round(p, 4))) for g, x, p, w in zip(geo, dist, pos, wid) if w == ww) for ww in range(nworld)]


def run_all_broadphases(mjw, m, mjm, qpos, nworld):
  """contacts of every (broadphase, filter mask) combination for the same state."""
  import warp as wp

  out = {}
  default_filter = int(m.opt.broadphase_filter)
  for bp in (0, 1, 2):
    for mask in MASKS:
      m.opt.broadphase = bp
      m.opt.broadphase_filter = default_filter if mask is None else mask
      d = mjw.make_data(mjm, nworld=nworld, nconmax=64)
      wp.copy(d.qpos, wp.array(qpos.astype(np.float32), dtype=float))
      mjw.kinematics(m, d)
      mjw.collision(m, d)
      out[(bp, mask)] = (contact_multiset(d, nworld), d.overflow.numpy().tolist() if hasattr(d, "overflow") else None, int(d.ncollision.numpy()[0]))
  m.opt.broadphase, m.opt.broadphase_filter = 0, default_filter
  return out


def _interval_chunk(cfgs):
  import mujoco

  import mujoco_warp as mjw

  out = []
  for rec in cfgs:
    iv = rec["iv"]
    get = lambda w, g: iv[str(w)][str(g)] if isinstance(iv, dict) else iv[w][g]
    ng = 4
    rad = [0.06 + 0.125 * (get(0, g)[1] - get(0, g)[0]) for g in range(ng)]
    bodies = "".join(f'<body pos="{g} 0 0"><freejoint/><geom type="sphere" size="{rad[g]:.4f}"/></body>' for g in range(ng))
    mjm = mujoco.MjModel.from_xml_string(f'<mujoco><option gravity="0 0 0"/><worldbody>{bodies}</worldbody></mujoco>')
    m = mjw.put_model(mjm)
    qpos = np.zeros((2, mjm.nq))
    for w in range(2):
      for g in range(ng):
        c = 0.25 * get(w, g)[0] + rad[g]
        qpos[w, 7 * g : 7 * g + 3] = U * c
        qpos[w, 7 * g + 3] = 1.0
    res = run_all_broadphases(mjw, m, mjm, qpos, 2)
    ref = res[(0, None)][0]
    # ground truth: spheres on one line
    truth = []
    for w in range(2):
      cs = [0.25 * get(w, g)[0] + rad[g] for g in range(ng)]
      truth.append(sorted((a, b) for a in range(ng) for b in range(a + 1, ng) if abs(cs[a] - cs[b]) < rad[a] + rad[b] - 1e-6))
    where = {"intervals": iv, "radii": rad}
    if [sorted((a, b) for a, b, _, _ in x) for x in ref] != truth:
      near = any(abs(abs(0.25 * get(w, a)[0] + rad[a] - 0.25 * get(w, b)[0] - rad[b]) - rad[a] - rad[b]) < 1e-5 for w in range(2) for a in range(ng) for b in range(a + 1, ng))
      if not near:
        out.append(({"what": "all-pairs broadphase misses or invents a sphere-sphere contact"}, f"got {[[(a, b) for a, b, _, _ in x] for x in ref]} truth {truth}", where))
        continue
    for key, (ms, ov, ncol) in res.items():
      if ms != ref:
        out.append(({"what": "contacts depend on the broadphase / filter", "broadphase": key[0], "filter": str(key[1])}, f"{key}: {ms} vs NXN/default {ref}", where))
        break
  return out


ALLMASKS = tuple(range(16))


def _band_chunk(cases):
  """two geoms whose surfaces are apart by less than the sum of their margins along one signed coordinate axis (either id order): a contact
  exists only because of the margin, so every bounding test of every filter must have been widened by it - all 16 masks, 3 broadphases, 2 worlds"""
  import mujoco
  import warp as wp

  import mujoco_warp as mjw

  out = []
  for case in cases:
    ax, sgn, ta, tb, gapfrac, rot = case
    size = {"sphere": "0.1", "box": "0.1 0.08 0.06", "capsule": "0.05 0.1", "ellipsoid": "0.1 0.08 0.06", "cylinder": "0.07 0.09"}
    ext = {"sphere": 0.1, "box": 0.14, "capsule": 0.15, "ellipsoid": 0.1, "cylinder": 0.12}
    margin = 0.03
    quat = ' quat="0.9 0.1 0.3 0.2"' if rot else ""
    g = lambda n, t: f'<body name="{n}"><freejoint/><geom name="g{n}" type="{t}" size="{size[t]}" margin="{margin}"{quat if t != "sphere" else ""}/></body>'
    # box-box with a margin is only accepted without MuJoCo's multi-contact CCD (put_model says so): the broadphase question is the same without it
    flag = '<flag multiccd="disable" nativeccd="disable"/>' if ta == tb == "box" else ""
    xml = f'<mujoco><option gravity="0 0 0">{flag}</option><worldbody>{g("a", ta)}{g("b", tb)}<body pos="3 3 3"><freejoint/><geom type="sphere" size="0.1"/></body></worldbody></mujoco>'
    mjm = mujoco.MjModel.from_xml_string(xml)
    m = mjw.put_model(mjm)
    # put b on the signed axis at the distance where the surfaces are gapfrac * (2 margin) apart (bisection on MuJoCo's geom distance)
    dd = mujoco.MjData(mjm)
    lo, hi = 0.0, 1.0
    axis = np.zeros(3)
    axis[ax] = sgn
    target = gapfrac * 2 * margin
    for _ in range(40):
      mid = 0.5 * (lo + hi)
      dd.qpos[:] = mjm.qpos0
      dd.qpos[7:10] = axis * mid
      mujoco.mj_kinematics(mjm, dd)
      if mujoco.mj_geomDistance(mjm, dd, 0, 1, 1.0, None) < target:
        lo = mid
      else:
        hi = mid
    qpos = np.tile(mjm.qpos0, (2, 1))
    qpos[0, 7:10] = axis * 0.5 * (lo + hi)
    qpos[1, 7:10] = axis * (0.5 * (lo + hi) + 0.2 * margin)
    res = {}
    for bp in (0, 1, 2):
      for mask in ALLMASKS:
        m.opt.broadphase, m.opt.broadphase_filter = bp, mask
        d = mjw.make_data(mjm, nworld=2, nconmax=16)
        wp.copy(d.qpos, wp.array(qpos.astype(np.float32), dtype=float))
        mjw.kinematics(m, d)
        mjw.collision(m, d)
        res[(bp, mask)] = contact_multiset(d, 2)
    ref = res[(0, 0)]
    where = {"axis": ax, "sign": sgn, "types": [ta, tb], "gap_fraction_of_margin_sum": gapfrac, "rotated": rot}
    if not ref[0]:
      out.append(("MACHINERY", f"band scene has no contact under the all-pairs broadphase without filter: {where}", where))
      continue
    bad = [k for k, v in res.items() if v != ref]
    if bad:
      out.append(({"what": "contacts depend on the broadphase / filter", "broadphase": bad[0][0], "filter": str(bad[0][1]), "scene": "margin_band"},
                  f"{len(bad)} of 48 (broadphase, mask) combinations differ from (NXN, 0), first {bad[0]}: {res[bad[0]]} vs {ref}", where))
    else:
      out.append(("ok", 1, None))
  return out


def _scene_chunk(args):
  import mujoco

  import mujoco_warp as mjw

  recs, seed = args
  out = []
  for rec in recs:
    try:
      b = family.build(rec, seed)
      mjm = mujoco.MjModel.from_xml_string(b.xml)
      m = mjw.put_model(mjm)
    except Exception as e:
      out.append(("skip", type(e).__name__, None))
      continue
    st = family.make_state(rec, mjm, seed)
    qpos = np.tile(st["qpos"], (2, 1))
    r2 = family.rng_for(rec["c"], seed, "w1")
    for j in range(mjm.njnt):  # a different pose in world 1
      if mjm.jnt_type[j] == 0:
        qpos[1, mjm.jnt_qposadr[j] : mjm.jnt_qposadr[j] + 3] += r2.uniform(-0.05, 0.05, size=3)
    res = run_all_broadphases(mjw, m, mjm, qpos, 2)
    ref = res[(0, None)][0]
    for key, (ms, ov, ncol) in res.items():
      if ms != ref:
        out.append(({"what": "contacts depend on the broadphase / filter", "broadphase": key[0], "filter": str(key[1])},
                    f"{key}: {len(ms[0])},{len(ms[1])} contacts vs {len(ref[0])},{len(ref[1])}", {"cfg": rec["c"], "seed": seed}))
        break
    else:
      out.append(("ok", sum(len(x) for x in ref), None))
  return out


def run(ctx: core.Ctx):
  ctx.rule = ("Sap.tla transcribes projection sort (all tie orders), sap_range's binary search, the scan and the work-package decoding; TLC checks "
              "exhaustively on small instances that every overlapping pair is emitted, at most once, never across worlds, indices in range. TLC "
              "-simulate then emits 2-world x 4-geom interval configurations (ties, touching, nested, disjoint) concretised as spheres on the sweep "
              "axis, and ModelFamily.tla scenes with floor/body contacts; for each the contact multiset of every world is compared across {NXN, "
              "SAP_TILE, SAP_SEGMENTED} x 8 broadphase filter masks (24 combinations), and against the analytic sphere overlaps")
  for cfg in ("MC_Sap.cfg", "MC_Sap_1x3.cfg") + (() if ctx.quick else ("MC_Sap_1x4.cfg",)):
    ctx.tlc("MC_Sap", cfg, timeout=900)
  n = 120 if ctx.quick else 1500
  r = ctx.tlc("Gen_Sap", "Gen_Sap.cfg", gen=gen(n), workers=1, simulate="num=1", depth=n + 1, seed=ctx.seed % (1 << 30), timeout=900)
  cfgs = r.emit("cfg")
  for c in cfgs:
    ctx.case({"intervals": c["iv"]}, key=c["iv"])
  CH = max(1, len(cfgs) // 14 + 1)
  for res in core.pmap(_interval_chunk, [cfgs[i : i + CH] for i in range(0, len(cfgs), CH)], nproc=14):
    for key, msg, scen in res:
      ctx.violation(key, msg, scen)
  ns = 60 if ctx.quick else 800
  recs = family.sample(ctx, ns, seed_off=18, maxbody=5, joints=("free", "hinge", "weld", "ball"), geoms=("sphere", "capsule", "box", "ellipsoid", "cylinder"),
                       feats=("floor", "contacts", "margin", "condim"), maxfeat=3, qclasses=("rand", "zero"), vclasses=("zero",))
  recs = [x for x in recs if {"floor", "contacts"} & set(x["c"]["feats"])]
  CH = max(1, len(recs) // 14 + 1)
  ncon = 0
  for res in core.pmap(_scene_chunk, [(recs[i : i + CH], ctx.seed) for i in range(0, len(recs), CH)], nproc=14):
    for key, msg, scen in res:
      if key == "skip":
        ctx.skip("skip:" + msg)
      elif key == "ok":
        ctx.case({"scene": "family"}, nontrivial=msg > 0, key=("scene", ctx.evaluations))
        ncon += msg
      else:
        ctx.violation(key, msg, scen)
  # contacts that exist only inside the margin, along each signed coordinate axis, both id orders, rotated and not
  types = ("sphere", "box", "capsule", "ellipsoid", "cylinder")
  bands = [(ax, sgn, types[(ax + i) % 5], types[(ax + 2 * i + 1) % 5], gf, rot) for ax in range(3) for sgn in (1.0, -1.0) for i in range(2 if ctx.quick else 5)
           for gf in (0.3, 0.8) for rot in (False, True)]
  CH = max(1, len(bands) // 14 + 1)
  for res in core.pmap(_band_chunk, [bands[i : i + CH] for i in range(0, len(bands), CH)], nproc=14):
    for key, msg, scen in res:
      if key == "MACHINERY":
        raise RuntimeError(msg)
      if key == "ok":
        ctx.case({"scene": "margin_band"}, key=("band", ctx.evaluations))
      else:
        ctx.violation(key, msg, scen)
  ctx.traces_validated = len(cfgs) + len(recs) + len(bands)
  ctx.extra["contacts_compared_in_family_scenes"] = ncon
  ctx.assumptions += ["contact multisets compared exactly after rounding (dist 1e-5, pos 1e-4): the narrowphase is the same code for every broadphase"]


def replay(ctx, scen):
  run(ctx)


META = {
  "text": "Sap.tla transcribes the sweep-and-prune pipeline over integer intervals; TLC checks on every small instance and every sort tie order "
          "that the emitted pairs are a duplicate-free, world-local superset of the overlapping pairs with all decoded indices in range. "
          "TLC-generated interval configurations (as spheres on the sweep axis) and ModelFamily.tla scenes are run under all 3 broadphases x 8 "
          "filter masks and the per-world contact multisets must be identical (and equal the analytic overlaps for the sphere lines).",
  "note": "2 worlds x 4 geoms for interval configurations; family scenes <= 5 bodies + floor; CPU",
  "technique": "TLA+ transcription of sweep-and-prune (Sap.tla) model-checked with TLC + spec->code replay of TLC-generated configurations under every broadphase/filter",
}
