"""C03  Actuation agrees with MuJoCo C  (Actuation.tla: exact force law on the integer lattice; ModelFamily.tla for the rest)."""

from __future__ import annotations

import numpy as np

from .. import core, family, parity

LEVEL = "model_checking"
JOINTS = ("weld", "free", "ball", "hinge", "slide", "hinge2", "slidehinge")
GEOMS = ("sphere", "capsule", "box")
FEATS = ("act_motor", "act_position", "act_velocity", "act_intvelocity", "act_damper", "act_cylinder", "act_muscle", "act_filter", "act_filterexact",
         "act_integrator", "act_affinegain", "act_tendon", "act_site", "act_refsite", "act_slidercrank", "act_jointinparent", "act_limits", "actearly",
         "actfrcrange", "tendon_fixed", "tendon_spatial", "site", "dis_clampctrl", "gravcomp")
RANGES = {"CtrlRange": (-8, 8), "ActRange": (-4, 4), "ForceRange": (-12, 12), "JntRange": (-10, 10)}


def gen(ncase):
  mod = """---- MODULE Gen_Actuation ----
EXTENDS MC_Actuation
====
"""
  cfg = f"""CONSTANTS
  Ctrls <- McCtrls
  Acts <- McActs
  Dyns <- McDyns
  Gears <- McGears
  Qs <- McQs
  Vs <- McVs
  GainPrms <- McGain
  BiasPrms <- McBias
  CtrlRange <- McCtrlRange
  ActRange <- McActRange
  ForceRange <- McForceRange
  JntRange <- McJntRange
  Mode = "sim"
  NCase = {ncase}
SPECIFICATION Spec
INVARIANT Emit
INVARIANT Lattice
INVARIANT ForceWithinLimits
INVARIANT QfrcWithinLimits
"""
  return {"Gen_Actuation.tla": mod, "Gen_Actuation.cfg": cfg}


def pack_xml(cases, noclamp):
  e = lambda n: f"{n / 8:.6g}"
  bodies, acts = [], []
  for i, rec in enumerate(cases):
    c = rec["c"]
    jl = f' actuatorfrclimited="true" actuatorfrcrange="{e(RANGES["JntRange"][0])} {e(RANGES["JntRange"][1])}"' if c["jntlim"] else ""
    bodies.append(f'<body pos="{i} 0 0"><joint name="j{i}" type="slide" axis="1 0 0"{jl}/><geom size="0.1" mass="1" contype="0" conaffinity="0"/></body>')
    a = f' gear="{c["gear"]}" gaintype="affine" gainprm="{c["gain"][0]} {c["gain"][1]} {c["gain"][2]}" biastype="affine" biasprm="{c["bias"][0]} {c["bias"][1]} {c["bias"][2]}"'
    if c["dyn"] != "none":
      a += f' dyntype="{c["dyn"]}" dynprm="0.5"'
      if c["actlim"]:
        a += f' actlimited="true" actrange="{e(RANGES["ActRange"][0])} {e(RANGES["ActRange"][1])}"'
    if c["early"]:
      a += ' actearly="true"'
    if c["ctrllim"]:
      a += f' ctrllimited="true" ctrlrange="{e(RANGES["CtrlRange"][0])} {e(RANGES["CtrlRange"][1])}"'
    if c["forcelim"]:
      a += f' forcelimited="true" forcerange="{e(RANGES["ForceRange"][0])} {e(RANGES["ForceRange"][1])}"'
    acts.append(f'<general name="a{i}" joint="j{i}"{a}/>')
  flag = '<flag clampctrl="disable"/>' if noclamp else ""
  return (f'<mujoco><option timestep="0.25" gravity="0 0 0">{flag}</option><worldbody>{"".join(bodies)}</worldbody>'
          f'<actuator>{"".join(acts)}</actuator></mujoco>')


def _lattice_chunk(args):
  """worker: one packed model; returns list of (key, msg, scenario) and MACHINERY entries."""
  import mujoco
  import warp as wp

  import mujoco_warp as mjw

  cases, noclamp = args
  xml = pack_xml(cases, noclamp)
  mjm = mujoco.MjModel.from_xml_string(xml)
  mjd = mujoco.MjData(mjm)
  m = mjw.put_model(mjm)
  nworld = 2
  d = mjw.make_data(mjm, nworld=nworld)
  n = len(cases)
  q = np.array([r["c"]["q"] for r in cases], dtype=float)
  v = np.array([r["c"]["v"] for r in cases], dtype=float)
  ctrl = np.array([r["c"]["ctrl"] / 8 for r in cases])
  act = np.zeros(mjm.na)
  for i, r in enumerate(cases):
    if mjm.actuator_actadr[i] >= 0:
      act[mjm.actuator_actadr[i]] = r["c"]["act"] / 8
  st = {"qpos": q, "qvel": v, "ctrl": ctrl, "act": act}
  family.apply_state(mjm, mjd, m, d, st)
  mujoco.mj_forward(mjm, mjd)
  mjw.fwd_position(m, d)
  mjw.fwd_velocity(m, d)
  mjw.fwd_actuation(m, d)
  got = {k: getattr(d, k).numpy() for k in ("act_dot", "actuator_force", "qfrc_actuator", "actuator_length", "actuator_velocity")}
  refv = {k: np.array(getattr(mjd, k)) for k in ("act_dot", "actuator_force", "qfrc_actuator", "actuator_length", "actuator_velocity")}
  mjw.step(m, d)
  mujoco.mj_step(mjm, mjd)
  act_after = d.act.numpy()
  out = []
  for i, r in enumerate(cases):
    c, o = r["c"], r["o"]
    adr = int(mjm.actuator_actadr[i])
    exp = {"actuator_force": o["force"] / 8, "qfrc_actuator": o["qfrc"] / 8, "actuator_length": float(o["length"]), "actuator_velocity": float(o["velocity"])}
    ref = {"actuator_force": refv["actuator_force"][i], "qfrc_actuator": refv["qfrc_actuator"][i], "actuator_length": refv["actuator_length"][i],
           "actuator_velocity": refv["actuator_velocity"][i]}
    idx = {"actuator_force": i, "qfrc_actuator": i, "actuator_length": i, "actuator_velocity": i}
    if adr >= 0:
      exp["act_dot"] = o["act_dot"] / 8
      ref["act_dot"] = refv["act_dot"][adr]
      idx["act_dot"] = adr
    for name, e in exp.items():
      if abs(ref[name] - e) > 1e-6:
        return [("MACHINERY", f"spec/MuJoCo disagree on {name}: spec {e} mujoco {ref[name]} case {c}", None)]
      g = got[name][:, idx[name]]
      if not np.allclose(g, e, atol=1e-5):
        out.append(({"what": "actuation differs from Actuation.tla", "field": name, "dyn": c["dyn"]}, f"{name}: got {g.tolist()} expected {e} (mujoco {ref[name]}) case {c}", {"case": c}))
        break
    else:
      if adr >= 0:
        e = o["next_act"] / 8
        if abs(mjd.act[adr] - e) > 1e-6:
          return [("MACHINERY", f"spec/MuJoCo disagree on next act: spec {e} mujoco {mjd.act[adr]} case {c}", None)]
        if not np.allclose(act_after[:, adr], e, atol=1e-5):
          out.append(({"what": "actuation differs from Actuation.tla", "field": "act(next)", "dyn": c["dyn"]}, f"act after step: got {act_after[:, adr].tolist()} expected {e} case {c}", {"case": c}))
  return out


FIELDS = ["actuator_length", "actuator_velocity", "actuator_force", "act_dot", "qfrc_actuator"]


def compare(rec, b, mjm, mjd, m, d, cmp, opts):
  import mujoco

  import mujoco_warp as mjw

  if mjm.nu == 0:
    return "skip:no_actuator"
  mujoco.mj_forward(mjm, mjd)
  mjw.fwd_position(m, d)
  mjw.fwd_velocity(m, d)
  mjw.fwd_actuation(m, d)
  mom = np.zeros((mjm.nu, mjm.nv))
  mujoco.mju_sparse2dense(mom, mjd.actuator_moment, mjd.moment_rownnz, mjd.moment_rowadr, mjd.moment_colind)
  for w in range(d.nworld):
    cmp.fields(d, mjd, FIELDS, world=w)
    gm = np.zeros((mjm.nu, mjm.nv))
    rn, ra, ci, am = d.moment_rownnz.numpy()[w], d.moment_rowadr.numpy()[w], d.moment_colind.numpy()[w], d.actuator_moment.numpy()[w]
    for u in range(mjm.nu):
      for k in range(rn[u]):
        gm[u, ci[ra[u] + k]] += am[ra[u] + k]
    cmp.close("actuator_moment", gm, mom)
  # next activation after one step
  if mjm.na:
    mujoco.mj_step(mjm, mjd)
    mjw.step(m, d)
    for w in range(d.nworld):
      cmp.close("act(next)", d.act.numpy()[w], mjd.act)


def run(ctx: core.Ctx):
  ctx.rule = ("(1) Actuation.tla: TLC checks the force-law invariants on every combination of the switches {dyntype none/integrator/filter, actearly, "
              "ctrllimited, clampctrl flag, actlimited, affine gain, affine bias, forcelimited, joint actuatorfrclimited} x integer inputs, and "
              "TLC -simulate emits cases with the exact expected act_dot / force / qfrc / next act; cases are packed 16 per model (one slide joint + one "
              "general actuator each) and fwd_actuation + step compared EXACTLY with the spec (and MuJoCo C, three-way). (2) ModelFamily.tla "
              "configurations with every actuator shortcut/transmission (motor, position, velocity, intvelocity, damper, cylinder, muscle, filter, "
              "filterexact, integrator, tendon, site(+refsite), slider-crank, jointinparent; ctrl/force/act limits, actearly, joint frc limits) "
              "compared with mj_forward / mj_step. distinct = distinct case / configuration")
  ctx.tlc("MC_Actuation", "MC_Actuation_quick.cfg" if ctx.quick else "MC_Actuation.cfg", timeout=1500)
  ncase = 640 if ctx.quick else 8000
  r = ctx.tlc("Gen_Actuation", "Gen_Actuation.cfg", gen=gen(ncase), workers=1, simulate="num=1", depth=ncase + 1, seed=ctx.seed % (1 << 30), timeout=900)
  cases = r.emit("case")
  seen, uniq = set(), []
  for c in cases:
    h = core.jhash(c["c"])
    if h not in seen:
      seen.add(h)
      uniq.append(c)
  work = []
  for nc in (False, True):
    grp = [c for c in uniq if c["c"]["noclamp"] == nc]
    for i in range(0, len(grp), 16):
      work.append((grp[i : i + 16], nc))
  for c in uniq:
    ctx.case({"case": c["c"], "expected": c["o"]}, nontrivial=c["c"]["dyn"] != "none" or c["c"]["ctrllim"] or c["c"]["forcelim"] or c["c"]["jntlim"], key=c["c"])
  ctx.traces_validated += len(uniq)
  for res in core.pmap(_lattice_chunk, work, nproc=14):
    for key, msg, scen in res:
      if key == "MACHINERY":
        raise RuntimeError(msg)
      ctx.violation(key, msg, scen)
  # reference half
  n = 150 if ctx.quick else 2500
  recs = family.sample(ctx, n, maxbody=5, joints=JOINTS, geoms=GEOMS, feats=FEATS, maxfeat=7, qclasses=("rand",), vclasses=("rand",))
  ctx.traces_validated += len(recs)
  parity.run(ctx, __name__, "compare", recs, nworld=2, opts={"tol": 2e-4}, what="actuation quantity differs from MuJoCo C")
  ctx.assumptions += ["lattice: timestep 1/4, tau 1/2, all values multiples of 1/8 (exact in float32); dcmotor / user dynamics are not generated; "
                      "reference half: MuJoCo C oracle, tolerance 2e-4 relative"]


def replay(ctx, scen):
  run(ctx)


META = {
  "text": "Actuation.tla transcribes the actuator force law (control clamp, activation dynamics, actearly, affine gain/bias, force clamp, joint "
          "actuator-force clamp, next activation) over integers; TLC checks its invariants on the full switch x input product and emits cases whose "
          "act_dot, force, generalized force and next activation the real fwd_actuation/step must reproduce exactly (three-way with MuJoCo C); the "
          "remaining dynamics/gain/bias/transmission types are enumerated through ModelFamily.tla and compared with MuJoCo C.",
  "note": "lattice cases are exact (1e-5 absolute); muscle/cylinder/filterexact/site/slider-crank/tendon transmissions are differential (2e-4 relative) over TLC-generated configurations",
  "technique": "TLA+ transcription of the force law (Actuation.tla) model-checked with TLC + one implementation test per TLC-emitted case; ModelFamily.tla enumeration with MuJoCo C oracle",
}
