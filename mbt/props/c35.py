"""C35  Rendered depth and segmentation match ray casting  (RenderPix.tla: buffer layout + pick over rendered geoms; per-geom MuJoCo distances as oracle)."""

from __future__ import annotations

import numpy as np

from .. import core, family
from . import c34

LEVEL = "model_checking"
TYPES = ["sphere", "capsule", "ellipsoid", "cylinder", "box", "mesh", "plane", "hfield"]


def gen(n, maxcam=3):
  mod = "---- MODULE Gen_RenderPix ----\nEXTENDS RenderPix\n====\n"
  cfg = f"CONSTANTS\n  Mode = \"sim\"\n  NCfg = {n}\n  MaxCam = {maxcam}\nSPECIFICATION Spec\nINVARIANT TypeOK\nINVARIANT EmitCfg\n"
  return {"Gen_RenderPix.tla": mod, "Gen_RenderPix.cfg": cfg}


def scene_xml(c, r):
  assets, world, moving = [], [], []
  ng = int(c["ngeom"])
  for i in range(ng):
    t = TYPES[i % len(TYPES)] if i < len(TYPES) else str(r.choice(TYPES[:6]))
    s = r.uniform(0.12, 0.3, size=3)
    pos, quat = r.uniform(-0.7, 0.7, size=3), family._unit(r, 4)
    extra, size = "", None
    if t == "plane":
      size, pos, quat = "0 0 .1", np.array([0, 0, -0.9]), np.array([1.0, 0, 0, 0])
    elif t == "hfield":
      nr, nc = int(r.integers(3, 6)), int(r.integers(3, 6))
      assets.append(f'<hfield name="hf{i}" nrow="{nr}" ncol="{nc}" size="{family._v(r.uniform(0.3, 0.5, size=2))} {r.uniform(0.1, 0.3):.3g} {r.uniform(0.02, 0.1):.3g}" elevation="{family._v(r.uniform(0, 1, size=nr * nc), 3)}"/>')
      extra = f' hfield="hf{i}"'
    elif t == "mesh":
      pts = r.uniform(-0.25, 0.25, size=(7, 3)) * np.array([1.0, 0.7, 0.5]) + r.uniform(-0.1, 0.1, size=3)
      pts[0] += np.array([0.35, 0.0, 0.0])
      assets.append(f'<mesh name="m{i}" vertex="{family._v(pts.reshape(-1), 4)}"/>')
      extra = f' mesh="m{i}"'
    else:
      size = family._v({"sphere": s[:1], "capsule": s[:2], "cylinder": s[:2], "ellipsoid": s, "box": s}[t])
    sz = f' size="{size}"' if size else ""
    gx = f'<geom name="g{i}" type="{t}"{sz}{extra} pos="{family._v(pos)}" quat="{family._v(quat)}" group="{int(r.integers(0, 6))}" rgba="{family._v(r.uniform(0.2, 1, size=3), 2)} 1"/>'
    (world if t in ("plane", "hfield") or r.random() < 0.4 else moving).append(gx)
  if c["room"]:
    world.append(f'<geom name="room" type="box" size="6 6 6" group="{int(r.integers(0, 6))}" rgba="0.3 0.3 0.3 1"/>')
  cams = []
  for i, cam in enumerate(c["cams"]):
    p = family._unit(r) * r.uniform(2.4, 3.4)
    if cam["proj"] == "ortho":
      lens = f'projection="orthographic" fovy="{r.uniform(1.5, 3.0):.4g}"'
    elif cam["proj"] == "intrinsic":
      sw = r.uniform(0.02, 0.05)
      sh = sw * cam["h"] / cam["w"]
      lens = f'focal="{r.uniform(0.02, 0.05):.4g} {r.uniform(0.02, 0.05):.4g}" sensorsize="{sw:.6g} {sh:.6g}" principal="{r.uniform(-0.004, 0.004):.3g} {r.uniform(-0.004, 0.004):.3g}"'
    else:
      lens = f'fovy="{r.uniform(25, 70):.4g}"'
    # look at a point near the origin: camera -z towards the target, random roll
    tgt = r.uniform(-0.2, 0.2, size=3)
    z = p - tgt
    z /= np.linalg.norm(z)
    u, w = c34.perp(z)
    a = r.uniform(0, 2 * np.pi)
    x = np.cos(a) * u + np.sin(a) * w
    y = np.cross(z, x)
    mode = ' mode="targetbody" target="moving"' if cam["home"] == "target" else ""
    cx = f'<camera name="cam{i}" xyaxes="{family._v(x, 6)} {family._v(y, 6)}" resolution="{cam["w"]} {cam["h"]}" {lens}{mode}/>'
    # one body per camera, in the order of the spec's camera list: camera ids are the spec's indices
    joint = '<inertial pos="0 0 0" mass="1" diaginertia=".1 .1 .1"/><freejoint/>' if cam["home"] == "moving" else ""
    cams.append(f'<body name="cb{i}" pos="{family._v(p, 6)}">{joint}{cx}</body>')
  xml = f"""<mujoco><option><flag contact="disable"/></option><size memory="20M"/><statistic extent="2" center="0 0 0"/><asset>{"".join(assets)}</asset><worldbody>
    {"".join(world)}
    <body name="moving" pos="0.1 0.05 0.1"><inertial pos="0 0 0" mass="1" diaginertia=".1 .1 .1"/><freejoint/>{"".join(moving)}</body>
    {"".join(cams)}
  </worldbody></mujoco>"""
  return xml


def frustum(mjm, camid, w, h, fovy=None, intrinsic=None):
  """left, right, bottom, top at znear (MuJoCo's definition: mjv_updateScene's frustum for intrinsic cameras, fovy otherwise), ortho flag"""
  znear = float(mjm.vis.map.znear * mjm.stat.extent)
  fovy = float(mjm.cam_fovy[camid]) if fovy is None else float(fovy)
  intr = np.array(mjm.cam_intrinsic[camid], dtype=float) if intrinsic is None else np.array(intrinsic, dtype=float)
  ss = mjm.cam_sensorsize[camid]
  ortho = int(mjm.cam_projection[camid]) == 1
  if ortho:
    hh = 0.5 * fovy
    hw = hh * w / h
    return -hw, hw, -hh, hh, znear, True
  if ss[1] != 0:
    kx, ky = znear / intr[0], znear / intr[1]
    return -kx * (ss[0] / 2 - intr[2]), kx * (ss[0] / 2 + intr[2]), -ky * (ss[1] / 2 + intr[3]), ky * (ss[1] / 2 - intr[3]), znear, False
  hh = znear * np.tan(0.5 * np.deg2rad(fovy))
  hw = hh * w / h
  return -hw, hw, -hh, hh, znear, False


def check_frustum(mjm, mjd, camid, w, h):
  """the frustum formula above against MuJoCo's own abstract camera (mjv_updateScene needs no GL)"""
  import mujoco

  scn = mujoco.MjvScene(mjm, maxgeom=10)
  cam = mujoco.MjvCamera()
  cam.type = mujoco.mjtCamera.mjCAMERA_FIXED
  cam.fixedcamid = camid
  mujoco.mjv_updateScene(mjm, mjd, mujoco.MjvOption(), None, cam, 0, scn)
  g = scn.camera[0]
  l, r_, b, t, zn, ortho = frustum(mjm, camid, w, h)
  ok = abs(g.frustum_bottom - b) < 1e-6 * max(1, abs(b)) and abs(g.frustum_top - t) < 1e-6 * max(1, abs(t)) and bool(g.orthographic) == ortho
  if g.frustum_width > 0:
    ok = ok and abs((g.frustum_center - g.frustum_width) - l) < 1e-6 and abs((g.frustum_center + g.frustum_width) - r_) < 1e-6
  return ok, (g.frustum_bottom, g.frustum_top, g.frustum_center, g.frustum_width, b, t, l, r_)


def pixel_ray(fr, w, h, px, py, cpos, cmat):
  l, r_, b, t, zn, ortho = fr
  x = l + (r_ - l) * (px + 0.5) / w
  y = t + (b - t) * (py + 0.5) / h
  if ortho:
    return cpos + cmat @ np.array([x, y, 0.0]), cmat @ np.array([0, 0, -1.0]), 1.0
  dl = np.array([x, y, -zn])
  dl /= np.linalg.norm(dl)
  return cpos, cmat @ dl, -dl[2]


def expected(mjm, mjd, rendered, cull, pnt, vec):
  """nearest hit over the rendered geoms, per-geom back-face culling; returns (dist, geoms, stable, tol)"""
  u, w = c34.perp(vec)
  variants = [(pnt, vec)] + [(pnt, vec + 3e-4 * a) for a in (u, -u, w, -w)]
  res = []
  for p, v in variants:
    best, who = np.inf, -1
    ds = {}
    for g in rendered:
      x, n = c34.geom_dist(mjm, mjd, g, p, v)
      if x >= 0 and cull and float(np.dot(v, n)) > 0:
        x = -1.0
      ds[g] = x
      if x >= 0 and x < best:
        best, who = x, g
    res.append((best, who, ds))
  best, who, ds = res[0]
  tol = 3e-4 * max(1.0, best if np.isfinite(best) else 1.0)
  stable = all(w2 == who and (not np.isfinite(best) or abs(b2 - best) < 0.02 * max(1.0, best)) for b2, w2, _ in res[1:])
  accept = {g for g, x in ds.items() if x >= 0 and x <= best + 4 * tol} if who >= 0 else {-1}
  return (best if who >= 0 else -1.0), accept, stable, tol


def _chunk(args):
  import mujoco
  import warp as wp

  import mujoco_warp as mjw

  cfgs, seed = args
  out = []
  for rec in cfgs:
    c, lay = rec["c"], rec["layout"]
    where = {"cfg": c}
    r = family.rng_for(c, seed, "render")
    try:
      mjm = mujoco.MjModel.from_xml_string(scene_xml(c, r))
    except Exception as e:
      out.append(("MACHINERY", f"scene does not compile: {e}", where))
      continue
    nworld = int(c["nworld"])
    cams = c["cams"]
    if [mjm.camera(f"cam{i}").id for i in range(len(cams))] != list(range(len(cams))):
      out.append(("MACHINERY", "camera ids are not the spec's indices", where))
      continue
    m = mjw.put_model(mjm)
    d = mjw.make_data(mjm, nworld=nworld)
    qpos = np.tile(mjm.qpos0, (nworld, 1))
    for w in range(nworld):
      for a in range(0, mjm.nq, 7):  # free joints only: the geom body, then the body-mounted cameras
        amp = 0.25 if a == 0 else 0.1
        qpos[w, a : a + 3] += r.uniform(-amp, amp, size=3)
        q = np.array([1.0, 0, 0, 0]) + (0.3 if a == 0 else 0.05) * r.normal(size=4)
        qpos[w, a + 3 : a + 7] = q / np.linalg.norm(q)
    wp.copy(d.qpos, wp.array(qpos.astype(np.float32), dtype=float))
    fovy_w = np.tile(mjm.cam_fovy, (nworld, 1))
    intr_w = np.tile(mjm.cam_intrinsic, (nworld, 1, 1))
    if c["batched"]:
      for w in range(nworld):
        fovy_w[w] *= 1.0 + 0.12 * w
        intr_w[w, :, :2] *= 1.0 + 0.1 * w
      m.cam_fovy = wp.array(fovy_w.astype(np.float32), dtype=float)
      m.cam_intrinsic = wp.array(intr_w.astype(np.float32), dtype=wp.vec4)
    mjw.forward(m, d)
    groups = sorted(int(g) for g in c["groups"])
    if not any(int(mjm.geom_group[g]) in groups for g in range(mjm.ngeom)):
      # nothing to render: every pixel is background.  Probed in a child process (the expected image is trivial, but the call may not return)
      code = ("import sys, json; sys.path.insert(0, sys.argv[1]); import mujoco, warp as wp; wp.config.log_level = wp.LOG_WARNING; import mujoco_warp as mjw\n"
              "from mbt import family; from mbt.props import c35\n"
              "c = json.loads(sys.argv[2]); mjm = mujoco.MjModel.from_xml_string(c35.scene_xml(c, family.rng_for(c, int(sys.argv[3]), 'render')))\n"
              "m = mjw.put_model(mjm); d = mjw.make_data(mjm); mjw.forward(m, d)\n"
              "rc = mjw.create_render_context(mjm, render_depth=True, render_seg=True, enabled_geom_groups=sorted(c['groups']))\n"
              "mjw.refit_bvh(m, d, rc); mjw.render(m, d, rc)\n"
              "import numpy as np; assert not rc.depth_data.numpy().any() and (rc.seg_data.numpy() == -1).all(); print('BACKGROUND')\n")
      import json as _json
      import subprocess
      import sys as _sys

      pr = subprocess.run([_sys.executable, "-c", code, core.VERIF, _json.dumps(c), str(seed)], capture_output=True, text=True, timeout=900, cwd="/",
                          env={**__import__("os").environ, "PYTHONPATH": core.REPO})
      if "BACKGROUND" not in pr.stdout:
        out.append(({"what": "render does not return a background image when no geom is in an enabled group", "cls": "no_rendered_geoms"},
                    f"child exit {pr.returncode} {pr.stderr[-200:]}", where))
      out.append(("ok", {"pixels": 0, "unstable": 0, "hits": 0}, None))
      continue
    active = [bool(cm["active"]) for cm in cams]
    aidx = [i for i, a in enumerate(active) if a]
    try:
      rc = mjw.create_render_context(mjm, nworld=nworld, render_rgb=[bool(cams[i]["rgb"]) for i in aidx], render_depth=[bool(cams[i]["depth"]) for i in aidx],
                                     render_seg=[bool(cams[i]["seg"]) for i in aidx], enabled_geom_groups=groups, cam_active=active,
                                     enable_backface_culling=bool(c["cull"]), use_precomputed_rays=bool(c["precomputed"]))
      mjw.refit_bvh(m, d, rc)
      mjw.render(m, d, rc)
    except Exception as e:
      out.append(({"what": "render raised", "type": type(e).__name__}, str(e)[:300], where))
      continue
    bads = {}
    # layout: the context's addresses are the spec's
    for outname, arr in (("rgb", rc.rgb_adr), ("depth", rc.depth_adr), ("seg", rc.seg_adr)):
      got = [int(x) for x in arr.numpy()]
      exp = [int(x) for x in lay["adr"][outname]]
      if got != exp:
        bads.setdefault("adr" + outname, ({"what": "buffer addresses differ from RenderPix.tla", "out": outname}, f"got {got} expected {exp}"))
    if rc.depth_data.shape[1] != int(lay["size"]["depth"]) or rc.rgb_data.shape[1] != int(lay["size"]["rgb"]) or rc.seg_data.shape[1] != max(int(lay["size"]["seg"]), 1):
      bads.setdefault("size", ({"what": "buffer sizes differ from RenderPix.tla"}, f"depth {rc.depth_data.shape} rgb {rc.rgb_data.shape} seg {rc.seg_data.shape} expected {lay['size']}"))
    depth_buf, seg_buf = rc.depth_data.numpy(), rc.seg_data.numpy()
    rendered = [g for g in range(mjm.ngeom) if int(mjm.geom_group[g]) in groups]
    stats = {"pixels": 0, "unstable": 0, "hits": 0}
    ref0 = mujoco.MjData(mjm)
    mujoco.mj_forward(mjm, ref0)
    for ri, ci in enumerate(aidx):
      cm = cams[ci]
      W, H = int(cm["w"]), int(cm["h"])
      okf, det = check_frustum(mjm, ref0, ci, W, H)
      if not okf:
        out.append(("MACHINERY", f"frustum formula differs from mjv_updateScene for camera {ci} ({cm['proj']}): {det}", where))
        continue
      dadr, sadr = int(lay["adr"]["depth"][ri]), int(lay["adr"]["seg"][ri])
      if dadr < 0 and sadr < 0:
        continue
      dimg = simg = None
      if dadr >= 0:
        dd_ = wp.zeros((nworld, H, W), dtype=float)
        mjw.get_depth(rc, ri, 10.0, dd_)
        dimg = dd_.numpy()
      if sadr >= 0:
        ss_ = wp.zeros((nworld, H, W), dtype=wp.vec2i)
        mjw.get_segmentation(rc, ri, ss_)
        simg = ss_.numpy()
      for w in range(nworld):
        dd = mujoco.MjData(mjm)
        dd.geom_xpos[:] = d.geom_xpos.numpy()[w]
        dd.geom_xmat[:] = d.geom_xmat.numpy()[w].reshape(mjm.ngeom, 9)
        cpos = d.cam_xpos.numpy()[w, ci].astype(np.float64)
        cmat = d.cam_xmat.numpy()[w, ci].astype(np.float64).reshape(3, 3)
        fr = frustum(mjm, ci, W, H, fovy_w[w, ci], intr_w[w, ci]) if c["batched"] else frustum(mjm, ci, W, H)
        for py in range(H):
          for px in range(W):
            o, v, cosang = pixel_ray(fr, W, H, px, py, cpos, cmat)
            best, accept, stable, tol = expected(mjm, dd, rendered, bool(c["cull"]), o, v)
            stats["pixels"] += 1
            if not stable:
              stats["unstable"] += 1
              continue
            stats["hits"] += best >= 0
            local = py * W + px
            key = msg = None
            if dadr >= 0:
              gd = float(depth_buf[w, dadr + local])
              ed = best * cosang if best >= 0 else 0.0
              if abs(gd - ed) > tol:
                key, msg = "depth is not the nearest rendered hit's", f"depth {gd:.6g} expected {ed:.6g} (geom {sorted(accept)})"
              elif abs(float(dimg[w, py, px]) - min(max(gd / 10.0, 0.0), 1.0)) > 1e-6:
                key, msg = "get_depth image differs from the depth buffer cell", f"image {dimg[w, py, px]} buffer {gd}"
            if key is None and sadr >= 0:
              sg = [int(x) for x in seg_buf[w, sadr + local]]
              if best < 0:
                if sg != [-1, -1]:
                  key, msg = "segmentation reports a geom where nothing rendered is hit", f"seg {sg}"
              elif sg[0] not in accept or sg[1] != int(mujoco.mjtObj.mjOBJ_GEOM):
                key, msg = "segmentation is not the nearest rendered geom", f"seg {sg} expected geom {sorted(accept)} at {best:.6g}"
              elif [int(x) for x in simg[w, py, px]] != sg:
                key, msg = "get_segmentation image differs from the buffer cell", f"image {simg[w, py, px]} buffer {sg}"
            if key:
              hf = [g for g in sorted(accept) if g >= 0 and int(mjm.geom_type[g]) == 1]
              g0 = hf[0] if hf else sorted(accept)[0]
              kk = {"what": key, "proj": cm["proj"], "geomtype": int(mjm.geom_type[g0]) if g0 >= 0 else -1}
              if hf:
                kk["part"] = "top"
                for g0 in hf:
                  loc = dd.geom_xmat[g0].reshape(3, 3).T @ (o + best * v - dd.geom_xpos[g0])
                  hs = mjm.hfield_size[mjm.geom_dataid[g0]]
                  if loc[2] <= 1e-4 or abs(loc[0]) >= hs[0] - 1e-4 or abs(loc[1]) >= hs[1] - 1e-4:
                    kk["part"] = "base_or_side"
              bads.setdefault(core.jhash(kk), (kk, f"camera {ci} (render index {ri}, {cm['proj']}, {cm['home']}) world {w} pixel ({px},{py}): {msg}"))
    for kk, msg in bads.values():
      out.append((kk, msg, where))
    out.append(("ok", stats, None))
  return out


def run(ctx: core.Ctx):
  ctx.rule = ("RenderPix.tla: (mc) for every list of up to 2 cameras (4 resolutions, rgb/depth/seg and active flags) the megakernel's rayid scan is a "
              "bijection onto (camera, pixel) and the depth/seg/rgb cells of different pixels are disjoint, gap-free and absent for cameras that do not "
              "produce the output. (sim) TLC emits 1..3 cameras (6 resolutions; fovy / intrinsic / orthographic lenses; fixed, body-mounted and "
              "target-tracking), output and active flags, 1..3 worlds with distinct poses, back-face culling, enabled geom groups, precomputed or "
              "in-kernel rays with per-world lens parameters, optional enclosing room, with the spec's buffer addresses; every pixel's depth and "
              "segmentation cell (at the spec's address, and through get_depth / get_segmentation) must be the nearest hit of the pixel's ray "
              "(MuJoCo's frustum, cross-checked with mjv_updateScene) over the rendered geoms by per-geom MuJoCo intersections; silhouette pixels "
              "whose answer changes under a 3e-4 direction change are not compared")
  ctx.tlc("RenderPix", "MC_RenderPix.cfg", timeout=1800)
  n = 42 if ctx.quick else 2500
  r = ctx.tlc("Gen_RenderPix", "Gen_RenderPix.cfg", gen=gen(n), workers=1, simulate="num=1", depth=n + 1, seed=ctx.seed % (1 << 30), timeout=900)
  cfgs, seen = [], set()
  for c in r.emit("cfg"):
    h = core.jhash(c["c"])
    if h not in seen:
      seen.add(h)
      cfgs.append(c)
      ctx.case({"cfg": c["c"]}, nontrivial=True, key=c["c"])
  ctx.traces_validated = len(cfgs)
  CH = max(1, len(cfgs) // 28 + 1)
  tot = {"pixels": 0, "unstable": 0, "hits": 0}
  done, crashes = core.pmap_chunks(_chunk, [(cfgs[i : i + CH], ctx.seed) for i in range(0, len(cfgs), CH)], lambda ch: [([x], ch[1]) for x in ch[0]])
  for single, cr in crashes:
    ctx.violation({"what": "the process dies", "signal": int(cr.returncode), "where": core.crash_site(cr)}, cr.stderr_tail[-600:], {"cfg": single[0][0]["c"]})
  for res in done:
    for key, msg, scen in res:
      if key == "MACHINERY":
        raise RuntimeError(msg)
      if key == "ok":
        for k in tot:
          tot[k] += int(msg[k])
        continue
      ctx.violation(key, msg, scen)
  ctx.assumptions.append(f"pixels compared {tot['pixels'] - tot['unstable']} (hits {tot['hits']}), silhouette pixels skipped {tot['unstable']}")
  if tot["pixels"] and tot["hits"] < 0.1 * tot["pixels"]:
    raise RuntimeError(f"vacuous: only {tot['hits']} of {tot['pixels']} pixels hit anything")
  ctx.assumptions += ["camera and geom poses are MJWarp's own float32 kinematics; depth tolerance 3e-4 relative",
                      "image aspect equals the sensor aspect for intrinsic cameras; flex, splats, textures and rgb values are not compared"]


def replay(ctx, scen):
  run(ctx)


META = {
  "text": "RenderPix.tla specifies the render context's ray index space and the packing of the depth / segmentation / rgb buffers over the active "
          "cameras, model-checked for bijection, disjointness and gap-freedom; TLC emits camera lists and context options with the spec's "
          "addresses; every pixel's depth and segmentation cell of a real render (and the get_depth / get_segmentation images) is compared with "
          "the nearest hit of that pixel's ray over the rendered geoms, computed from MuJoCo's per-geom intersections and MuJoCo's frustum.",
  "note": "sampled scenes; small images (<= 108 pixels per camera); silhouette pixels skipped; rgb not compared",
  "technique": "TLA+ spec of the render buffer layout and pixel pick (RenderPix.tla) model-checked by TLC + spec->code replay of TLC-emitted camera configurations with per-geom MuJoCo distances as oracle",
}
