"""C33  set_const recomputes derived model fields correctly  (SetConst.tla dependency table; per-world mj_setConst as oracle)."""

from __future__ import annotations

import numpy as np

from .. import core
from . import c10

LEVEL = "exploration"
DERIVED = ["body_subtreemass", "tendon_length0", "dof_invweight0", "body_invweight0", "tendon_invweight0", "cam_pos0", "cam_poscom0", "cam_mat0",
           "light_pos0", "light_poscom0", "light_dir0", "actuator_acc0"]


def gen(n):
  mod = "---- MODULE Gen_SetConst ----\nEXTENDS SetConst\n====\n"
  cfg = f"CONSTANTS\n  Mode = \"sim\"\n  NCfg = {n}\nSPECIFICATION Spec\nINVARIANT TypeOK\nINVARIANT EmitCfg\n"
  return {"Gen_SetConst.tla": mod, "Gen_SetConst.cfg": cfg}


def perturb(mjm, changed, w, rng):
  """applies the world-w variant of the changed inputs to an MjModel copy; returns dict of new arrays"""
  new = {}
  s = 1.0 + 0.25 * (w + 1)
  if "body_mass_inertia" in changed:
    new["body_mass"] = mjm.body_mass * s
    new["body_inertia"] = mjm.body_inertia * s
  if "body_pos" in changed:
    p = mjm.body_pos.copy()
    mov = [b for b in range(1, mjm.nbody) if mjm.body_parentid[b] != 0]  # bodies that hang on a moving parent
    for b in mov:
      p[b] += 0.03 * (w + 1) * np.array([1.0, -0.5, 0.25])
    new["body_pos"] = p
  if "qpos0" in changed:
    q = mjm.qpos0.copy()
    for j in range(mjm.njnt):
      if mjm.jnt_type[j] in (2, 3):
        q[mjm.jnt_qposadr[j]] += 0.01 * (w + 1)
    new["qpos0"] = q
  if "dof_armature" in changed:
    new["dof_armature"] = mjm.dof_armature * s + 0.01 * (w + 1)
  if "body_ipos" in changed:
    p = mjm.body_ipos.copy()
    p[1:] += 0.01 * (w + 1)
    new["body_ipos"] = p
  return new


def _chunk(args):
  import copy

  import mujoco
  import warp as wp

  import mujoco_warp as mjw

  cfgs, seed = args
  out = []
  base = mujoco.MjModel.from_xml_string(c10.SCENE)
  rng = np.random.default_rng(seed)
  for rec in cfgs:
    c = rec["c"]
    changed = set(c["changed"])
    nworld = 3
    nb = nworld if c["batched"] else 1
    where = {"cfg": c}
    m = mjw.put_model(base)
    d = mjw.make_data(base, nworld=nworld)
    before = {n: (getattr(m, n).numpy().copy()) for n in DERIVED}
    before["stat.meaninertia"] = m.stat.meaninertia.numpy().copy()
    # per-world reference models
    refs = []
    rows = {}
    for w in range(nb):
      mm = copy.deepcopy(base)
      new = perturb(base, changed, w, rng)
      for k, v in new.items():
        getattr(mm, k)[...] = v
        rows.setdefault(k, []).append(np.asarray(v))
      dd = mujoco.MjData(mm)
      mujoco.mj_setConst(mm, dd)
      refs.append(mm)
    for k, lst in rows.items():
      arr = getattr(m, k)
      a = np.stack(lst).astype(arr.numpy().dtype).reshape((nb,) + arr.numpy().shape[1:])
      setattr(m, k, wp.array(a, dtype=arr.dtype))
    if nb > 1:
      # set_const writes as many rows of a derived field as the field has: per-world results need per-world storage
      for n in DERIVED:
        arr = getattr(m, n)
        setattr(m, n, wp.array(np.repeat(arr.numpy()[:1], nb, axis=0), dtype=arr.dtype))
      m.stat.meaninertia = wp.array(np.repeat(m.stat.meaninertia.numpy()[:1], nb, axis=0), dtype=float)
    # a non-trivial state that must survive when restore is requested
    q0 = d.qpos.numpy().copy()
    q0[:, 7] += 0.2
    wp.copy(d.qpos, wp.array(q0, dtype=float))
    mjw.forward(m, d)
    xpos_before = d.xpos.numpy().copy()
    try:
      mjw.set_const(m, d, restore=bool(c["restore"]))
    except Exception as e:
      out.append(({"what": "set_const raised", "type": type(e).__name__}, str(e)[:300], where))
      continue
    bad = None
    for n in DERIVED + ["stat.meaninertia"]:
      got = (m.stat.meaninertia if n == "stat.meaninertia" else getattr(m, n)).numpy().astype(np.float64)
      for w in range(nworld):
        ref = refs[w % nb]
        r = np.asarray(ref.stat.meaninertia if n == "stat.meaninertia" else getattr(ref, n), dtype=np.float64)
        g = got[w % got.shape[0]] if got.ndim > r.ndim or (got.ndim == r.ndim and got.shape[0] != r.shape[0] if r.ndim else True) else got
        g = np.asarray(g).reshape(-1)
        rr = r.reshape(-1)
        if g.size != rr.size:
          g = got.reshape(got.shape[0], -1)[w % got.shape[0]]
        sc = max(1.0, float(np.abs(rr).max()) if rr.size else 1.0)
        if rr.size and float(np.abs(g - rr).max()) > 2e-4 * sc:
          bad = (n, f"world {w}: {n} differs from mj_setConst by {float(np.abs(g - rr).max()):.3g} (scale {sc:.3g})")
          break
      if bad:
        break
      # ownership: a derived field none of the changed inputs feeds must keep its value
      if n not in rec["maychange"]:
        g0 = got.reshape(got.shape[0], -1)[0]
        b0 = before[n].astype(np.float64).reshape(before[n].shape[0], -1)[0]
        if not np.allclose(g0, b0, rtol=1e-5, atol=1e-6):
          bad = (n, f"{n} changed although none of {sorted(changed)} feeds it")
          break
    if bad:
      out.append(({"what": "set_const result differs from mj_setConst", "field": bad[0], "batched": c["batched"]}, bad[1], where))
      continue
    if c["restore"]:
      xp = d.xpos.numpy()
      # restore: Data corresponds to d.qpos again (body positions of the pre-call state, in the new model)
      d2 = mjw.make_data(base, nworld=nworld)
      wp.copy(d2.qpos, wp.array(q0, dtype=float))
      mjw.kinematics(m, d2)
      if not np.allclose(xp, d2.xpos.numpy(), atol=1e-5):
        out.append(({"what": "Data state not restored after set_const(restore=True)"}, f"max xpos diff {float(np.abs(xp - d2.xpos.numpy()).max()):.3g}", where))
        continue
    out.append(("ok", None, None))
  return out


def run(ctx: core.Ctx):
  ctx.rule = ("SetConst.tla: non-empty subsets of the set_const-safe inputs {body mass+inertia, body_pos, qpos0, dof_armature} x batched per "
              "world or not x restore flag, with the derived fields each input feeds; for each TLC-emitted case the inputs are changed (3 distinct rows "
              "when batched), set_const is called on a scene with tendons, cameras, lights, position actuators and equalities, and every derived "
              "field is compared per world with mj_setConst on a per-world MjModel; fields fed by no changed input must be unchanged; with restore the "
              "Data must correspond to its qpos again")
  n = 40 if ctx.quick else 400
  r = ctx.tlc("Gen_SetConst", "Gen_SetConst.cfg", gen=gen(n), workers=1, simulate="num=1", depth=n + 1, seed=ctx.seed % (1 << 30), timeout=900)
  cfgs, seen = [], set()
  for c in r.emit("cfg"):
    h = core.jhash(c["c"])
    if h not in seen:
      seen.add(h)
      cfgs.append(c)
      ctx.case({"cfg": c["c"]}, nontrivial=True, key=c["c"])
  ctx.traces_validated = len(cfgs)
  CH = max(1, len(cfgs) // 14 + 1)
  for res in core.pmap(_chunk, [(cfgs[i : i + CH], ctx.seed) for i in range(0, len(cfgs), CH)], nproc=14):
    for key, msg, scen in res:
      if key != "ok":
        ctx.violation(key, msg, scen)
  ctx.assumptions += ["one scene (C10's); 2e-4 relative; eq_data / tendon stiffness / actuator dampratio inputs are not varied"]


def replay(ctx, scen):
  run(ctx)


META = {
  "text": "SetConst.tla records which derived Model fields each set_const-safe input feeds; TLC emits input subsets x batching x restore; "
          "set_const's output is compared per world with mj_setConst on per-world MjModels, fields not fed by a changed input must keep their "
          "values, and the Data state must be restored when requested.",
  "note": "differential against MuJoCo C over TLC-generated input subsets; one scene",
  "technique": "TLA+ dependency table (SetConst.tla) sampled by TLC + spec->code replay with mj_setConst as oracle",
}
