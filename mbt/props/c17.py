"""C17  No out-of-bounds access or crash on accepted inputs  (Accept.tla outcomes; index-range invariants of the allocator/island/SAP specs;
scenario runs in crash-isolated processes, partly on Warp's bounds-checked debug build)."""

from __future__ import annotations

import os

import numpy as np

from .. import core
from ..scenes import rows_scene

LEVEL = "exploration"


def scene_xml(name, c):
  flags = ('<flag sleep="enable"/>' if c["sleep"] else "")
  if c["noisland"]:
    flags = flags.replace("/>", ' island="disable"/>') if flags else '<flag island="disable"/>'
  opt = f'cone="{c["cone"]}" jacobian="{c["jac"]}" solver="{c["solver"]}"'
  if name == "rows":
    x = rows_scene([3, 1, 4], connects=1, welds=0, hinges=2, hinge_limit=True, hinge_friction=True, jointeqs=1, cone=c["cone"], jacobian=c["jac"], solver=c["solver"])
    return x.replace("<option ", "<option ").replace("></option>", f">{flags}</option>") if "></option>" in x else x
  if name == "stack":
    bodies = "".join(f'<body pos="{0.02 * i} 0 {0.099 + 0.2 * i}"><freejoint/><geom type="box" size="0.1 0.1 0.1"/></body>' for i in range(3))
    return f'<mujoco><option {opt}>{flags}</option><worldbody><geom type="plane" size="5 5 .1"/>{bodies}<body pos="1 0 0.05"><freejoint/><geom type="capsule" size="0.05 0.1"/></body></worldbody></mujoco>'
  if name == "chain":
    s = ""
    for i in reversed(range(6)):
      s = f'<body pos="0 0 -0.2"><joint type="hinge" axis="0 1 0" limited="true" range="-30 30"/><geom type="capsule" fromto="0 0 0 0 0 -0.2" size="0.03"/>{s}</body>'
    s = s.replace('pos="0 0 -0.2"', 'pos="0 0 1.0"', 1)
    return f'<mujoco><option {opt}>{flags}</option><worldbody><geom type="plane" size="5 5 .1"/>{s}<body pos="0.5 0 0.2"><freejoint/><geom size="0.1"/></body></worldbody></mujoco>'
  if name == "mixed":
    # contacts whose rows have very different numbers of non-zeros: a 1-dof ball pressed on the floor first, a free box in contact after it,
    # a free capsule in the air (so that the row budget per contact is sized for the widest pair and a narrow block finds room beyond njmax)
    return (f'<mujoco><option {opt}>{flags}</option><worldbody><geom type="plane" size="5 5 .1"/>'
            '<body pos="0 0 0.095"><joint type="slide" axis="0 0 1"/><geom type="sphere" size="0.1"/></body>'
            '<body pos="1 0 0.099"><freejoint/><geom type="box" size="0.1 0.1 0.1"/></body>'
            '<body pos="2 0 0.6"><freejoint/><geom type="capsule" size="0.05 0.1"/></body></worldbody></mujoco>')
  raise AssertionError(name)


RUNNER = r"""
import sys, json
import numpy as np, mujoco, warp as wp
wp.config.log_level = wp.LOG_WARNING
c = json.loads(sys.argv[1]); xml = sys.argv[2]; debug = sys.argv[3] == "1"
if debug:
  wp.config.mode = "debug"
  wp.config.kernel_cache_dir = sys.argv[4]
import mujoco_warp as mjw
from mujoco_warp._src import io as _io
mjm = mujoco.MjModel.from_xml_string(xml)
# what the scene needs (ample run), computed with MuJoCo C
mjd = mujoco.MjData(mjm)
try:
  mujoco.mj_forward(mjm, mjd)
  need_con, need_efc = max(1, mjd.ncon), max(1, mjd.nefc)
except mujoco.FatalError:  # the oracle gives up on some pinned flexes (mj_island): sizes by rule of thumb
  need_con, need_efc = 64, 256
cap = lambda cls, need: {"neg": -1, "zero": 0, "one": 1, "short1": max(need - 1, 1), "short2": max(need - 2, 1), "half": max(need // 2, 1), "exact": need, "ample": 8 * need + 16}[cls]
kw = {}
if c["nvmax"] != "default":
  kw["nvmax"] = {"neg": -1, "zero": 0, "one": 1, "nv": mjm.nv, "toolarge": mjm.nv + 1}[c["nvmax"]]
try:
  m = mjw.put_model(mjm)
  _io.override_model(m, {"opt.broadphase": c["broadphase"]})
  d = mjw.make_data(mjm, nworld=c["nworld"], nconmax=cap(c["nconmax"], need_con), njmax=cap(c["njmax"], need_efc), **kw)
except (ValueError, NotImplementedError) as e:
  print("OUTCOME rejected " + type(e).__name__ + " " + str(e)[:100]); sys.exit(0)
rng = np.random.default_rng(1)
for s in range(4):
  if s == 2:  # a perturbation in one world
    v = d.qvel.numpy(); v[0] = rng.uniform(-2, 2, size=v.shape[1]); wp.copy(d.qvel, wp.array(v, dtype=float))
  mjw.step(m, d)
mjw.forward(m, d)
scratch = mujoco.MjData(mjm)
for w in range(c["nworld"]):
  mjw.get_data_into(scratch, mjm, d, world_id=w)
mjw.reset_data(m, d)
mjw.step(m, d)
print("OUTCOME runs overflow=" + str(d.overflow.numpy().tolist()))
"""


def _run_one(item):
  import json
  import subprocess
  import sys

  c, xml, debug, cachedir = item
  e = dict(os.environ)
  e["PYTHONPATH"] = core.REPO + os.pathsep + core.VERIF + os.pathsep + e.get("PYTHONPATH", "")
  try:
    r = subprocess.run([sys.executable, "-c", RUNNER, json.dumps(c), xml, "1" if debug else "0", cachedir], capture_output=True, text=True, timeout=1500, env=e, cwd="/")
  except subprocess.TimeoutExpired:
    return ("timeout", "")
  line = [l for l in r.stdout.splitlines() if l.startswith("OUTCOME")]
  if r.returncode != 0 or not line:
    return ("crash", f"rc={r.returncode} " + (r.stderr[-600:] or r.stdout[-300:]))
  return (line[0].split(" ")[1], line[0])


def gen(n):
  mod = 'EXTENDS Accept\nGScenes == {"rows", "stack", "chain", "mixed"}\n'
  mod = "---- MODULE Gen_Accept ----\n" + mod + "====\n"
  cfg = f"""CONSTANTS
  Scenes <- GScenes
  Mode = "sim"
  NCfg = {n}
SPECIFICATION Spec
INVARIANT TypeOK
INVARIANT TotalOutcome
INVARIANT EmitCfg
"""
  return {"Gen_Accept.tla": mod, "Gen_Accept.cfg": cfg}


def featured(ctx):
  """(config, xml, debug, cachedir) of models that exercise sensors (incl. contact-list sensors), tendons, actuators, equalities, flexes and meshes"""
  from .. import family
  from . import c07b, c40

  cachedir = os.path.join(core.VERIF, ".cache", "warp-debug")
  base = {"sleep": False, "noisland": False, "solver": "Newton", "cone": "pyramidal", "jac": "dense", "broadphase": "nxn", "nworld": 2, "nconmax": "ample", "njmax": "ample", "nvmax": "default"}
  out = []
  # the contact-sensor scene of C07 part B with one sensor of every kind
  sens = ('<contact subtree1="A" geom2="c1" data="found force torque dist pos normal tangent" reduce="mindist" num="3"/><contact site="S0" data="found" num="2"/>'
          '<contact body1="world" reduce="netforce" data="force torque pos"/><touch site="S1"/><touch site="S2" cutoff="5"/><distance geom1="a1" body2="C" cutoff="1"/>'
          '<normal body1="B" body2="D" cutoff="1"/><fromto geom1="a2" geom2="d1" cutoff="1"/><accelerometer site="S3"/><force site="S4"/><torque site="S0"/>')
  for cone, bp in (("pyramidal", "nxn"), ("elliptic", "sap_tile")) if not ctx.quick else (("elliptic", "nxn"),):
    out.append((dict(base, scene=f"sensors:{cone}", cone=cone, broadphase=bp), c07b.scene_xml(sens, {"cone": cone}), True, cachedir))
  if ctx.quick:
    return out
  # rich ModelFamily configurations (TLC-sampled in C01's way) with every feature group
  recs = family.sample(ctx, 12, seed_off=17, maxbody=5, joints=("free", "ball", "hinge", "slide", "hinge2", "ballslide", "weld"), geoms=("sphere", "capsule", "box", "ellipsoid", "cylinder"),
                       feats=("floor", "contacts", "jlimit", "tlimit", "frictionloss", "eq_connect", "eq_weld", "eq_joint", "tendon_fixed", "tendon_spatial", "wrap", "act_motor", "act_position",
                              "act_filter", "act_tendon", "sens_pos", "sens_vel", "sens_acc", "sens_site", "site", "camlight", "spring", "damper", "gravcomp", "fluid", "fluid_ellipsoid", "applied"),
                       maxfeat=12)
  for i, rec in enumerate(recs[:8]):
    b = family.build(rec, ctx.seed)
    jac = ["dense", "sparse"][i % 2]
    out.append((dict(base, scene=f"family:{i}", jac=jac, cone=["pyramidal", "elliptic"][(i // 2) % 2], broadphase=["nxn", "sap_tile", "sap_segmented"][i % 3]),
                b.xml.replace('jacobian="auto"', f'jacobian="{jac}"'), True, cachedir))
  # flex configurations accepted by put_model (plane obstacle, rider with sensors, crossing rope)
  flexcfg = {"dim": 2, "size": 2, "dof": "full", "eq": "true", "young": False, "eldamp": False, "e2d": "none", "edgedamp": True, "edgestiff": False, "pin": "one", "selfcollide": "none",
             "internal": False, "obstacle": "plane", "condim": 3, "margin": False, "cone": "pyramidal", "jacobian": "dense", "second": "cross", "nworld": 2, "state": "small", "rider": True}
  for i, upd in enumerate(({}, {"dim": 1, "size": 3, "selfcollide": "auto", "jacobian": "sparse"}, {"dim": 3, "size": 1, "dof": "trilinear", "eq": "strain", "second": "none", "cone": "elliptic"},
                           {"dim": 3, "size": 1, "young": True, "eq": "false", "obstacle": "sphere", "second": "far"})):
    c = dict(flexcfg, **upd)
    out.append((dict(base, scene=f"flex:{i}", jac=c["jacobian"], cone=c["cone"]), c40.scene_xml(c, np.random.default_rng(i)), True, cachedir))
  return out


def run(ctx: core.Ctx):
  import concurrent.futures as cf

  ctx.rule = ("(1) TLC re-checks the index-range invariants of the modelled kernels: RowAlloc/ContactBuf (every row/contact/pair index below its "
              "capacity for every capacity 0..need+1 and interleaving), Island.StackBound (DFS stack <= ntree^2), Sap.InRange (decoded work-package "
              "indices). (2) Accept.tla gives the outcome (runs / rejected) of configurations over scenes x flags (sleep with and without islands) x "
              "solver x cone x Jacobian x broadphase x nworld x capacity classes (-1, 0, 1, exact, ample) x nvmax classes; every TLC-emitted "
              "configuration is executed in its own process (4 steps, forward, get_data_into for every world, reset_data, step): the process must "
              "end with the spec's outcome - a crash / abort / non-Python error is a violation. A subset runs on Warp's debug build, where an "
              "out-of-range array index aborts the process")
  ctx.tlc("MC_RowAlloc", "MC_RowAlloc_quick.cfg", timeout=1800)
  ctx.tlc("MC_ContactBuf", "MC_ContactBuf_nosleep.cfg", timeout=900)
  ctx.tlc("MC_Sap", "MC_Sap.cfg", timeout=900)
  from . import c28

  ctx.tlc("Gen_Island", "Gen_Island.cfg", gen=c28.gen(3, "graphs", emit=False), timeout=900)
  n = 70 if ctx.quick else 600
  r = ctx.tlc("Gen_Accept", "Gen_Accept.cfg", gen=gen(n), workers=1, simulate="num=1", depth=n + 1, seed=ctx.seed % (1 << 30), timeout=900)
  cfgs = r.emit("cfg")
  seen, items = set(), []
  for rec in cfgs:
    h = core.jhash(rec["c"])
    if h in seen:
      continue
    seen.add(h)
    items.append(rec)
  cachedir = os.path.join(core.VERIF, ".cache", "warp-debug")
  os.makedirs(cachedir, exist_ok=True)
  ndebug = 2 if ctx.quick else 24
  dbg = [rec for rec in items if rec["outcome"] == "runs" and rec["c"]["nworld"] == 3][:ndebug]
  work = [(rec["c"], scene_xml(rec["c"]["scene"], rec["c"]), False, cachedir) for rec in items]
  with cf.ThreadPoolExecutor(max_workers=12) as ex:
    res = list(ex.map(_run_one, work))
  for rec, (got, detail) in zip(items, res):
    c = rec["c"]
    ctx.case({"cfg": c, "expected": rec["outcome"], "got": got}, nontrivial=True, key=c)
    if got in ("crash", "timeout"):
      ctx.violation({"what": "process crashed", "flags": f"sleep={'enable' if c['sleep'] else 'disable'} island={'disable' if c['noisland'] else 'enable'}",
                     "nconmax": c["nconmax"], "njmax": c["njmax"]}, detail, {"cfg": c})
    elif got != rec["outcome"]:
      ctx.violation({"what": f"configuration {got} but Accept.tla says {rec['outcome']}", "nworld": c["nworld"], "nconmax": c["nconmax"], "njmax": c["njmax"], "nvmax": c["nvmax"]},
                    detail, {"cfg": c})
  # debug build (serial JIT into one cache directory first, then the rest)
  dres = [_run_one((rec["c"], scene_xml(rec["c"]["scene"], rec["c"]), True, cachedir)) for rec in dbg[:1]]
  with cf.ThreadPoolExecutor(max_workers=4) as ex:
    dres += list(ex.map(_run_one, [(rec["c"], scene_xml(rec["c"]["scene"], rec["c"]), True, cachedir) for rec in dbg[1:]]))
  for rec, (got, detail) in zip(dbg, dres):
    ctx.case({"cfg": rec["c"], "debug_build": True, "got": got}, key=("debug", rec["c"]))
    if got != "runs":
      ctx.violation({"what": "bounds-checked debug build aborted", "scene": rec["c"]["scene"]}, detail, {"cfg": rec["c"], "debug": True})
  # feature-rich models on the debug build: the four scenes above have no sensors, tendons, actuators, flexes or meshes
  feat = featured(ctx)
  fres = [_run_one(feat[0])] if feat else []
  with cf.ThreadPoolExecutor(max_workers=4) as ex:
    fres += list(ex.map(_run_one, feat[1:]))
  for (c, xml, _dbg, _cd), (got, detail) in zip(feat, fres):
    ctx.case({"featured": c["scene"], "debug_build": True, "got": got}, key=("featured", c["scene"], c["broadphase"]))
    if got != "runs":
      ctx.violation({"what": "bounds-checked debug build aborted", "scene": c["scene"].split(":")[0]}, detail, {"cfg": c, "debug": True, "xml": xml})
  ctx.extra["featured_debug_build_runs"] = len(feat)
  ctx.traces_validated = len(items) + len(dbg) + len(feat)
  ctx.extra["debug_build_runs"] = len(dbg)
  ctx.assumptions += ["only what the scenarios execute is covered; sub-thread GPU interleavings are covered by the allocator models only",
                      "debug build = wp.config.mode 'debug' with its own kernel cache: array index assertions abort the process"]


def replay(ctx, scen):
  run(ctx)


META = {
  "text": "Accept.tla states the only two admissible outcomes of a configuration (rejected by validation, or runs) over flags, solvers, "
          "broadphases, world counts and capacity classes; every TLC-emitted configuration is executed in a crash-isolated process and must "
          "end with that outcome (any abort, signal or foreign exception is a violation), a subset on Warp's bounds-checked debug build, where also feature-rich models run "
          "(the contact-sensor scene of C07, TLC-sampled ModelFamily configurations with tendons / actuators / equalities / sensors / fluid, flex configurations of C40). The "
          "index-in-range invariants of the modelled allocators, island DFS and SAP decoding are re-checked by TLC.",
  "note": "exploration over TLC-generated configurations; memory safety only as far as the debug build's index assertions and the modelled kernels reach",
  "technique": "TLA+ acceptance/outcome table (Accept.tla) + index-range invariants of RowAlloc/ContactBuf/Island/Sap checked by TLC; spec->code replay in crash-isolated processes incl. Warp debug build",
}
