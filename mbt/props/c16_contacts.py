"""Contact / broadphase-pair capacity part of C16 (ContactBuf.tla)."""

from __future__ import annotations

import numpy as np

from .. import core

BROAD, NARROW = 4, 8


def contact_xml(n, sleep, spacing=0.19):
  bodies = "".join(
    f'<body pos="{spacing * i} 0 0.09"><freejoint/><geom type="sphere" size="0.1" condim="3" mass="1"/></body>' for i in range(n)
  )
  flag = '<flag sleep="enable"/>' if sleep else ""
  return f"""<mujoco><option>{flag}</option><worldbody><geom type="plane" size="10 10 .1" condim="3"/>{bodies}</worldbody></mujoco>"""


def _mk(xml, bp, nworld, cap):
  import mujoco

  import mujoco_warp as mjw
  from ..impl import setarr

  mjm = mujoco.MjModel.from_xml_string(xml)
  m = mjw.put_model(mjm)
  m.opt.broadphase = mjw.BroadphaseType(bp)
  d = mjw.make_data(mjm, nworld=nworld, naconmax=cap, njmax=200)
  # world 1: last sphere lifted (fewer pairs / contacts than world 0)
  q = d.qpos.numpy()
  if nworld > 1:
    q[1, 7 * (mjm.nbody - 2) + 2] = 0.9
  setarr(d.qpos, q)
  return mjm, m, d


def _measure(args):
  """ample run: candidate pairs per pass, contacts, reference result."""
  import mujoco_warp as mjw
  from mujoco_warp._src import collision_driver

  xml, bp, nworld = args
  mjm, m, d = _mk(xml, bp, nworld, 256)
  passes = []
  orig = collision_driver.collision

  def rec(m_, d_, *a, **k):
    r = orig(m_, d_, *a, **k)
    passes.append((int(d_.ncollision.numpy()[0]), int(d_.nacon.numpy()[0])))
    return r

  collision_driver.collision = rec
  try:
    mjw.step(m, d)
  finally:
    collision_driver.collision = orig
  assert not d.overflow.numpy().any()
  nacon = int(d.nacon.numpy()[0])
  return dict(passes=passes, nacon=nacon, qvel=d.qvel.numpy().tolist(), cw=d.contact.worldid.numpy()[:nacon].tolist(),
              geom=d.contact.geom.numpy()[:nacon].tolist())


def _sweep(args):
  import mujoco_warp as mjw

  xml, bp, nworld, caps = args
  out = []
  for cap in caps:
    mjm, m, d = _mk(xml, bp, nworld, cap)
    mjw.step(m, d)
    nacon = min(int(d.nacon.numpy()[0]), cap)
    out.append(dict(overflow=d.overflow.numpy().tolist(), qvel=d.qvel.numpy().tolist(), nacon=int(d.nacon.numpy()[0]),
                    cw=d.contact.worldid.numpy()[:nacon].tolist(), geom=d.contact.geom.numpy()[:nacon].tolist()))
  return out


def contact_part(ctx: core.Ctx):
  # design level: all interleavings of pair and contact allocation, two passes, capacities 0..6
  ctx.tlc("MC_ContactBuf", "MC_ContactBuf_nosleep.cfg", timeout=900)
  ctx.tlc("MC_ContactBuf", "MC_ContactBuf.cfg", timeout=900)
  if not ctx.quick:
    r = ctx.tlc("MC_ContactBuf", "MC_ContactBuf_zero.cfg", timeout=900, allow_violation=True)
    ctx.extra["design_flaw_demo"] = {"cfg": "MC_ContactBuf_zero.cfg (pass 2 forgets the pass-1 pair counter)", "tlc_violates": r.violated}

  nworld = 2
  scenes = []
  for sleep in (False, True):
    for bp in (0, 1, 2):
      for n in ((3,) if ctx.quick else (2, 3, 5)):
        scenes.append(dict(n=n, sleep=sleep, broadphase=bp))
  meas = core.pmap(_measure, [(contact_xml(s["n"], s["sleep"]), s["broadphase"], nworld) for s in scenes], nproc=12)
  # expected bits from the spec's closed form (validated against the model by invariant ExpectedOK)
  rows = []
  for si, (s, me) in enumerate(zip(scenes, meas)):
    n1 = me["passes"][0][0]
    n2 = me["passes"][1][0] if len(me["passes"]) > 1 else 0
    top = max(n1, n2, me["nacon"]) + 1
    s["caps"] = list(range(0, top + 1))
    for c in s["caps"]:
      rows.append((si, n1, n2, me["nacon"], c))
  tup = ", ".join(f"<<{a}, {b}, {c}, {d_}, {e}>>" for a, b, c, d_, e in rows)
  mod = f"""---- MODULE Gen_ContactBuf ----
EXTENDS ContactExp, Sequences, TLC, Json
GRows == <<{tup}>>
ASSUME \\A i \\in 1..Len(GRows) : LET r == GRows[i] IN
  PrintT(<<"EMIT", "exp", ToJson([scene |-> r[1], cap |-> r[5], broad |-> ExpBroad(r[2], r[3], r[5]), narrow |-> ExpNarrow(r[2], r[3], r[4], r[5])])>>)
VARIABLE x
GInit == x = 0
GNext == UNCHANGED x
====
"""
  cfg = "INIT GInit\nNEXT GNext\n"
  r = ctx.tlc("Gen_ContactBuf", "Gen_ContactBuf.cfg", gen={"Gen_ContactBuf.tla": mod, "Gen_ContactBuf.cfg": cfg}, workers=1)
  exp = {(e["scene"], e["cap"]): e for e in r.emit("exp")}
  obs = core.pmap(_sweep, [(contact_xml(s["n"], s["sleep"]), s["broadphase"], nworld, s["caps"]) for s in scenes], nproc=12, crash_ok=True)
  for si, (s, me, ob) in enumerate(zip(scenes, meas, obs)):
    if isinstance(ob, core.Crash):
      ctx.violation(dict(part="contacts", what="process crash"), f"rc={ob.returncode} {ob.stderr_tail[-300:]}", s)
      continue
    for cap, o in zip(s["caps"], ob):
      e = exp[(si, cap)]
      scen = dict(scene={k: s[k] for k in ("n", "sleep", "broadphase")}, naconmax=cap, nworld=nworld)
      ctx.case(scen, nontrivial=True, key=("contacts", scen))
      ctx.traces_validated += 1
      key = lambda what, **kw: dict(part="contacts", what=what, sleep=s["sleep"], naconmax_zero=(cap == 0), **kw)
      for w in range(nworld):
        gb = bool(o["overflow"][w] & BROAD)
        gn = bool(o["overflow"][w] & NARROW)
        if gb != e["broad"]:
          ctx.violation(key("overflow bit not set" if e["broad"] else "spurious overflow bit", bit="BROADPHASE"),
                        f"world {w}: candidate pairs per pass {me['passes']} naconmax={cap} overflow={o['overflow'][w]}", scen)
        elif e["narrow"] != "any" and gn != (e["narrow"] == "set"):
          ctx.violation(key("overflow bit not set" if e["narrow"] == "set" else "spurious overflow bit", bit="NARROWPHASE"),
                        f"world {w}: contacts needed {me['nacon']} naconmax={cap} overflow={o['overflow'][w]}", scen)
      if not any(o["overflow"]):
        same = sorted(zip(o["cw"], map(tuple, o["geom"]))) == sorted(zip(me["cw"], map(tuple, me["geom"]))) and np.allclose(o["qvel"], me["qvel"], rtol=1e-5, atol=1e-5)
        if not same:
          ctx.violation(key("no bit set but result differs from ample-capacity run"), f"naconmax={cap}", scen)
