"""C01  Kinematics agree with MuJoCo C  (ModelFamily.tla: forests + derived traversal tables)."""

from __future__ import annotations

import numpy as np

from .. import core, family, parity

LEVEL = "exploration"
JOINTS = ("weld", "free", "ball", "hinge", "slide", "hinge2", "slidehinge", "ballslide")
GEOMS = ("sphere", "capsule", "box", "ellipsoid", "cylinder")
FEATS = ("site", "camlight", "tendon_fixed", "tendon_spatial", "wrap", "pulley")

FIELDS = ["qpos", "xpos", "xquat", "xmat", "xipos", "ximat", "xanchor", "xaxis", "geom_xpos", "geom_xmat", "site_xpos", "site_xmat",
          "subtree_com", "cdof", "cinert", "cam_xpos", "cam_xmat", "light_xpos", "light_xdir", "ten_length", "mocap_pos"]


def compare(rec, b, mjm, mjd, m, d, cmp, opts):
  import mujoco

  import mujoco_warp as mjw

  mujoco.mj_kinematics(mjm, mjd)
  mujoco.mj_comPos(mjm, mjd)
  mujoco.mj_camlight(mjm, mjd)
  mujoco.mj_tendon(mjm, mjd)
  mjw.kinematics(m, d)
  mjw.com_pos(m, d)
  mjw.camlight(m, d)
  mjw.tendon(m, d)
  for w in range(d.nworld):
    cmp.fields(d, mjd, FIELDS, world=w)
    if mjm.ntendon:
      J = np.zeros((mjm.ntendon, mjm.nv))
      mujoco.mju_sparse2dense(J, mjd.ten_J, mjm.ten_J_rownnz, mjm.ten_J_rowadr, mjm.ten_J_colind) if mjd.ten_J.ndim == 1 else None
      gj = d.ten_J.numpy()[w]
      if gj.shape == J.shape and mjd.ten_J.ndim == 1:
        cmp.close("ten_J", gj, J)
      elif gj.shape == np.asarray(mjd.ten_J).shape:
        cmp.close("ten_J", gj, mjd.ten_J)
    # unit quaternions / rotation matrices (also what C23 demands of one evaluation)
    q = d.xquat.numpy()[w]
    cmp.close("|xquat|", np.linalg.norm(q, axis=1), np.ones(len(q)), 1e-5)


def run(ctx: core.Ctx):
  ctx.rule = ("ModelFamily.tla: ordered forests numbered depth-first, joint lists per body over {weld, free, ball, hinge, slide, 2 hinges, slide+hinge, "
              "ball+slide}, mocap bodies, 5 geom types, feature subsets {sites, cameras+lights in all 5 tracking modes, fixed / spatial tendons with "
              "sphere wrapping and pulleys}; state classes qpos0 / random / unnormalised quaternions. Exhaustive for <= 3 (quick) / 4 (thorough) bodies "
              "on the structure (tables), TLC -simulate for up to 7 bodies with features; every configuration is concretised with random geometry and "
              "kinematics+com_pos+camlight+tendon compared with MuJoCo C in both worlds of a 2-world batch; the spec's level/branch/dof tables are "
              "compared with put_model's. distinct = distinct configuration; non-trivial = more than one body or a feature")
  # structural half: TLC checks the table invariants on the whole bounded family and emits every configuration
  recs = family.enumerate_all(ctx, 3 if ctx.quick else 4, ("weld", "free", "ball", "hinge", "slidehinge"), qclasses=("unnorm",), vclasses=("zero",))
  if ctx.quick:
    recs = recs[:: max(1, len(recs) // 250)]
  else:
    recs = recs[:: max(1, len(recs) // 3000)]
  n = 150 if ctx.quick else 2500
  recs += family.sample(ctx, n, maxbody=7, joints=JOINTS, geoms=GEOMS, feats=FEATS, maxfeat=4, qclasses=("zero", "rand", "unnorm"), vclasses=("zero",))
  ctx.traces_validated = len(recs)
  parity.run(ctx, __name__, "compare", recs, nworld=2, opts={"tol": 2e-5}, what="kinematic quantity differs from MuJoCo C")
  ctx.assumptions += ["MuJoCo C (mujoco python bindings) is the oracle; tolerance 2e-5 relative to max(1, field magnitude); flex lengths are covered under C40"]


def replay(ctx, scen):
  import mujoco

  import mujoco_warp as mjw
  from .. import refcmp

  rec = {"c": scen["scenario"]["cfg"]}
  for res in parity.chunk((__name__, "compare", [rec], scen.get("seed", ctx.seed), 2, {"tol": 2e-5})):
    ctx.case(rec)
    for name in sorted({x[0] for x in res["bad"]}):  # same keys as parity.run: one per field, class after the '@'
      fld, _, cls = name.partition("@")
      ctx.violation(dict({"what": "kinematic quantity differs from MuJoCo C", "field": fld}, **({"cls": cls} if cls else {})), str([x for x in res["bad"] if x[0] == name][:5]), scen["scenario"])


META = {
  "text": "ModelFamily.tla defines the model family (ordered forests, joint lists, mocap, features) and the traversal tables put_model must derive "
          "(levels, root-to-leaf branches, tree ids, dof ancestry); TLC checks the table invariants the branch/level kernels rely on for every "
          "structure within the bound and emits the configurations; each is concretised and kinematics/com_pos/camlight/tendon are compared with "
          "mj_kinematics/mj_comPos/mj_camlight/mj_tendon field by field, and the Model tables with the spec's.",
  "note": "float comparison against MuJoCo C at 2e-5 relative; random well-conditioned geometry; the numeric agreement itself is differential testing over a TLC-enumerated configuration space, not a TLC verdict",
  "technique": "TLA+ model family + derived-table spec (ModelFamily.tla) checked/enumerated by TLC; spec->code replay with MuJoCo C as numeric oracle",
}
