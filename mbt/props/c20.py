"""C20  Contacts are geometrically valid  (CollisionFamily.tla cases; independent float64 support-function oracle)."""

from __future__ import annotations

import numpy as np

from .. import collide, core
from . import c04

LEVEL = "exploration"


def support(mjm, mjd, g, n):
  """h(n) = max over the geom of n.x  (float64, from MuJoCo's geom pose and size)."""
  import mujoco

  t = mjm.geom_type[g]
  c = np.array(mjd.geom_xpos[g])
  R = np.array(mjd.geom_xmat[g]).reshape(3, 3)
  s = np.array(mjm.geom_size[g])
  T = mujoco.mjtGeom
  if t == T.mjGEOM_SPHERE:
    return c @ n + s[0]
  if t == T.mjGEOM_CAPSULE:
    a = R[:, 2]
    return c @ n + s[1] * abs(a @ n) + s[0]
  if t == T.mjGEOM_ELLIPSOID:
    return c @ n + np.linalg.norm(s * (R.T @ n))
  if t == T.mjGEOM_CYLINDER:
    a = R[:, 2]
    an = a @ n
    return c @ n + s[1] * abs(an) + s[0] * np.sqrt(max(0.0, 1.0 - an * an))
  if t == T.mjGEOM_BOX:
    return c @ n + float(np.sum(s * np.abs(R.T @ n)))
  if t == T.mjGEOM_PLANE:
    return c @ n  # valid only for n = plane normal (half space below the plane)
  if t == T.mjGEOM_MESH:  # convex polytope: the furthest vertex
    mid = int(mjm.geom_dataid[g])
    v = np.array(mjm.mesh_vert[mjm.mesh_vertadr[mid] : mjm.mesh_vertadr[mid] + mjm.mesh_vertnum[mid]], dtype=np.float64)
    return c @ n + float(np.max(v @ (R.T @ n)))
  raise AssertionError(t)


def _chunk(args):
  import mujoco

  import mujoco_warp as mjw

  cases, seed = args
  out = []
  for case in cases:
    c = case["c"]
    try:
      mjm, target, actual = collide.build(case, seed)
      m = mjw.put_model(mjm)
    except NotImplementedError:
      out.append(("skip", "unsupported", None))
      continue
    mjd = mujoco.MjData(mjm)
    mujoco.mj_kinematics(mjm, mjd)
    if c["pose"] == "engulfed" and collide.ill_conditioned(mjm, mjd):
      out.append(("skip", "ill_conditioned_engulfed", None))
      continue
    d = mjw.make_data(mjm, nworld=2, nconmax=32)
    mjw.kinematics(m, d)
    mjw.collision(m, d)
    prim = (c["t1"], c["t2"]) in c04.PRIMITIVE
    where = {"case": c, "seed": seed}
    bad = None
    nchecked = 0
    for w in range(2):
      got = collide.mjw_contacts(mjw, m, d, w)
      if not got:
        continue
      deepest = min(got, key=lambda x: x["dist"])
      for x in got:
        F = x["frame"]
        nchecked += 1
        if np.abs(F @ F.T - np.eye(3)).max() > 2e-5 or np.linalg.det(F) < 0.999:
          bad = ("frame_not_orthonormal", f"frame {F.tolist()}")
          break
        n = F[0]
        g1, g2 = x["geom"]
        # normal points from geom1 to geom2
        if c["t1"] == "plane":
          pn = np.array(mjd.geom_xmat[g1]).reshape(3, 3)[:, 2]
          if n @ pn < 1 - 1e-5:
            bad = ("normal_not_plane_normal", f"normal {n} plane normal {pn}")
            break
        elif n @ (np.array(mjd.geom_xpos[g2]) - np.array(mjd.geom_xpos[g1])) <= 0 and c["t1"] == c["t2"] == "sphere":
          bad = ("normal_points_from_geom2_to_geom1", f"normal {n}")
          break
        if x is deepest:
          # signed separation of the two geoms along the reported normal (support functions, float64)
          sep = -support(mjm, mjd, g2, -n) - support(mjm, mjd, g1, n)
          tol = 3e-5 if prim else 3e-3
          if abs(x["dist"] - sep) > tol:
            bad = ("dist_is_not_the_separation_along_the_normal", f"dist {x['dist']:.6f} separation along normal {sep:.6f} (pair {c['t1']}-{c['t2']}, {len(got)} contacts)")
            break
          # position midway between the two supporting planes
          mid = support(mjm, mjd, g1, n) + 0.5 * sep
          if abs(n @ x["pos"] - mid) > (5e-5 if prim else 5e-3):
            bad = ("pos_not_midway", f"n.pos {n @ x['pos']:.6f} midway {mid:.6f}")
            break
      if bad:
        break
    if bad:
      out.append(({"what": "contact is not geometrically valid", "clause": bad[0], "pair": f"{c['t1']}-{c['t2']}", **({} if prim else {"cls": "convex_accuracy"})}, bad[1], where))
    else:
      out.append(("ok", nchecked, None))
  return out


def run(ctx: core.Ctx):
  ctx.rule = ("the CollisionFamily.tla cases of C04 (type pairs x pose classes x margins), concretised the same way; on every contact MJWarp reports: "
              "frame orthonormal with det +1; normal = plane normal for plane pairs, from geom1 to geom2 for sphere pairs; for the deepest contact of a "
              "pair the reported dist must equal the signed separation of the two geoms ALONG the reported normal computed from float64 support "
              "functions of sphere / capsule / ellipsoid / cylinder / box / half-space, and n.pos must be midway between the two supporting planes")
  n = 320 if ctx.quick else 5000
  r = ctx.tlc("Gen_CollisionFamily", "Gen_CollisionFamily.cfg", gen=c04.gen(n, types=("plane", "sphere", "capsule", "ellipsoid", "cylinder", "box", "mesh")), workers=1, simulate="num=1", depth=n + 1, seed=(ctx.seed + 20) % (1 << 30), timeout=900)
  cases = r.emit("case")
  CH = max(1, len(cases) // 42 + 1)
  chunks = [cases[i : i + CH] for i in range(0, len(cases), CH)]
  nch = 0
  for res, chunk in zip(core.pmap(_chunk, [(ch, ctx.seed) for ch in chunks], nproc=14), chunks):
    for (key, msg, scen), case in zip(res, chunk):
      if key == "skip":
        ctx.skip("skip:" + msg)
        continue
      ctx.case({"case": case["c"]}, nontrivial=case["c"]["pose"] != "separated", key=case["c"])
      if key == "ok":
        nch += msg
      else:
        ctx.violation(key, msg, scen)
  ctx.traces_validated = len(cases)
  ctx.extra["contacts_checked"] = nch
  ctx.assumptions += ["tolerances: closed-form pairs 3e-5 (dist) / 5e-5 (pos); convex pairs 3e-3 / 5e-3 (EPA tolerance)"]


def replay(ctx, scen):
  run(ctx)


META = {
  "text": "On TLC-generated two-geom cases every reported contact is checked against an independent float64 oracle: orthonormal right-handed "
          "frame, normal direction, distance = signed separation of the two geoms along the reported normal (analytic support functions), "
          "position midway between the supporting planes.",
  "note": "runtime invariants over TLC-enumerated cases; no MuJoCo collision code involved in the oracle",
  "technique": "TLA+ case family (CollisionFamily.tla) enumerated by TLC; spec->code replay with an analytic support-function oracle",
}
