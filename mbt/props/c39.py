"""C39  contact_force reports the contact wrench  (ContactForce.tla: exact integer decode; three-way with mj_contactForce)."""

from __future__ import annotations

import numpy as np

from .. import core

LEVEL = "model_checking"


def gen(n):
  mod = "---- MODULE Gen_ContactForce ----\nEXTENDS ContactForce\nGForces == 0..3\nGMus == {1, 2}\n====\n"
  cfg = f"""CONSTANTS
  Forces <- GForces
  Mus <- GMus
  Mode = "sim"
  NCase = {n}
SPECIFICATION Spec
INVARIANT NoRowsNoForce
INVARIANT PyramidInCone
INVARIANT UnusedZero
INVARIANT EmitCase
"""
  return {"Gen_ContactForce.tla": mod, "Gen_ContactForce.cfg": cfg}


def _chunk(cases):
  import mujoco
  import warp as wp

  import mujoco_warp as mjw

  out = []
  cache = {}
  for rec in cases:
    c, wexp = rec["c"], np.array(rec["w"], dtype=float)
    key = (c["cone"], c["dim"], tuple(c["mu"]), c["hasrows"])
    if key not in cache:
      # a box resting on the plane (4 contacts) next to a sphere: the probed contact is not the only one; hasrows=False -> lifted inside the margin/gap band
      z = 0.099 if c["hasrows"] else 0.103
      gap = "" if c["hasrows"] else ' margin="0.002" gap="0.002"'
      xml = f"""<mujoco><option cone="{c["cone"]}" gravity="0 0 -9.81"/><worldbody><geom type="plane" size="5 5 .1" condim="1" friction="0.1 0.1 0.1"/>
        <body pos="1 0 0.099"><freejoint/><geom type="box" size="0.1 0.1 0.1" condim="3"/></body>
        <body pos="0 0 {z}"><freejoint/><geom name="probe" type="sphere" size="0.1" condim="{c["dim"]}" friction="{c["mu"][0]} {c["mu"][1]} {c["mu"][2]}"{gap}/></body></worldbody></mujoco>"""
      mjm = mujoco.MjModel.from_xml_string(xml)
      m = mjw.put_model(mjm)
      cache[key] = (mjm, m)
    mjm, m = cache[key]
    mjd = mujoco.MjData(mjm)
    mujoco.mj_forward(mjm, mjd)
    nworld = 2
    d = mjw.make_data(mjm, nworld=nworld)
    mjw.forward(m, d)
    pid = mjm.geom("probe").id
    where = {"case": c}
    # locate the probe contact on both sides
    mjc = [i for i in range(mjd.ncon) if pid in mjd.contact.geom[i]]
    nacon = int(d.nacon.numpy()[0])
    geo, wid = d.contact.geom.numpy()[:nacon], d.contact.worldid.numpy()[:nacon]
    wc = {w: [i for i in range(nacon) if pid in geo[i] and wid[i] == w] for w in range(nworld)}
    if len(mjc) != 1 or any(len(v) != 1 for v in wc.values()):
      out.append(("MACHINERY", f"probe contact not unique: mj {mjc} mjw {wc}", where))
      continue
    rows = [float(x) for x in (c["rows"] if isinstance(c["rows"], list) else [c["rows"][str(i + 1)] for i in range(len(c["rows"]))])]
    # MuJoCo C with the same synthetic row forces
    adr = int(mjd.contact.efc_address[mjc[0]])
    if c["hasrows"] != (adr >= 0):
      out.append(("MACHINERY", f"scene does not realise hasrows={c['hasrows']}: mujoco efc_address {adr}", where))
      continue
    if adr >= 0:
      mjd.efc_force[adr : adr + len(rows)] = rows
    ref = np.zeros(6)
    mujoco.mj_contactForce(mjm, mjd, mjc[0], ref)
    if not np.allclose(ref, wexp, atol=1e-9):
      out.append(("MACHINERY", f"spec/MuJoCo disagree: spec {wexp.tolist()} mujoco {ref.tolist()} case {c}", where))
      continue
    # MJWarp: write the rows at the contact's own addresses in each world, then decode
    f = d.efc.force.numpy()
    eadr = d.contact.efc_address.numpy()
    for w in range(nworld):
      ci = wc[w][0]
      if c["hasrows"]:
        for r, val in enumerate(rows):
          f[w, eadr[ci][r]] = val
    wp.copy(d.efc.force, wp.array(f, dtype=float))
    ids = np.array([wc[w][0] for w in range(nworld)], dtype=np.int32)
    for world_frame in (False, True):
      res = wp.zeros(nworld, dtype=wp.spatial_vector)
      mjw.contact_force(m, d, wp.array(ids, dtype=int), world_frame, res)
      got = res.numpy()
      frames = d.contact.frame.numpy()
      for w in range(nworld):
        exp = wexp.copy()
        if world_frame:
          R = frames[wc[w][0]].reshape(3, 3)
          exp = np.concatenate([wexp[:3] @ R, wexp[3:] @ R])
        if not np.allclose(got[w], exp, atol=1e-5):
          out.append(({"what": "contact_force differs from ContactForce.tla", "cone": c["cone"], "dim": c["dim"], "world_frame": world_frame},
                      f"world {w}: got {got[w].tolist()} expected {exp.tolist()} (mujoco {ref.tolist()})", where))
          break
      else:
        continue
      break
  return out


def run(ctx: core.Ctx):
  ctx.rule = ("ContactForce.tla decodes the contact wrench over integers (row forces 0..3, friction coefficients 1..2, condim 1/3/4/6, both cones, "
              "contacts without rows); TLC checks NoRowsNoForce / PyramidInCone / UnusedZero and emits cases; each case is realised on a real contact "
              "(sphere on plane with that condim and friction; or inside the margin/gap band for 'no rows'), the spec's row forces are written into "
              "efc.force of every world and contact_force (contact and world frame) must return the spec's wrench exactly; mj_contactForce must too")
  n = 160 if ctx.quick else 2500
  r = ctx.tlc("Gen_ContactForce", "Gen_ContactForce.cfg", gen=gen(n), workers=1, simulate="num=1", depth=n + 1, seed=ctx.seed % (1 << 30), timeout=900)
  cases, seen = [], set()
  for c in r.emit("case"):
    h = core.jhash(c["c"])
    if h not in seen:
      seen.add(h)
      cases.append(c)
      ctx.case({"case": c["c"], "wrench": c["w"]}, nontrivial=c["c"]["hasrows"], key=c["c"])
  ctx.traces_validated = len(cases)
  cases.sort(key=lambda c: (c["c"]["cone"], c["c"]["dim"], str(c["c"]["mu"]), c["c"]["hasrows"]))
  CH = max(1, len(cases) // 14 + 1)
  for res in core.pmap(_chunk, [cases[i : i + CH] for i in range(0, len(cases), CH)], nproc=14):
    for key, msg, scen in res:
      if key == "MACHINERY":
        raise RuntimeError(msg)
      ctx.violation(key, msg, scen)
  ctx.assumptions += ["synthetic integer row forces are written into the public efc.force array of a real contact; adhesion is exercised separately (none here)"]


def replay(ctx, scen):
  run(ctx)


META = {
  "text": "ContactForce.tla decodes pyramidal and elliptic row forces into the 6-D contact wrench over integers; TLC checks the decode's "
          "invariants and emits cases; each is written into efc.force of a real contact in every world of a batch and contact_force (contact "
          "frame and world frame) must reproduce the spec's wrench exactly, as must mj_contactForce.",
  "note": "exact on integers; one probe contact per case next to other contacts; 2 worlds",
  "technique": "TLA+ transcription of the wrench decode (ContactForce.tla) checked by TLC + one implementation test per TLC-emitted case, three-way with MuJoCo C",
}
