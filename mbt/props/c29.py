"""C29  Sleeping follows MuJoCo's sleep semantics  (Sleep.tla model checked; SleepTrace.tla validates recorded sleep/wake calls; lock-step with MuJoCo C)."""

from __future__ import annotations

import json
import os
import tempfile

import numpy as np

from .. import core, tlc

LEVEL = "model_checking"


def scenes():
  s = {}
  s["box_slider_friction"] = """<mujoco><option timestep="0.005"><flag sleep="enable"/></option><worldbody><geom type="plane" size="5 5 .1"/>
    <body name="A" pos="0 0 0.1"><freejoint/><geom type="box" size="0.3 0.3 0.1" mass="2"/></body>
    <body name="arm" pos="0 0 0.26"><joint name="h" type="slide" axis="0 0 1" frictionloss="0.5"/><geom type="sphere" size="0.05" mass="0.2"/></body>
    <body name="far" pos="2 0 0.1"><freejoint/><geom type="sphere" size="0.1"/></body></worldbody></mujoco>"""
  s["stack3"] = """<mujoco><option timestep="0.005"><flag sleep="enable"/></option><worldbody><geom type="plane" size="5 5 .1"/>
    <body pos="0 0 0.1"><freejoint/><geom type="box" size="0.2 0.2 0.1"/></body>
    <body pos="0 0 0.3"><freejoint/><geom type="box" size="0.15 0.15 0.1"/></body>
    <body pos="0 0 0.5"><freejoint/><geom type="box" size="0.1 0.1 0.1"/></body>
    <body pos="1.5 0 0.1"><freejoint/><geom type="box" size="0.1 0.1 0.1"/></body></worldbody></mujoco>"""
  s["spheres_equality"] = """<mujoco><option timestep="0.005"><flag sleep="enable"/></option><worldbody><geom type="plane" size="5 5 .1"/>
    <body name="s0" pos="0 0 0.1"><freejoint/><geom type="sphere" size="0.1"/></body>
    <body name="s1" pos="0.5 0 0.1"><freejoint/><geom type="sphere" size="0.1"/></body>
    <body name="s2" pos="1.2 0 0.1"><freejoint/><geom type="sphere" size="0.1"/></body>
    <body name="p" pos="2 0 0.5"><joint type="hinge" axis="0 1 0" damping="0.5"/><geom type="capsule" fromto="0 0 0 0 0 -0.3" size="0.03"/></body></worldbody>
    <equality><connect body1="s0" body2="s1" anchor="0.25 0 0"/></equality></mujoco>"""
  # three far-apart trees that fall asleep; each is then woken by a different cause (pure torque / generalized force / force), see _record_chunk
  s["causes"] = """<mujoco><option timestep="0.005"><flag sleep="enable"/></option><worldbody><geom type="plane" size="5 5 .1"/>
    <body name="c0" pos="0 0 0.1"><freejoint/><geom type="box" size="0.1 0.1 0.1"/><body pos="0 0 0.25"><joint type="hinge" axis="0 1 0" damping="0.5"/><geom type="capsule" fromto="0 0 0 0 0 0.2" size="0.03"/></body></body>
    <body name="c1" pos="1.5 0 0.1"><freejoint/><geom type="sphere" size="0.1"/></body>
    <body name="c2" pos="3 0 0.1"><freejoint/><geom type="box" size="0.1 0.1 0.1"/></body></worldbody></mujoco>"""
  return s


def _record_chunk(args):
  import mujoco
  import warp as wp

  import mujoco_warp as mjw
  from mujoco_warp._src import sleep as S

  name, xml, nsteps, seed = args
  mjm = mujoco.MjModel.from_xml_string(xml)
  m = mjw.put_model(mjm)
  nworld = 2
  d = mjw.make_data(mjm, nworld=nworld)
  ntree = mjm.ntree
  body_tree = np.array(mjm.body_treeid)
  geom_body = np.array(mjm.geom_bodyid)
  dof_tree = np.array(mjm.dof_treeid)
  dof_len = m.dof_length.numpy().astype(np.float32)
  tol = np.float32(m.opt.sleep_tolerance.numpy()[0])
  traces = [[] for _ in range(nworld)]
  orig = {k: getattr(S, k) for k in ("sleep", "wake_collision", "wake")}

  def ta():
    return d.tree_asleep.numpy().copy()

  def quiet(w, tolerance):
    qv = d.qvel.numpy()[w].astype(np.float32)
    qf = d.qfrc_applied.numpy()[w]
    xf = d.xfrc_applied.numpy()[w]
    out = []
    for t in range(ntree):
      dofs = np.nonzero(dof_tree == t)[0]
      bodies = np.nonzero(body_tree == t)[0]
      ok = not xf[bodies].any() and not qf[dofs].any()
      if ok:
        ok = bool((np.abs(dof_len[dofs] * qv[dofs]) < tolerance).all()) if tolerance > 0 else bool((qv[dofs] == 0).all())
      out.append(bool(ok))
    return out

  def w_sleep(m_, d_):
    before = ta()
    q = [quiet(w, tol) for w in range(nworld)]
    isl, nisl = d.tree_island.numpy().copy(), d.nisland.numpy().copy()
    orig["sleep"](m_, d_)
    after = ta()
    for w in range(nworld):
      traces[w].append({"kind": "sleep", "before": before[w].tolist(), "isl": isl[w].tolist(), "nisl": int(nisl[w]), "quiet": q[w], "after": after[w].tolist()})

  def w_wakecol(m_, d_):
    before = ta()
    awake = d.tree_awake.numpy().copy()
    nacon = int(d.nacon.numpy()[0])
    geo, wid = d.contact.geom.numpy()[:nacon], d.contact.worldid.numpy()[:nacon]
    orig["wake_collision"](m_, d_)
    after = ta()
    for w in range(nworld):
      cons = set()
      for g, ww in zip(geo, wid):
        if ww != w or g[0] < 0 or g[1] < 0:
          continue
        t1, t2 = int(body_tree[geom_body[g[0]]]), int(body_tree[geom_body[g[1]]])
        if t1 >= 0 and t2 >= 0 and t1 != t2 and awake[w][t1] != awake[w][t2]:  # contacts between two awake / two sleeping trees do nothing
          cons.add((t1, t2))
      traces[w].append({"kind": "wakecol", "before": before[w].tolist(), "awake": [bool(x) for x in awake[w]], "cons": sorted(cons), "after": after[w].tolist()})

  def w_wake(m_, d_):
    before = ta()
    awake = d.tree_awake.numpy().copy()
    dist = [[not x for x in quiet(w, np.float32(0.0))] for w in range(nworld)]
    orig["wake"](m_, d_)
    after = ta()
    for w in range(nworld):
      traces[w].append({"kind": "wake", "before": before[w].tolist(), "awake": [bool(x) for x in awake[w]], "disturbed": dist[w], "after": after[w].tolist()})

  S.sleep, S.wake_collision, S.wake = w_sleep, w_wakecol, w_wake
  mjd = mujoco.MjData(mjm)
  lock = []
  rng = np.random.default_rng(seed)
  # the pushed tree: chosen so that it lifts off and lands on a sleeping neighbour (a wake-up through contact) where the scene allows it
  kick_tree = {"box_slider_friction": 1, "stack3": 2}.get(name.split("/")[0], int(rng.integers(ntree)))
  try:
    for k in range(nsteps):
      # events in world 1 only (and in the MuJoCo twin of world 1): a push for 5 steps, later a velocity kick
      x = np.zeros((nworld, mjm.nbody, 6), dtype=np.float32)
      qf = np.zeros((nworld, mjm.nv), dtype=np.float32)
      mjd.xfrc_applied[:] = 0
      mjd.qfrc_applied[:] = 0
      if name.startswith("causes"):
        # once everything sleeps: a pure torque on the LAST body of tree 0, a generalized force on tree 1, a force on tree 2, each for 3 steps
        for cause, k0 in enumerate((nsteps // 2, nsteps // 2 + 30, nsteps // 2 + 60)):
          if k0 <= k < k0 + 3:
            bodies_k = np.nonzero(body_tree == cause)[0]
            if cause == 0:
              b = int(bodies_k[-1])
              x[1, b, 3:] = [0.0, 0.6, 0.4]
              mjd.xfrc_applied[b, 3:] = [0.0, 0.6, 0.4]
            elif cause == 1:
              dk = int(np.nonzero(dof_tree == 1)[0][-1])
              qf[1, dk] = 1.5
              mjd.qfrc_applied[dk] = 1.5
            else:
              b = int(bodies_k[0])
              x[1, b, :3] = [1.0, 0.0, 0.0]
              mjd.xfrc_applied[b, :3] = [1.0, 0.0, 0.0]
      elif nsteps // 2 <= k < nsteps // 2 + 5:
        b = int(np.nonzero(body_tree == kick_tree)[0][0])
        x[1, b, :3] = [3.0, 0.0, 8.0]
        mjd.xfrc_applied[b, :3] = [3.0, 0.0, 8.0]
      wp.copy(d.xfrc_applied, wp.array(x, dtype=wp.spatial_vector))
      wp.copy(d.qfrc_applied, wp.array(qf, dtype=float))
      if k == (3 * nsteps) // 4 and not name.startswith("causes"):
        v = d.qvel.numpy()
        dofs = np.nonzero(dof_tree == (kick_tree + 1) % ntree)[0]
        v[1, dofs[0]] = 0.5
        wp.copy(d.qvel, wp.array(v, dtype=float))
        mjd.qvel[dofs[0]] = 0.5
      q0, v0, a0 = d.qpos.numpy().copy(), d.qvel.numpy().copy(), ta()
      mjw.step(m, d)
      mujoco.mj_step(mjm, mjd)
      q1, v1, a1 = d.qpos.numpy(), d.qvel.numpy(), ta()
      for w in range(nworld):
        frozen = True
        for t in range(ntree):
          if a0[w, t] >= 0 and a1[w, t] >= 0:
            dofs = np.nonzero(dof_tree == t)[0]
            jn = [j for j in range(mjm.njnt) if dof_tree[mjm.jnt_dofadr[j]] == t]
            qa = sorted(int(mjm.jnt_qposadr[j]) for j in jn)
            qsl = np.concatenate([np.arange(a, a + (7 if mjm.jnt_type[j] == 0 else 4 if mjm.jnt_type[j] == 1 else 1)) for j, a in zip(jn, [int(mjm.jnt_qposadr[j]) for j in jn])])
            frozen &= bool(np.array_equal(q0[w, qsl], q1[w, qsl]) and np.array_equal(v0[w, dofs], v1[w, dofs]))
        traces[w].append({"kind": "step", "frozen": bool(frozen), "k": k})
      lock.append((a1[1].tolist(), np.array(mjd.tree_asleep).tolist()))
  finally:
    S.sleep, S.wake_collision, S.wake = orig["sleep"], orig["wake_collision"], orig["wake"]
  return {"name": name, "ntree": ntree, "traces": traces, "lock": lock}


def gen(ntree):
  mod = "---- MODULE Gen_SleepTrace ----\nEXTENDS SleepTrace\n====\n"
  cfg = f"""CONSTANTS
  NTree = {ntree}
  MinAwake = 10
  Relink = FALSE
SPECIFICATION TSpec
INVARIANT ReportS
INVARIANT CoverageS
INVARIANT AllOK
"""
  return {"Gen_SleepTrace.tla": mod, "Gen_SleepTrace.cfg": cfg}


def run(ctx: core.Ctx):
  ctx.rule = ("Sleep.tla (sweep / island readiness / cycle building / cycle-walking wake-up for all contact-thread orders / user wake-up) is model "
              "checked for 3 trees with MinAwake=2 over every contact graph, quiet pattern and perturbation per step (WellFormed cycles, "
              "SleepOnlyAfterMinAwake, IslandReady, WokenSetOrderIndependent); the as-found re-linking variant is shown to break WellFormed. Real "
              "step() runs (3 scenes x 2 worlds, pushes and velocity kicks in one world) are recorded: every call of sleep.sleep / wake_collision / "
              "wake with its inputs and result, and per step the frozen-state check of sleeping trees; TLC validates every event with Sleep.tla's "
              "functions (MinAwake=10). Lock-step with mj_step: tree_asleep of MuJoCo C must equal MJWarp's, allowing MJWarp's known one-step lead")
  ctx.tlc("Sleep", "MC_Sleep_relink_FALSE.cfg", timeout=1800)
  r = ctx.tlc("Sleep", "MC_Sleep_relink_TRUE.cfg", timeout=1800, allow_violation=True)
  ctx.extra["design_flaw_demo"] = {"cfg": "MC_Sleep_relink_TRUE.cfg (an island of already sleeping trees is linked again)", "tlc_violates": r.violated}
  nsteps = 260 if ctx.quick else 1200
  work = [(n, x, nsteps, ctx.seed + i) for i, (n, x) in enumerate(scenes().items())]
  if not ctx.quick:
    work += [(n + "/b", x, nsteps, ctx.seed + 100 + i) for i, (n, x) in enumerate(scenes().items())]
  results = core.pmap(_record_chunk, work, nproc=6)
  by_ntree = {}
  for res in results:
    for w, tr in enumerate(res["traces"]):
      by_ntree.setdefault(res["ntree"], []).append((res["name"], w, tr))
      ctx.case({"scene": res["name"], "world": w, "events_recorded": len(tr)}, key=(res["name"], w))
      ctx.extra["events_recorded"] = ctx.extra.get("events_recorded", 0) + len(tr)
  cov_all = {}
  for ntree, items in by_ntree.items():
    fd, path = tempfile.mkstemp(suffix=".json", dir=os.path.join(tlc.VERIF, ".cache", "tlc"))
    # identical events (steady states repeat for hundreds of steps) are validated once per trace
    slim = []
    for _, _, tr in items:
      seen, keep = set(), []
      for e in tr:
        key = json.dumps({k: v for k, v in e.items() if k != "k"}, sort_keys=True)
        if key not in seen:
          seen.add(key)
          keep.append(e)
      slim.append(keep)
    items = [(n_, w_, keep) for (n_, w_, _), keep in zip(items, slim)]
    with os.fdopen(fd, "w") as f:
      json.dump([[{k: v for k, v in e.items() if k != "k"} for e in tr] for _, _, tr in items], f)
    try:
      r = ctx.tlc("Gen_SleepTrace", "Gen_SleepTrace.cfg", gen=gen(ntree), env={"TRACE_FILE": path}, workers=1, allow_violation=True, timeout=600)
    finally:
      os.unlink(path)
    bad = r.emit("bad")[0]["bad"] if r.emit("bad") else {}
    if isinstance(bad, list):
      bad = {str(i + 1): v for i, v in enumerate(bad)}
    for k, v in (r.emit("cov")[0] if r.emit("cov") else {}).items():
      cov_all[k] = cov_all.get(k, False) or v
    for n, first in bad.items():
      name, w, tr = items[int(n) - 1]
      e = tr[first - 1]
      ctx.violation({"what": "recorded sleep/wake call is not a behaviour of Sleep.tla" if e["kind"] != "step" else "a sleeping tree moved", "kind": e["kind"]},
                    f"scene {name} world {w} event {first}: {json.dumps(e)[:700]}", {"scene": name, "world": w, "event": e})
    ctx.traces_validated += len(items)
    ctx.extra["distinct_events_validated"] = ctx.extra.get("distinct_events_validated", 0) + sum(len(tr) for _, _, tr in items)
  ctx.extra["trace_coverage"] = cov_all
  if not (cov_all.get("fell_asleep") and cov_all.get("woke_by_contact")):
    raise RuntimeError(f"vacuous traces: {cov_all}")
  # lock-step with MuJoCo C
  sgn = lambda x: [(-1 if v < 0 else v) for v in x]
  for res in results:
    lock = res["lock"]
    n = len(lock)
    exact = {sh: sum(1 for k in range(n - 1) if lock[k][0] == lock[k + sh][1]) for sh in (0, 1)}
    shift = 1 if exact[1] > exact[0] else 0
    if shift == 1:
      k0 = next(k for k in range(n - 1) if lock[k][0] != lock[k][1])
      ctx.violation({"what": "tree_asleep runs one step ahead of mj_step", "cls": "one_step_lead"},
                    f"scene {res['name']}: tree_asleep after step k equals MuJoCo's after step k+1 on {exact[1]} of {n - 1} steps (same step: {exact[0]}); first at step {k0}: "
                    f"mjw {lock[k0][0]} mujoco {lock[k0][1]}", {"scene": res["name"], "step": k0})
    for k in range(n - 1):
      a = sgn(lock[k][0])
      # WHICH trees sleep and their cycles must agree; WHEN a velocity threshold is crossed may differ by a few steps (float noise)
      window = [sgn(lock[j][1]) for j in range(max(0, k + shift - 6), min(n, k + shift + 7))]
      if a not in window:
        ctx.violation({"what": "awake/asleep evolution differs from mj_step"}, f"scene {res['name']} step {k}: mjw {lock[k][0]} mujoco {lock[min(n - 1, k + shift)][1]}", {"scene": res["name"], "step": k})
        break
  ctx.assumptions += ["quiet flags are recomputed in float32 numpy from qvel, dof_length, applied forces with the kernel's formula",
                      "lock-step tolerates a +-6 step skew of WHEN a velocity threshold is crossed (float noise), never of WHICH trees sleep or their cycles"]


def replay(ctx, scen):
  run(ctx)


META = {
  "text": "Sleep.tla models the per-step sleep automaton (quiet counters, island readiness, cycle construction, cycle-walking wake-ups under every "
          "order of the contact threads, user wake-ups); TLC checks cycle well-formedness, sleep only after MinAwake quiet steps of the whole island "
          "and order-independence of the woken set, and found the cycle re-linking defect (F36, repaired). Every sleep/wake call recorded from real "
          "multi-world runs is validated by TLC against the same functions, sleeping trees are checked frozen bitwise, and tree_asleep is "
          "compared with mj_step in lock-step.",
  "note": "3 scenes, 2 worlds, pushes/kicks in one world; wake_tendon / wake_equality are exercised but not validated event by event",
  "technique": "TLA+ sleep automaton (Sleep.tla) model-checked with TLC + code->spec trace validation (SleepTrace.tla) of recorded sleep/wake calls + lock-step with MuJoCo C",
}
