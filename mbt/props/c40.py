"""C40  Flex deformables agree with MuJoCo C  (FlexFamily.tla: model family, acceptance rules, stages fed; MuJoCo C as oracle per stage)."""

from __future__ import annotations

import numpy as np

from .. import core, efc, family, refcmp

LEVEL = "exploration"
COUNT = {1: ["4 1 1", "5 1 1", "6 1 1"], 2: ["2 2 1", "3 2 1", "3 3 1"], 3: ["2 2 2", "2 2 3", "3 2 2"]}
OBST = {"plane": "2 2 .1", "sphere": ".08", "capsule": ".05 .12", "cylinder": ".06 .1", "box": ".1 .08 .05", "ellipsoid": ".1 .08 .06"}
ROWFIELDS = ["pos", "margin", "D", "aref", "frictionloss", "J"]


def gen(n):
  mod = "---- MODULE Gen_FlexFamily ----\nEXTENDS FlexFamily\n====\n"
  cfg = f"CONSTANTS\n  Mode = \"sim\"\n  NCfg = {n}\nSPECIFICATION Spec\nINVARIANT TypeOK\nINVARIANT AcceptedCompiles\nINVARIANT EmitCfg\n"
  return {"Gen_FlexFamily.tla": mod, "Gen_FlexFamily.cfg": cfg}


def scene_xml(c, r, drop=()):
  """drop: features left out on purpose (reference model 'without edge damping' etc.)"""
  dim = int(c["dim"])
  count = COUNT[dim][int(c["size"]) - 1]
  n = [int(x) for x in count.split()]
  nvert = n[0] * n[1] * n[2]
  edge = f' equality="{c["eq"]}"' if c["eq"] != "false" else ""
  if c["edgedamp"] and "edgedamping" not in drop:
    edge += ' damping="0.2"'
  if c["edgestiff"] and "edgestiffness" not in drop:
    edge += ' stiffness="40"'
  el = ""
  if c["young"]:
    el = f'<elasticity young="{[2e3, 1e3, 3e4][dim - 1]:g}" poisson="0.2"' + (' damping="0.02"' if c["eldamp"] else "")
    if dim == 2:
      el += ' thickness="0.01"' + (f' elastic2d="{c["e2d"]}"' if c["e2d"] != "none" else "")
    el += "/>"
  pins = {"none": "", "one": '<pin id="0"/>', "two": f'<pin id="0 {nvert - 1}"/>'}[c["pin"]]
  con = f'<contact selfcollide="{c["selfcollide"]}" condim="{c["condim"]}"' + (' margin="0.004"' if c["margin"] else "") + (' internal="true"' if c["internal"] else "") + "/>"
  flex = (f'<flexcomp name="f" type="grid" count="{count}" spacing="0.1 0.1 0.1" pos="0.3 0.2 0.5" dim="{dim}" mass="1" radius="0.015" dof="{c["dof"]}">'
          f'<edge{edge}/>{el}{pins}{con}</flexcomp>')
  halfz = 0.05 * (n[2] - 1)
  obstacle = ""
  if c["obstacle"] != "none":
    t = c["obstacle"]
    # the obstacle sits under the flex and overlaps its lowest layer by a few millimetres (never exactly touching)
    top = 0.5 - halfz - 0.015 + 0.004
    if t == "plane":
      obstacle = f'<geom name="obst" type="plane" size="{OBST[t]}" pos="0 0 {top:.5f}" condim="{c["condim"]}"/>'
    else:
      ext = {"sphere": 0.08, "capsule": 0.05, "cylinder": 0.06, "box": 0.05, "ellipsoid": 0.06}[t]
      quat = ' euler="0 90 0"' if t in ("capsule", "cylinder") else ""
      obstacle = f'<geom name="obst" type="{t}" size="{OBST[t]}" pos="{0.3 + 0.013:.4f} {0.2 - 0.021:.4f} {top - ext:.5f}"{quat} condim="{c["condim"]}"/>'
  second = ""
  if c["second"] == "far":
    second = '<flexcomp name="g" type="grid" count="3 1 1" spacing="0.1 0.1 0.1" pos="1.3 1.2 0.5" dim="1" mass="0.5" radius="0.01"><edge equality="true"/><pin id="0"/></flexcomp>'
  elif c["second"] == "cross":
    # a free rope laid along x over the top layer of the first flex, 4 mm into it, off the vertex lines
    zc = 0.5 + halfz + 0.015 + 0.01 - 0.004
    second = f'<flexcomp name="g" type="grid" count="3 1 1" spacing="0.1 0.1 0.1" pos="{0.3 + 0.017:.4f} {0.2 + 0.013:.4f} {zc:.5f}" dim="1" mass="0.5" radius="0.01"><edge equality="true"/></flexcomp>'
  rider = sensors = ""
  if c.get("rider"):
    # a free sphere that never touches the flex, declared last (its geom is the model's last geom): pressed 3 mm into the obstacle plane, or in free fall
    top = 0.5 - halfz - 0.015 + 0.004
    z = top + 0.05 - 0.003 if c["obstacle"] == "plane" else top + 0.4
    rider = f'<body name="rider" pos="1.0 -0.6 {z:.5f}"><freejoint/><geom name="rg" size="0.05" condim="{c["condim"]}"/><site name="rs" size="5"/></body>'
    sensors = ('<sensor><touch site="rs"/><force site="rs"/><torque site="rs"/><contact body1="rider" data="found force" reduce="maxforce"/>'
               '<contact geom1="rg" data="found dist" reduce="mindist"/><contact site="rs" data="found"/></sensor>')
  return (f'<mujoco><option cone="{c["cone"]}" jacobian="{c["jacobian"]}" timestep="0.002" gravity="0 0 -9.81"/><size memory="20M"/>'
          f'<worldbody>{obstacle}{flex}{second}{rider}</worldbody>{sensors}</mujoco>')


def contact_key(cn, i):
  return (tuple(int(x) for x in cn.geom[i]), tuple(int(x) for x in cn.flex[i]))


def contacts_of(mjd):
  cn = mjd.contact
  return [{"key": contact_key(cn, i), "elem": tuple(int(x) for x in cn.elem[i]), "vert": tuple(int(x) for x in cn.vert[i]), "pos": np.array(cn.pos[i]), "dist": float(cn.dist[i]),
           "frame": np.array(cn.frame[i]), "i": i} for i in range(mjd.ncon)]


def dedup(cs):
  """MJWarp keeps one contact per contact point: MuJoCo's contacts that coincide (same objects, same point, same distance) count once"""
  out, dups = [], 0
  for x in cs:
    if any(y["key"] == x["key"] and np.abs(y["pos"] - x["pos"]).max() < 1e-5 and abs(y["dist"] - x["dist"]) < 1e-6 for y in out):
      dups += 1
    else:
      out.append(x)
  return out, dups


def _chunk(args):
  import warnings

  import mujoco
  import warp as wp

  import mujoco_warp as mjw

  warnings.simplefilter("ignore")
  cfgs, seed = args
  out = []
  for rec in cfgs:
    c = rec["c"]
    where = {"cfg": c}
    r = family.rng_for(c, seed, "flex")
    xml = scene_xml(c, r)
    where["xml"] = xml
    # ---- acceptance: the MJCF compiler
    try:
      mjm = mujoco.MjModel.from_xml_string(xml)
      compiled = True
    except Exception as e:
      compiled, cerr = False, str(e).split("\n")[0][:160]
    if not compiled and rec["compile"] and "engine error" in cerr:
      out.append(("skip:mujoco_engine_error_at_compile", None, None))  # not a rule of the model family: MuJoCo's own initial computation fails
      continue
    if compiled != bool(rec["compile"]):
      out.append(("MACHINERY", f"FlexFamily.CompileOK = {rec['compile']} but the compiler says {compiled} ({'' if compiled else cerr}) for {c}", where))
      continue
    if not compiled:
      out.append(("rejected_by_compiler", None, None))
      continue
    # ---- acceptance: put_model
    try:
      m = mjw.put_model(mjm)
      d = mjw.make_data(mjm, nworld=int(c["nworld"]))
      accepted, perr = True, None
    except NotImplementedError as e:
      accepted, perr = False, ("NotImplementedError", str(e)[:160])
    except Exception as e:
      accepted, perr = False, (type(e).__name__, str(e)[:160])
    if rec["unsupported"]:
      if accepted:
        out.append(("MACHINERY", f"FlexFamily.Unsupported but put_model accepted {c}", where))
      elif perr[0] != "NotImplementedError":
        out.append(({"what": "put_model fails without saying the model is unsupported", "type": perr[0]}, perr[1], where))
      else:
        out.append(("rejected_by_put_model", None, None))
      continue
    if not accepted:
      cls = "strain_on_noninterpolated_flex" if rec["crash"] else "other"
      out.append(({"what": "put_model / make_data raises on a model MuJoCo accepts", "type": perr[0], "cls": cls}, perr[1], where))
      continue
    nworld = int(c["nworld"])
    amp_q, amp_v = {"rest": (0.0, 0.0), "small": (0.002, 0.05), "large": (0.008, 0.3), "fold": (0.0005, 0.0)}[c["state"]]
    Q = np.stack([mjm.qpos0 + amp_q * r.normal(size=mjm.nq) for _ in range(nworld)])
    V = np.stack([amp_v * r.normal(size=mjm.nv) for _ in range(nworld)])
    if c["state"] == "fold":
      # lay the last free vertex of the first flex onto the middle of its first element, one and a half radii above it
      d0 = mujoco.MjData(mjm)
      mujoco.mj_kinematics(mjm, d0)
      mujoco.mj_flex(mjm, d0)
      nv0 = int(mjm.flex_vertnum[0])
      free = [v for v in range(nv0) if mjm.flex_vertbodyid[v] > 0]
      v = free[-1]
      ed = int(mjm.flex_dim[0]) + 1
      el = [int(x) for x in mjm.flex_elem[:ed]]
      tgt = d0.flexvert_xpos[el].mean(axis=0) + np.array([0.0, 0.0 if int(c["dim"]) == 2 else 0.022, 0.022 if int(c["dim"]) == 2 else 0.0])
      b = int(mjm.flex_vertbodyid[v])
      for k in range(int(mjm.body_jntnum[b])):
        j = int(mjm.body_jntadr[b]) + k
        Q[:, mjm.jnt_qposadr[j]] += float(np.dot(tgt - d0.flexvert_xpos[v], mjm.jnt_axis[j]))
    wp.copy(d.qpos, wp.array(Q.astype(np.float32), dtype=float))
    wp.copy(d.qvel, wp.array(V.astype(np.float32), dtype=float))
    mjw.forward(m, d)
    if d.overflow.numpy().any():
      out.append(("skip:overflow", None, None))
      continue
    cmp = refcmp.Cmp(1e-4)
    # reference model without the features MJWarp is known to drop: tells a dropped feature from any other disagreement
    dropped = sorted(rec["dropped"])
    mjm_drop = mujoco.MjModel.from_xml_string(scene_xml(c, r, drop=dropped)) if dropped else None
    got = mujoco.MjData(mjm)
    vac = []
    comparable_dyn = True
    refuse = False
    for w in range(nworld):
      mjd = mujoco.MjData(mjm)
      mjd.qpos[:], mjd.qvel[:] = Q[w].astype(np.float32), V[w].astype(np.float32)
      try:
        mujoco.mj_forward(mjm, mjd)
      except mujoco.FatalError:  # the oracle itself gives up on this model (mj_island on some pinned flexes): nothing to compare with
        refuse = True
        break
      mjw.get_data_into(got, mjm, d, world_id=w)
      # stage 1: flex kinematics
      nvx, ne = mjm.nflexvert, mjm.nflexedge
      cmp.close("flexvert_xpos", d.flexvert_xpos.numpy()[w][:nvx], mjd.flexvert_xpos, 2e-5)
      for fi in range(mjm.nflex):
        if mjm.flex_interp[fi] != 0:
          continue  # MuJoCo does not maintain edge quantities of interpolated flexes
        ea, en = int(mjm.flex_edgeadr[fi]), int(mjm.flex_edgenum[fi])
        cmp.close("flexedge_length", d.flexedge_length.numpy()[w][ea : ea + en], mjd.flexedge_length[ea : ea + en], 2e-5)
        if np.abs(mjd.flexedge_velocity[ea : ea + en]).max() > 0 or not np.abs(mjd.qvel).max() > 0:
          # MuJoCo evaluates edge velocities only for flexes that use them (edge equality, edge or elastic damping): elsewhere it leaves zeros
          cmp.close("flexedge_velocity", d.flexedge_velocity.numpy()[w][ea : ea + en], mjd.flexedge_velocity[ea : ea + en], 1e-4)
      # stage 2: passive forces
      passive_ok = True
      for f in ("qfrc_spring", "qfrc_damper", "qfrc_passive"):
        g, e = getattr(d, f).numpy()[w], getattr(mjd, f)
        er, sc = refcmp.err(g, e)
        if er <= 5e-4 * sc:
          cmp.close(f, g, e, 5e-4)
          continue
        passive_ok = False
        if mjm_drop is not None:
          md = mujoco.MjData(mjm_drop)
          md.qpos[:], md.qvel[:] = mjd.qpos, mjd.qvel
          mujoco.mj_forward(mjm_drop, md)
          er2, sc2 = refcmp.err(g, getattr(md, f))
          if er2 <= 5e-4 * sc2:
            cmp.bad.append((f"{f}@dropped_{'_'.join(dropped)}", er, sc))
            cmp.nfields += 1
            continue
        cmp.close(f, g, e, 5e-4)
      if "qfrc_spring" in rec["feeds"] and not np.abs(mjd.qfrc_spring).max() > 0:
        vac.append("qfrc_spring")
      if "qfrc_damper" in rec["feeds"] and not np.abs(mjd.qfrc_damper).max() > 0:
        vac.append("qfrc_damper")
      # stage 3: contacts (one per contact point) and constraint rows
      ca_all, cb_all = contacts_of(mjd), contacts_of(got)
      if "contact" in rec["feeds"] and not ca_all:
        vac.append("contact")
      if "selfcontact" in rec["feeds"] and not any(x["key"][0] == (-1, -1) and x["key"][1][0] == x["key"][1][1] for x in ca_all):
        vac.append("selfcontact")
      if "flexflex" in rec["feeds"] and not any(x["key"][0] == (-1, -1) and x["key"][1][0] != x["key"][1][1] for x in ca_all):
        vac.append("flexflex")

      def clusters(cs):  # contact points: contacts of the same objects at the same point and distance
        out_ = []
        for x in cs:
          for cl in out_:
            y = cl[0]
            if y["key"] == x["key"] and np.abs(y["pos"] - x["pos"]).max() < 2e-4 and abs(y["dist"] - x["dist"]) < 2e-4:
              cl.append(x)
              break
          else:
            out_.append([x])
        return out_

      A, B = clusters(ca_all), clusters(cb_all)
      usedA, un_w, mult, attr = set(), [], False, False
      for cl in B:
        x = cl[0]
        hit = None
        for ia, cla in enumerate(A):
          y = cla[0]
          # a self-contact may list its two elements in either order (the normal then points the other way)
          same_n = np.abs(y["frame"][:3] - x["frame"][:3]).max() < 2e-3 or (x["key"][0] == (-1, -1) and np.abs(y["frame"][:3] + x["frame"][:3]).max() < 2e-3)
          if ia not in usedA and y["key"] == x["key"] and np.abs(y["pos"] - x["pos"]).max() < 2e-4 and abs(y["dist"] - x["dist"]) < 2e-4 and same_n:
            hit = ia
            break
        if hit is None:
          un_w.append(x)
          continue
        usedA.add(hit)
        mult = mult or len(cl) != len(A[hit])
        lab = lambda z: (tuple(sorted(z["elem"])), tuple(sorted(z["vert"]))) if z["key"][0] == (-1, -1) else (z["elem"], z["vert"])
        attr = attr or ({lab(z) for z in cl} != {lab(z) for z in A[hit]} and len(cl) == len(A[hit]))
      un_m = [A[i][0] for i in range(len(A)) if i not in usedA]
      pinned = [mjd.flexvert_xpos[v] for v in range(mjm.nflexvert) if mjm.flex_vertbodyid[v] == 0]

      def static_pair(y):  # at a pinned vertex (it belongs to the world body), against a geom of a static body
        g = max(y["key"][0])
        return g >= 0 and mjm.body_weldid[mjm.geom_bodyid[g]] == 0 and any(np.abs(y["pos"] - pv).max() < 0.02 for pv in pinned)

      rope = int(c["dim"]) == 1 and c["obstacle"] not in ("none", "plane")
      kinds = set()
      is_ff = lambda y: y["key"][0] == (-1, -1) and y["key"][1][0] != y["key"][1][1]  # between two different flexes
      is_self = lambda y: y["key"][0] == (-1, -1) and not is_ff(y)
      un_self = [y for y in un_w + un_m if is_self(y)]
      un_ff = [y for y in un_w + un_m if is_ff(y)]
      un_geom = [y for y in un_w + un_m if y["key"][0] != (-1, -1)]
      if un_self:
        kinds.add("self")
      if un_ff:
        kinds.add("flexflex")
      if un_geom:
        kinds.add("pinned_vertex_static_geom" if all(static_pair(y) for y in un_geom) else "rope_geom" if rope else "geom")
      if not kinds and attr:
        kinds.add("rope_geom" if rope else "attribution")
      if not kinds and mult:
        kinds.add("multiplicity")
      for kind in sorted(kinds):
        if kind in ("geom", "multiplicity", "attribution") and c["obstacle"] in ("none", "plane") and c["second"] != "cross":
          kind += "_plane"  # contacts with a plane (and self-contacts) are generated like MuJoCo's: no finding covers them
        cmp.bad.append((f"contacts@{kind}", float("nan"), 0.0))
        cmp.nfields += 1
      if kinds:
        fmt = lambda y: f"{y['key']} elem {y['elem']} vert {y['vert']} at {y['pos'].round(4).tolist()} dist {y['dist']:.5f}"
        where["contact_problem"] = (f"only MJWarp: {[fmt(y) for y in sorted(un_w, key=lambda y: not is_self(y))][:3]}; only MuJoCo: {[fmt(y) for y in sorted(un_m, key=lambda y: not is_self(y))][:3]}; "
                                    f"contacts {len(cb_all)} vs {len(ca_all)}, contact points {len(B)} vs {len(A)}")
        comparable_dyn = False
      if len(ca_all) != len(A) or len(cb_all) != len(B):
        comparable_dyn = False  # coinciding contacts share the load: the dynamics are compared only when every contact point holds one contact
      # equality / friction / limit rows (no contact rows here: they are compared through the contacts above and the dynamics below)
      if "efc_equality" in rec["feeds"] and mjd.ne == 0:
        vac.append("efc_equality")
      rr, rg = efc.rows(mjm, mjd), efc.rows(mjm, got)
      # equality rows are matched per equality (row order is not part of the result): same efc_id, nearest Jacobian row
      im, iw, extra_w, missing = [], [], [], 0
      for eid in sorted(set(int(x) for x in rr["id"][: mjd.ne]) | set(int(x) for x in rg["id"][: got.ne])):
        a = [i for i in range(mjd.ne) if int(rr["id"][i]) == eid]
        b = [i for i in range(got.ne) if int(rg["id"][i]) == eid]
        for i in a:
          if not b:
            missing += 1
            continue
          j = min(b, key=lambda j_: float(np.abs(rr["J"][i] - rg["J"][j_]).max()))
          b.remove(j)
          im.append(i), iw.append(j)
        extra_w += b
      zero_rows = [j for j in extra_w if np.abs(rg["J"][j]).max() < 1e-6]
      if zero_rows:  # MuJoCo leaves out the row of an edge between two pinned vertices; MJWarp emits an all-zero row for it
        cmp.bad.append(("ne@zero_jacobian_equality", float(len(zero_rows)), 0.0))
        cmp.nfields += 1
      cmp.equal("ne", got.ne - len(zero_rows), mjd.ne)
      if missing or len(extra_w) != len(zero_rows):
        cmp.bad.append(("rowset@equality", float("nan"), 0.0))
      if im:
        for f in ROWFIELDS:
          cmp.close("efc_" + f + "@equality", rg[f][iw], rr[f][im], 5e-4)
      if zero_rows:
        comparable_dyn = comparable_dyn  # an all-zero row carries no force: the dynamics stay comparable
      # a contact no dof can move (vertex of an interpolated flex on a pinned node, against a static geom): MuJoCo lists it without rows
      zc = [i for i in range(got.ne, got.nefc) if np.abs(rg["J"][i]).max() < 1e-6]
      if zc and not any(np.abs(rr["J"][i]).max() < 1e-6 for i in range(mjd.ne, mjd.nefc)):
        # ... unless it is a contact between two different flexes (world 0, where efc_id is the contact's index): both sides can move
        zff = [i for i in zc if w == 0 and 0 <= int(rg["id"][i]) < got.ncon and got.contact.geom[int(rg["id"][i])].max() < 0
               and got.contact.flex[int(rg["id"][i])][0] != got.contact.flex[int(rg["id"][i])][1]]
        cmp.bad.append(("nefc@zero_jacobian_flexflex_contact_row" if zff else "nefc@zero_jacobian_contact_row", float(len(zc)), 0.0))
        cmp.nfields += 1
        comparable_dyn = False
      # stage 3b: the rider's sensors (touch, force, torque, contact sensors): the rider touches at most the plane, so whatever the flex's own contacts
      # look like its sensors must read what MuJoCo's read (flex contacts have no geom on the flex side and belong to no body)
      if c.get("rider") and mjm.nsensordata and np.isfinite(d.qacc.numpy()[w]).all():
        ssc = max(1.0, float(np.abs(mjd.sensordata).max()))
        sd = d.sensordata.numpy()[w]
        cmp.close("sensordata", sd[:-1], mjd.sensordata[:-1], 5e-3, scale=ssc)
        if not kinds and len(ca_all) == len(cb_all):  # the last sensor counts every contact inside a site that contains the scene: only where the contact lists agree
          cmp.close("sensordata", sd[-1:], mjd.sensordata[-1:], 5e-3, scale=ssc)
        if "sensor" in rec["feeds"] and not mjd.sensordata[0] > 0:
          vac.append("sensor")
      # stage 4: dynamics
      if comparable_dyn and passive_ok and not [b for b in cmp.bad if "zero_jacobian_equality" not in b[0] and not b[0].startswith("sensordata")]:
        sc = max(1.0, float(np.abs(mjd.qfrc_constraint).max()), float(np.abs(mjd.qfrc_passive).max()))
        # element (not vertex) contacts of an interpolated flex: MJWarp spreads the force over the cell's nodes with inverse-distance weights
        # (constraint.py: "TODO(flex): Replace inverse-distance contact weights with barycentric weights"), MuJoCo with the element's barycentric ones
        tag = "@interpolated_element_contact_weights" if c["dof"] == "trilinear" and any(max(x["elem"]) >= 0 and max(x["key"][0]) >= 0 for x in cb_all) else ""
        # contacts between an interpolated flex and another flex: constraint.py says "interpolated flex contacts only handle flex-vs-geom contacts" (TODO there)
        if c["dof"] == "trilinear" and any(x["key"][0] == (-1, -1) and x["key"][1][0] != x["key"][1][1] for x in cb_all):
          tag = "@interpolated_flexflex_contact"
        cmp.close("qfrc_constraint" + tag, d.qfrc_constraint.numpy()[w], mjd.qfrc_constraint, 5e-3, scale=sc)
        cmp.close("qacc" + tag, d.qacc.numpy()[w], mjd.qacc, 5e-3, scale=float(np.abs(mjd.qacc).max()))
    if refuse:
      out.append(("skip:mujoco_fatal_error", None, None))
      continue
    # stage 5: three steps (lock-step; stops as soon as a contact with a non-plane geom arises: those contacts are a finding of stage 3)
    if comparable_dyn and not [b for b in cmp.bad if "zero_jacobian_equality" not in b[0] and not b[0].startswith("sensordata")]:
      mds = []
      for w in range(nworld):
        mjd = mujoco.MjData(mjm)
        mjd.qpos[:], mjd.qvel[:] = Q[w].astype(np.float32), V[w].astype(np.float32)
        mds.append(mjd)
      for k in range(3):
        for mjd in mds:
          mujoco.mj_step(mjm, mjd)
        mjw.step(m, d)
        if c["obstacle"] not in ("none", "plane") and (any(x.ncon for x in mds) or int(d.nacon.numpy()[0])):
          break
        for w in range(nworld):
          cmp.close(f"step{k + 1}.qpos", d.qpos.numpy()[w], mds[w].qpos, 2e-4)
          cmp.close(f"step{k + 1}.qvel", d.qvel.numpy()[w], mds[w].qvel, 2e-2, scale=float(np.abs(mds[w].qvel).max()))
    for name in sorted({b[0] for b in cmp.bad}):
      fld, _, cls = name.partition("@")
      key = {"what": "flex quantity differs from MuJoCo C", "field": fld}
      if cls:
        key["cls"] = cls
      out.append((key, "; ".join(f"{n}: err {e:.3g} scale {s:.3g}" for n, e, s in cmp.bad if n == name)[:400] + " " + where.get("contact_problem", ""), where))
    out.append(("ok", {"fields": cmp.nfields, "vac": vac, "dyn": bool(comparable_dyn and not cmp.bad), "contacts": int(got.ncon)}, None))
  return out


def run(ctx: core.Ctx):
  ctx.rule = ("FlexFamily.tla: one flexcomp grid (dim 1/2/3, three sizes; dof full / radial / trilinear; edge equality none / edge / strain / vert; "
              "elasticity with damping and the 2D variants; edge stiffness and damping; pins; self-collision modes; internal collision; an obstacle "
              "geom of 6 types overlapping the lowest layer; condim, margin, cone, Jacobian; optional second flex; optional free rigid rider with touch / force / torque / contact sensors that never touches the flex; 1..2 worlds with distinct "
              "states of three amplitudes) with the spec's verdicts CompileOK / Accepted / Unsupported and the stages each feature feeds. Replay: "
              "the compiler's and put_model's verdicts must be the spec's; for accepted models flexvert_xpos, edge lengths and velocities, passive "
              "forces (against MuJoCo, and against MuJoCo without the features the spec lists as dropped), contact points (MuJoCo's coinciding "
              "contacts counted once), equality rows (pos, margin, D, aref, J), the rider's sensordata, then qfrc_constraint, qacc and 3 steps are compared per world")
  ctx.tlc("FlexFamily", "MC_FlexFamily.cfg", timeout=900)
  n = 300 if ctx.quick else 6000
  r = ctx.tlc("Gen_FlexFamily", "Gen_FlexFamily.cfg", gen=gen(n), workers=1, simulate="num=1", depth=n + 1, seed=ctx.seed % (1 << 30), timeout=900)
  cfgs, seen = [], set()
  for c in r.emit("cfg"):
    h = core.jhash(c["c"])
    if h not in seen:
      seen.add(h)
      cfgs.append(c)
  ctx.traces_validated = len(cfgs)
  CH = max(1, len(cfgs) // 42 + 1)
  tot = {"fields": 0, "dyn": 0, "accepted": 0, "contacts": 0}
  vac = {}
  feeds_seen = {}
  done, crashes = core.pmap_chunks(_chunk, [(cfgs[i : i + CH], ctx.seed) for i in range(0, len(cfgs), CH)], lambda ch: [([x], ch[1]) for x in ch[0]])
  for single, cr in crashes:
    ctx.violation({"what": "the process dies", "signal": int(cr.returncode), "where": core.crash_site(cr)}, cr.stderr_tail[-600:], {"cfg": single[0][0]["c"]})
  for res in done:
    for key, msg, scen in res:
      if key == "MACHINERY":
        raise RuntimeError(msg)
      if isinstance(key, str):
        if key == "ok":
          tot["fields"] += msg["fields"]
          tot["dyn"] += bool(msg["dyn"])
          tot["accepted"] += 1
          tot["contacts"] += msg["contacts"] > 0
          for v in msg["vac"]:
            vac[v] = vac.get(v, 0) + 1
        else:
          ctx.skip(key)
        continue
      ctx.violation(key, msg, scen)
  for c in cfgs:
    ctx.case({"cfg": c["c"]}, nontrivial=bool(c["accepted"]), key=c["c"])
    if c["accepted"]:
      for f in c["feeds"]:
        feeds_seen[f] = feeds_seen.get(f, 0) + 1
  ctx.extra["fields_compared"] = tot["fields"]
  ctx.extra["accepted_models"] = tot["accepted"]
  ctx.extra["models_compared_through_dynamics"] = tot["dyn"]
  ctx.extra["models_with_contacts"] = tot["contacts"]
  ctx.extra["stages_fed"] = feeds_seen
  ctx.extra["vacuous_feeds"] = vac
  if tot["accepted"] < 0.3 * len(cfgs) or tot["dyn"] < 0.08 * len(cfgs):
    raise RuntimeError(f"vacuous: {tot}")
  for f, nfeed in feeds_seen.items():
    if nfeed >= 8 and vac.get(f, 0) > 0.5 * nfeed:
      raise RuntimeError(f"vacuous: stage {f} fed by {nfeed} configurations but empty in MuJoCo for {vac[f]}")
  ctx.assumptions += ["MuJoCo contacts that coincide (same objects, point and distance) count once, and models that have such contacts are not compared in the dynamics",
                      "tolerances: 2e-5 kinematics, 5e-4 passive forces and rows, 5e-3 dynamics (relative to the force scale), 2e-4 positions after 3 steps",
                      "grid flexcomps only (no mesh / gmsh flexes, no flex textures); quadratic interpolation is rejected by put_model and not generated"]


def replay(ctx, scen):
  run(ctx)


META = {
  "text": "FlexFamily.tla defines the family of flex models, the compiler's and put_model's acceptance rules and the pipeline stages every feature "
          "feeds; TLC checks the rules' consistency and emits configurations with the verdicts; for every emitted configuration the real compiler "
          "and put_model must agree with the verdicts, and for accepted models every flex stage (vertex positions, edge lengths/velocities, passive "
          "forces, contacts, equality rows, dynamics, 3 steps) is compared per world with MuJoCo C, with a per-stage vacuity guard from the spec's "
          "Feeds.",
  "note": "differential against MuJoCo C over TLC-generated flex configurations (grid flexcomps); coinciding contacts counted once",
  "technique": "TLA+ model family with acceptance rules (FlexFamily.tla) checked and sampled by TLC + spec->code replay with MuJoCo C as per-stage oracle",
}
