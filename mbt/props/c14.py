"""C14  reset_data_keyframe semantics  (Pipeline.tla: ResetKeyArray / ResetKeyScalar)."""

from __future__ import annotations

from .. import core, pipeline
from . import c13

LEVEL = "model_checking"
OPS = ["step", "keyarray", "keyscalar", "reset"]
PROPS = ("KeyframeOK", "KeyScalarOK", "ResetSelected", "ResetContactsOK")


def run(ctx: core.Ctx):
  ctx.rule = ("TLC -simulate behaviours of Pipeline.tla (ops: step, reset_data_keyframe with every key array over {-1..nkey} per world, scalar keys "
              "-1..nkey, reset_data) over 3 worlds x 2 keyframes, depth 7; non-trivial = contains a keyframe reset; after every action each world "
              "is compared bitwise with the reference term evaluation, whose keyframe origin is mujoco.mj_resetDataKeyframe + put_data")
  c13.run_generic(ctx, OPS, PROPS, c13.models(), depth=7, nbeh_quick=60, nbeh_thorough=600)
  ctx.assumptions += ["keyframe reference = mujoco.mj_resetDataKeyframe followed by put_data (independent of reset_data_keyframe)"]


def replay(ctx, scen):
  run(ctx)


META = {
  "text": "TLC checks Pipeline.tla's keyframe actions (valid index -> fresh reset + keyframe, invalid index -> untouched, invalid scalar -> rejected) "
          "and generates behaviours over 3 worlds x 2 keyframes with every key array in {-1..nkey}; each is replayed and after every action each "
          "world's integration state (time, qpos, qvel, act, ctrl, mocap, history, ...) and contacts are compared with mj_resetDataKeyframe+put_data "
          "followed by the same steps.",
  "note": "one rich model with two keyframes (incl. mocap poses, act with na>nu, ctrl); MuJoCo C is the keyframe oracle",
  "technique": "TLA+ API state machine (Pipeline.tla) model-checked with TLC + spec->code behaviour replay against a MuJoCo-derived reference",
}
