"""C28  Constraint islands are the connected components  (Island.tla: flood fill + map kernels; every graph replayed)."""

from __future__ import annotations

import numpy as np

from .. import core

LEVEL = "model_checking"


def gen(ntree, mode, ncfg=1, emit=True, dofs=1):
  mod = "---- MODULE Gen_Island ----\nEXTENDS Island\n====\n"
  cfg = f"""CONSTANTS
  NTree = {ntree}
  DofsPerTree = {dofs}
  Mode = "{mode}"
  NCfg = {ncfg}
SPECIFICATION Spec
INVARIANT ComponentsOK
INVARIANT CountOK
INVARIANT StackBound
""" + ("INVARIANT EmitCfg\n" if emit else "") + ("INVARIANT MapsOK\n" if mode == "all" else "")
  return {"Gen_Island.tla": mod, "Gen_Island.cfg": cfg}


def scene(ntree, edges, variant, hyper=()):
  """trees = bodies with one hinge (variant 0) or a free joint (variant 1); {i,i}: friction loss on tree i (hinge) / contact with the floor
  (free); {i,j}: connect equality between the bodies."""
  bodies, eq = [], []
  selfs = {e[0] for e in edges if e[0] == e[1]}
  for t in range(ntree):
    if variant == 0:
      fr = ' frictionloss="0.2"' if t in selfs else ""
      bodies.append(f'<body name="t{t}" pos="{0.5 * t} 0 1"><joint name="j{t}" type="hinge" axis="0 1 0"{fr}/><geom type="capsule" fromto="0 0 0 0.2 0 0" size="0.03" '
                    f'contype="0" conaffinity="0"/></body>')
    else:
      z = 0.09 if t in selfs else 0.6
      bodies.append(f'<body name="t{t}" pos="{0.5 * t} {0.3 * (t % 2)} {z}"><freejoint/><geom type="sphere" size="0.1"/></body>')  # zigzag: a tendon through three trees is not straight
  for a, b in edges:
    if a != b:
      eq.append(f'<connect body1="t{a}" body2="t{b}" anchor="0.1 0 0"/>')
  floor = '<geom type="plane" size="5 5 .1"/>' if variant == 1 else ""
  # a row over three trees: a limited tendon whose limit is active (fixed tendon over the three hinges / spatial tendon through sites on the three bodies)
  ten = []
  for n, (a, b, c) in enumerate(hyper):
    if variant == 0:
      ten.append(f'<fixed name="h{n}" limited="true" range="0.2 0.6"><joint joint="j{a}" coef="1"/><joint joint="j{b}" coef="-1.3"/><joint joint="j{c}" coef="0.7"/></fixed>')
    else:
      ten.append(f'<spatial name="h{n}" limited="true" range="0 0.3"><site site="s{a}"/><site site="s{b}"/><site site="s{c}"/></spatial>')
  xml = f'<mujoco><worldbody>{floor}{"".join(bodies)}</worldbody><equality>{"".join(eq)}</equality><tendon>{"".join(ten)}</tendon></mujoco>'
  if variant == 1:
    xml = xml.replace('<freejoint/>', '<freejoint/><site name="S" pos="0 0 0.05" size="0.01"/>')
    for t in range(ntree):
      xml = xml.replace('<site name="S"', f'<site name="s{t}"', 1)
  return xml


def _chunk(args):
  import mujoco
  import warp as wp

  import mujoco_warp as mjw
  from mujoco_warp._src import island as I

  ntree, cfgs = args
  out = []
  for cfg in cfgs:
    edges = [tuple(e) for e in cfg["edges"]]
    hyper = [tuple(e) for e in cfg.get("hyper", [])]
    for variant in (0, 1):
      xml = scene(ntree, edges, variant, hyper)
      mjm = mujoco.MjModel.from_xml_string(xml)
      mjd = mujoco.MjData(mjm)
      mujoco.mj_forward(mjm, mjd)
      m = mjw.put_model(mjm)
      nworld = 2
      d = mjw.make_data(mjm, nworld=nworld, njmax=int(mjd.nefc) + 16)  # capacity is not the subject here (C16): room for every row
      mjw.fwd_position(m, d)
      mjw.island(m, d)
      I.compute_island_mapping(m, d)
      where = {"ntree": ntree, "edges": edges, "hyper": hyper, "variant": variant}
      lab = cfg["labels"]
      exp = np.array([lab[str(t)] for t in range(ntree)] if isinstance(lab, dict) else list(lab))
      for w in range(nworld):
        got = d.tree_island.numpy()[w]
        if not np.array_equal(got, exp):
          out.append(({"what": "tree_island differs from Island.tla", "variant": variant}, f"world {w}: got {got.tolist()} expected {exp.tolist()}", where))
          break
        if int(d.nisland.numpy()[w]) != cfg["nisland"]:
          out.append(({"what": "nisland differs from Island.tla"}, f"world {w}: {int(d.nisland.numpy()[w])} vs {cfg['nisland']}", where))
          break
        # maps: mutually inverse permutations consistent with the per-island counts
        nv, nefc = mjm.nv, int(d.nefc.numpy()[w])
        d2i, i2d = d.map_dof2idof.numpy()[w], d.map_idof2dof.numpy()[w]
        e2i, i2e = d.map_efc2iefc.numpy()[w][:nefc], d.map_iefc2efc.numpy()[w][:nefc]
        nisl = cfg["nisland"]
        inv, nef, ne, nf = (getattr(d, n).numpy()[w][:nisl] for n in ("island_nv", "island_nefc", "island_ne", "island_nf"))
        iadr, eadr = d.island_idofadr.numpy()[w][:nisl], d.island_iefcadr.numpy()[w][:nisl]
        dof_tree = mjm.dof_treeid
        probs = []
        if sorted(d2i.tolist()) != list(range(nv)) or not all(i2d[d2i[k]] == k for k in range(nv)):
          probs.append(f"dof maps not inverse permutations: {d2i.tolist()} {i2d.tolist()}")
        for k in range(nv):
          isl = exp[dof_tree[k]]
          if isl >= 0 and not (iadr[isl] <= d2i[k] < iadr[isl] + inv[isl]):
            probs.append(f"dof {k} of island {isl} mapped outside its block: {d2i[k]} not in [{iadr[isl]}, {iadr[isl] + inv[isl]})")
        if [int((exp[dof_tree] == i).sum()) for i in range(nisl)] != inv.tolist():
          probs.append(f"island_nv {inv.tolist()}")
        if nefc:
          if sorted(e2i.tolist()) != list(range(nefc)) or not all(i2e[e2i[r]] == r for r in range(nefc)):
            probs.append(f"efc maps not inverse permutations: {e2i.tolist()} {i2e.tolist()}")
          if int(nef.sum()) != nefc:
            probs.append(f"island_nefc {nef.tolist()} does not sum to nefc {nefc}")
          typ = d.efc.type.numpy()[w][:nefc]
          for i in range(nisl):
            blk = i2e[eadr[i] : eadr[i] + nef[i]]
            kinds = [0 if typ[r] == 0 else 1 if typ[r] in (1, 2) else 2 for r in blk]
            if kinds != sorted(kinds) or kinds.count(0) != ne[i] or kinds.count(1) != nf[i]:
              probs.append(f"island {i} block not ordered equality/friction/other or ne/nf wrong: kinds {kinds} ne {ne[i]} nf {nf[i]}")
        if probs:
          out.append(({"what": "island maps inconsistent", "variant": variant}, "; ".join(probs[:3]), where))
          break
      # MuJoCo C
      mjl = np.array(mjd.tree_island)
      if mjd.nisland != cfg["nisland"] or (cfg["nisland"] > 0 and not np.array_equal(mjl[exp >= 0], exp[exp >= 0])) or (cfg["nisland"] > 0 and (mjl[exp < 0] >= 0).any()):
        out.append(("MACHINERY", f"spec/MuJoCo disagree: mujoco nisland {mjd.nisland} tree_island {np.array(mjd.tree_island).tolist()} spec {exp.tolist()} edges {edges} v{variant}", where))
  return out


def run(ctx: core.Ctx):
  ctx.rule = ("Island.tla: TLC checks, for every edge set over <= 3 (quick) / 4 (thorough) trees and every thread order of the dof-map kernel, that the "
              "transcribed DFS flood fill labels exactly the connected components numbered by smallest tree (untouched trees -1), that the DFS stack "
              "stays within ntree^2, and that the dof map is a permutation with contiguous island blocks. EVERY graph is then concretised twice (hinge "
              "bodies with dof friction / free spheres with floor contacts; connect equalities as tree-tree edges) and island() + "
              "compute_island_mapping() compared with the spec's labels (three-way with mj_island) and the map invariants; plus random graphs on 6 trees")
  nt = 3 if ctx.quick else 4
  ctx.tlc("Gen_Island", "Gen_Island.cfg", gen=gen(nt, "all", emit=False), timeout=1800)
  work = []
  r = ctx.tlc("Gen_Island", "Gen_Island.cfg", gen=gen(4, "graphs"), timeout=1800)
  cfgs = r.emit("cfg")
  if ctx.quick:
    cfgs = cfgs[::4]
  for c in cfgs:
    ctx.case({"ntree": 4, "edges": c["edges"], "labels": c["labels"]}, nontrivial=len(c["edges"]) > 0, key=("4", c["edges"]))
  CH = max(1, len(cfgs) // 28 + 1)
  work += [(4, cfgs[i : i + CH]) for i in range(0, len(cfgs), CH)]
  n6 = 40 if ctx.quick else 600
  r = ctx.tlc("Gen_Island", "Gen_Island.cfg", gen=gen(6, "sim", ncfg=n6), workers=1, simulate="num=1", depth=n6 + 1, seed=ctx.seed % (1 << 30), timeout=900)
  c6 = r.emit("cfg")
  for c in c6:
    ctx.case({"ntree": 6, "edges": c["edges"], "labels": c["labels"]}, nontrivial=len(c["edges"]) > 0, key=("6", c["edges"]))
  CH = max(1, len(c6) // 14 + 1)
  work += [(6, c6[i : i + CH]) for i in range(0, len(c6), CH)]
  ctx.traces_validated = 2 * (len(cfgs) + len(c6))
  for res in core.pmap(_chunk, work, nproc=14):
    for key, msg, scen in res:
      if key == "MACHINERY":
        raise RuntimeError(msg)
      ctx.violation(key, msg, scen)
  ctx.extra["exhaustive_graphs_4_trees"] = len(cfgs)
  ctx.assumptions += ["edges are realised by connect equalities (tree-tree), dof friction loss or floor contacts (single-tree rows); rows touching three or more trees are not generated"]


def replay(ctx, scen):
  run(ctx)


META = {
  "text": "Island.tla transcribes the tree-adjacency flood fill (explicit DFS stack) and the atomic dof-map kernel; TLC checks on every graph over the "
          "bounded number of trees and every thread order that labels = connected components numbered by smallest tree, stack <= ntree^2, maps are "
          "permutations with contiguous blocks. Every enumerated graph is concretised and island()/compute_island_mapping() compared with the spec "
          "(labels, counts) and with mj_island, and the real maps are checked for inverse-permutation / block / ordering consistency.",
  "note": "graphs with <= 4 trees exhaustively (1024), 6 trees sampled; CPU thread order for the real kernels, all orders in the model",
  "technique": "TLA+ transcription of the island algorithms (Island.tla) model-checked with TLC + one implementation run per TLC-enumerated graph, three-way with MuJoCo C",
}
