"""C05  Constraint assembly agrees with MuJoCo C  (RowAlloc.tla structure invariants; ModelFamily.tla configurations, rows as multisets)."""

from __future__ import annotations

import numpy as np

from .. import core, efc, family, parity

LEVEL = "model_checking"
JOINTS = ("weld", "free", "ball", "hinge", "slide", "hinge2", "slidehinge")
GEOMS = ("sphere", "capsule", "box", "ellipsoid", "cylinder")
FEATS = ("floor", "condim", "friction", "margin", "solmix", "priority", "jlimit", "tlimit", "frictionloss", "eq_connect", "eq_weld", "eq_joint", "eq_tendon",
         "tendon_fixed", "tendon_spatial", "solparams", "damper", "armature", "act_motor", "applied")
ROWFIELDS = ["J", "pos", "margin", "D", "aref", "frictionloss", "vel"]


def forward_both(mjm, mjd, m, d):
  import mujoco

  import mujoco_warp as mjw

  mujoco.mj_forward(mjm, mjd)
  mjw.forward(m, d)


def structure_problems(mjm, m, d, w) -> list:
  """RowAlloc.tla's structural invariants evaluated on the real row table of world w."""
  import mujoco_warp as mjw

  CT = mjw._src.types.ConstraintType if hasattr(mjw, "_src") else None
  from mujoco_warp._src.types import ConstraintType as CT

  out = []
  nefc, ne, nf, nl = (int(getattr(d, n).numpy()[w]) for n in ("nefc", "ne", "nf", "nl"))
  typ = d.efc.type.numpy()[w][:nefc]
  ids = d.efc.id.numpy()[w][:nefc]
  if ne + nf + nl > nefc:
    out.append(f"ne+nf+nl={ne + nf + nl} > nefc={nefc}")
  kind = lambda t: 0 if t == CT.EQUALITY else 1 if t in (CT.FRICTION_DOF, CT.FRICTION_TENDON) else 2 if t in (CT.LIMIT_JOINT, CT.LIMIT_TENDON) else 3
  exp = [0] * ne + [1] * nf + [2] * nl + [3] * (nefc - ne - nf - nl)
  got = [kind(int(t)) for t in typ]
  if got != exp:
    out.append(f"row kinds by position {got} != {exp} (ne={ne} nf={nf} nl={nl})")
  # contact addresses
  nacon = int(d.nacon.numpy()[0])
  wid = d.contact.worldid.numpy()[:nacon]
  adr = d.contact.efc_address.numpy()[:nacon]
  dim = d.contact.dim.numpy()[:nacon]
  pyramidal = int(m.opt.cone) == 0
  for c in range(nacon):
    if wid[c] != w:
      continue
    nrow = 1 if dim[c] == 1 else (2 * (dim[c] - 1) if pyramidal else dim[c])
    a = adr[c][:nrow]
    for k, x in enumerate(a):
      if x == -1:
        continue
      if not (0 <= x < nefc) or kind(int(typ[x])) != 3 or int(ids[x]) != c:
        out.append(f"contact {c} address[{k}]={x} does not point at a row of this contact")
        break
    if (a >= 0).all() and nrow > 1 and not (np.diff(a) == 1).all():
      out.append(f"contact {c} rows not contiguous: {a.tolist()}")
  return out


def localize_contact_ids(mjm, d, w, got):
  """get_data_into copies efc.id verbatim: contact rows made by make_constraint hold indices into the contact buffer shared by all
  worlds, while the MjData it fills numbers this world's contacts from 0 (recorded under C31).  Canonicalise to the local numbering."""
  import mujoco

  nacon = int(d.nacon.numpy()[0])
  glob = np.flatnonzero(d.contact.worldid.numpy()[:nacon] == w)
  loc = {int(g): i for i, g in enumerate(glob)}
  for r in range(got.nefc):
    if got.efc_type[r] >= int(mujoco.mjtConstraint.mjCNSTR_CONTACT_FRICTIONLESS) and int(got.efc_id[r]) in loc:
      got.efc_id[r] = loc[int(got.efc_id[r])]


def compare(rec, b, mjm, mjd, m, d, cmp, opts):
  import mujoco

  import mujoco_warp as mjw

  forward_both(mjm, mjd, m, d)
  # (forward() alone does not raise the row-overflow bit, step() does: compare the counters with the capacities)
  if d.overflow.numpy().any() or (d.nefc.numpy() > d.njmax).any() or int(d.nacon.numpy()[0]) > d.naconmax:
    return "skip:overflow"
  got = mujoco.MjData(mjm)
  for w in range(d.nworld):
    for p in structure_problems(mjm, m, d, w):
      cmp.bad.append(("structure:" + p.split(" ")[0], float("nan"), 0.0))
      cmp.nfields += 1
    mjw.get_data_into(got, mjm, d, world_id=w)
    localize_contact_ids(mjm, d, w, got)
    ca, cb = efc.contacts(mjd), efc.contacts(got)
    cpairs, cprob = efc.match_contacts(ca, cb)
    if cprob:
      return "skip:contact_set_differs"  # collision parity is C04's subject; rows of different contact sets are not comparable
    for i, j in cpairs:  # contacts of convex (GJK/EPA) pairs agree only to the convex solver's tolerance: their rows are not comparable at 5e-4
      if abs(ca[i]["dist"] - cb[j]["dist"]) > 1e-5 or np.abs(ca[i]["pos"] - cb[j]["pos"]).max() > 1e-5 or np.abs(ca[i]["frame"] - cb[j]["frame"]).max() > 1e-5:
        return "skip:contact_geometry_differs"
    ir, ig, prob = efc.align(mjm, mjd, got)
    nzero = sum(1 for p in prob if p.startswith("zero_jacobian_equality"))
    if nzero:  # known finding F23: MuJoCo emits no rows for an equality that no dof can move; MJWarp emits all-zero rows
      cmp.bad.append(("ne@zero_jacobian_equality", float(nzero), 0.0))
    T_ = mujoco.mjtConstraint
    zt = [p for p in prob if p.startswith("zero_jacobian_tendon")]
    nzt_l = sum(1 for p in zt if f"({int(T_.mjCNSTR_LIMIT_TENDON)}," in p)
    nzt_f = len(zt) - nzt_l
    if zt:  # the same for limit / friction rows of a tendon that no dof moves (all-zero Jacobian): MuJoCo leaves the row out
      cmp.bad.append(("nl@zero_jacobian_tendon", float(len(zt)), 0.0))
    cmp.equal("ne", got.ne - nzero, mjd.ne)
    cmp.equal("nf", got.nf - nzt_f, mjd.nf)
    cmp.equal("nl", got.nl - nzt_l, mjd.nl)
    cmp.equal("nefc", got.nefc - nzero - len(zt), mjd.nefc)
    for p in prob:
      if not p.startswith(("zero_jacobian_equality", "zero_jacobian_tendon")):
        cmp.bad.append(("rowset", float("nan"), 0.0))
    rr, rg = efc.rows(mjm, mjd), efc.rows(mjm, got)
    if len(ir):
      for f in ROWFIELDS:
        cmp.close("efc_" + f, rg[f][ig], rr[f][ir], 5e-4)


def sample(ctx, n, seed_off=0, qclasses=("rand",)):
  return family.sample(ctx, n, seed_off=seed_off, maxbody=5, joints=JOINTS, geoms=GEOMS, feats=FEATS, maxfeat=8, cones=("pyramidal", "elliptic"),
                       solvers=("Newton", "CG"), jacobians=("dense", "sparse", "auto"), qclasses=qclasses, vclasses=("rand", "zero"))


def run(ctx: core.Ctx):
  ctx.rule = ("RowAlloc.tla (all interleavings of the row allocators, dense+sparse) is model-checked for the structural half: counts, kind-by-position, "
              "contact address consistency; the same invariants are evaluated on the real row table of every replayed scenario. ModelFamily.tla "
              "configurations with floor contacts of every condim, friction, margins, solmix/priority, joint/tendon limits, dof/tendon friction loss, "
              "connect/weld/joint/tendon equalities x both cones x dense/sparse Jacobians: after forward(), rows are aligned with mj_forward's rows as a "
              "multiset keyed by (type, object, sub-row) (contacts matched by geom pair + nearest position) and J, pos, margin, D, aref, frictionloss, "
              "vel compared; ne/nf/nl/nefc exact")
  ctx.tlc("MC_RowAlloc", "MC_RowAlloc_quick.cfg" if ctx.quick else "MC_RowAlloc.cfg", timeout=1800)
  n = 260 if ctx.quick else 3000
  recs = sample(ctx, n)
  ctx.traces_validated = len(recs)
  parity.run(ctx, __name__, "compare", recs, nworld=2, opts={"tol": 5e-4, "vscale": 0.3}, what="constraint rows differ from MuJoCo C")
  ctx.assumptions += ["MuJoCo C oracle at 5e-4 relative (the repository's tolerance for constraint rows); scenarios whose contact sets differ (C04) or that overflow are skipped and counted"]


def replay(ctx, scen):
  rec = {"c": scen["scenario"]["cfg"]}
  for res in parity.chunk((__name__, "compare", [rec], scen.get("seed", ctx.seed), 2, {"tol": 5e-4, "vscale": 0.3})):
    ctx.case(rec)
    for name in sorted({x[0] for x in res["bad"]}):  # same keys as parity.run: one per field, class after the '@'
      fld, _, cls = name.partition("@")
      ctx.violation(dict({"what": "constraint rows differ from MuJoCo C", "field": fld}, **({"cls": cls} if cls else {})), str([x for x in res["bad"] if x[0] == name][:5]), scen["scenario"])


META = {
  "text": "The structural half (ne+nf+nl <= nefc, rows ordered equality/friction/limit/contact, every contact row address points at a contiguous "
          "block of that contact) is an invariant of RowAlloc.tla under all thread interleavings and is re-evaluated on the real row table of every "
          "replayed scenario; the values (J, pos, margin, D, aref, frictionloss, counts) are compared with mj_forward's rows as multisets over "
          "TLC-generated ModelFamily.tla configurations covering every row kind, both cones and both Jacobian layouts.",
  "note": "row values are differential against MuJoCo C (5e-4 relative); structure is spec-decided",
  "technique": "PlusCal/TLA+ allocator model (RowAlloc.tla) checked by TLC + ModelFamily.tla enumeration; spec invariants evaluated on real row tables, MuJoCo C as value oracle",
}
