"""C34  Ray casting returns the nearest eligible hit  (RayPick.tla: eligibility, pick, BVH traversal; per-geom MuJoCo intersections as oracle)."""

from __future__ import annotations

import numpy as np

from .. import core, family

LEVEL = "model_checking"
TYPES = {"plane": 0, "hfield": 1, "sphere": 2, "capsule": 3, "ellipsoid": 4, "cylinder": 5, "mesh": 7, "box": 6}
HOMES = ["world", "static_child", "moving1", "moving2", "moving2_child"]
NQ = 6


def gen(n, ngeom=8):
  mod = "---- MODULE Gen_RayPick ----\nEXTENDS RayPick\n====\n"
  cfg = f"CONSTANTS\n  Mode = \"sim\"\n  NCfg = {n}\n  NGeom = {ngeom}\n  MaxD = 2\nSPECIFICATION Spec\nINVARIANT TypeOK\nINVARIANT EmitCfg\n"
  return {"Gen_RayPick.tla": mod, "Gen_RayPick.cfg": cfg}


def scene_xml(c, r):
  """concretises a RayPick scene: geom i of the spec is the geom named g<i>"""
  assets, per_home = [], {h: [] for h in HOMES}
  assets.append('<material name="mat_a0" rgba="1 0 0 0"/><material name="mat_vis" rgba="0 1 0 1"/>')
  for i, g in enumerate(c["scene"]):
    t = g["type"]
    s = r.uniform(0.12, 0.3, size=3)
    pos, quat = r.uniform(-0.7, 0.7, size=3), family._unit(r, 4)
    extra = ""
    if t == "plane":
      size = "0 0 .1" if r.random() < 0.5 else f"{family._v(r.uniform(0.4, 1.0, size=2))} .1"
    elif t == "hfield":
      nr, nc = int(r.integers(3, 6)), int(r.integers(3, 6))
      elev = r.uniform(0, 1, size=nr * nc)
      assets.append(f'<hfield name="hf{i}" nrow="{nr}" ncol="{nc}" size="{family._v(r.uniform(0.3, 0.5, size=2))} {r.uniform(0.1, 0.3):.3g} {r.uniform(0.02, 0.1):.3g}" elevation="{family._v(elev, 3)}"/>')
      size, extra = None, f' hfield="hf{i}"'
    elif t == "mesh":
      pts = r.uniform(-0.25, 0.25, size=(7, 3)) * np.array([1.0, 0.7, 0.5]) + r.uniform(-0.1, 0.1, size=3)
      pts[0] += np.array([0.35, 0.0, 0.0])  # lopsided on purpose: the bounding box of the mesh is not centred on the geom frame
      assets.append(f'<mesh name="m{i}" vertex="{family._v(pts.reshape(-1), 4)}"/>')
      size, extra = None, f' mesh="m{i}"'
    else:
      size = family._v({"sphere": s[:1], "capsule": s[:2], "cylinder": s[:2], "ellipsoid": s, "box": s}[t])
    vis = {"visible": ' rgba="0.5 0.5 0.5 1"', "geom_alpha0": ' rgba="0.5 0.5 0.5 0"', "mat_alpha0": ' material="mat_a0" rgba="0.5 0.5 0.5 1"',
           "mat_visible_geom_alpha0": ' material="mat_vis" rgba="0.5 0.5 0.5 0"'}[g["vis"]]
    sz = f' size="{size}"' if size else ""
    per_home[g["home"]].append(f'<geom name="g{i}" type="{t}"{sz}{extra} pos="{family._v(pos)}" quat="{family._v(quat)}" group="{g["group"]}"{vis}/>')
  flex = {"none": "", "cloth": '<flexcomp name="fx" type="grid" count="3 3 1" spacing=".25 .25 .1" pos="0.3 -0.2 0.4" dim="2" radius="0.02" mass="0.5"><contact selfcollide="none"/></flexcomp>',
          "rope": '<flexcomp name="fx" type="grid" count="4 1 1" spacing=".25 .25 .1" pos="-0.3 0.2 -0.4" dim="1" radius="0.02" mass="0.5"><contact selfcollide="none"/></flexcomp>'}[c.get("flex", "none")]
  inert = '<inertial pos="0 0 0" mass="1" diaginertia=".1 .1 .1"/>'
  xml = f"""<mujoco><option><flag contact="disable"/></option><size memory="20M"/><asset>{"".join(assets)}</asset><worldbody>
    {"".join(per_home["world"])}
    <body name="static_child" pos="0.1 -0.1 0.05" quat="{family._v(family._unit(r, 4))}">{"".join(per_home["static_child"])}</body>
    <body name="moving1" pos="0.2 0.1 0.1">{inert}<freejoint/>{"".join(per_home["moving1"])}</body>
    <body name="moving2" pos="-0.2 0.1 -0.1">{inert}<joint type="hinge" axis="0 0 1"/><joint type="slide" axis="1 0 0"/>{"".join(per_home["moving2"])}
      <body name="moving2_child" pos="0.1 0.2 0">{inert}<joint type="hinge" axis="0 1 0"/>{"".join(per_home["moving2_child"])}</body></body>
    {flex}
  </worldbody></mujoco>"""
  return xml


def geom_dist(mjm, mjd, g, pnt, vec):
  import mujoco

  n = np.zeros(3)
  t = int(mjm.geom_type[g])
  if t == 7:
    x = mujoco.mj_rayMesh(mjm, mjd, g, pnt, vec, n)
  elif t == 1:
    x = mujoco.mj_rayHfield(mjm, mjd, g, pnt, vec, n)
  else:
    x = mujoco.mju_rayGeom(mjd.geom_xpos[g], mjd.geom_xmat[g], mjm.geom_size[g], pnt, vec, t, n)
  return float(x), n


def perp(v, r=None):
  a = np.array([1.0, 0, 0]) if abs(v[0]) < 0.7 * np.linalg.norm(v) else np.array([0, 1.0, 0])
  u = np.cross(v, a)
  u /= np.linalg.norm(u)
  w = np.cross(v, u)
  w /= np.linalg.norm(w)
  return u, w


def make_rays(mjm, mjd, gids, r, n):
  """ray classes: outside-in, from inside a geom, grazing (tangent +-1e-3 at a surface point), parallel to a geom's local axes, scaled direction"""
  pnts, vecs, cls = [], [], []
  hits = []
  for _ in range(n):
    o = family._unit(r) * r.uniform(2.0, 3.5)
    tgt = r.uniform(-0.8, 0.8, size=3)
    v = tgt - o
    v /= np.linalg.norm(v)
    pnts.append(o), vecs.append(v), cls.append("outside")
    for g in gids:
      x, nn = geom_dist(mjm, mjd, g, o, v)
      if x >= 0 and np.linalg.norm(nn) > 0.5:
        hits.append((g, o + x * v, nn.copy()))
  for _ in range(n // 2):
    g = int(r.choice(gids))
    o = mjd.geom_xpos[g] + r.uniform(-0.03, 0.03, size=3)
    pnts.append(o), vecs.append(family._unit(r)), cls.append("inside")
  for _ in range(n // 2):
    if not hits:
      break
    g, p, nn = hits[int(r.integers(len(hits)))]
    u, w = perp(nn)
    a = r.uniform(0, 2 * np.pi)
    t = np.cos(a) * u + np.sin(a) * w
    off = float(r.choice([1e-3, -1e-3, 4e-3, -4e-3]))
    pnts.append(p + nn * off + t * r.uniform(0.5, 1.5)), vecs.append(-t), cls.append("grazing")
  for _ in range(n // 2):
    g = int(r.choice(gids))
    R = mjd.geom_xmat[g].reshape(3, 3)
    ax = int(r.integers(3))
    sz = mjm.geom_size[g]
    loc = np.array([float(r.choice([0.0, 0.5, -0.5, 0.98, 1.02])) * (sz[k] if sz[k] > 0 else 0.3) for k in range(3)])
    loc[ax] = -2.0 * float(r.choice([1, -1]))
    v = R[:, ax] * (1.0 if loc[ax] < 0 else -1.0)
    pnts.append(mjd.geom_xpos[g] + R @ loc), vecs.append(v), cls.append("parallel")
  for _ in range(n // 4):
    k = int(r.integers(len(pnts)))
    pnts.append(pnts[k].copy()), vecs.append(vecs[k] * r.uniform(0.3, 2.5)), cls.append("scaled")
  P = np.array(pnts, dtype=np.float32).astype(np.float64)
  V = np.array(vecs, dtype=np.float32).astype(np.float64)
  return P, V, cls


def geom_table(mjm, mjd, gids, pnt, vec):
  """per-geom MuJoCo distances and normals for the ray and for 24 nearby rays (origin and/or direction moved by 4e-5): independent of the query"""
  L = np.linalg.norm(vec)
  u, w = perp(vec)
  dirs = (u, -u, w, -w)
  variants = [(pnt, vec)] + [(pnt + 4e-5 * a, vec) for a in dirs] + [(pnt, vec + 4e-5 * L * a) for a in dirs]
  variants += [(pnt + 4e-5 * a, vec + 4e-5 * L * b) for a in dirs for b in dirs]
  D = np.full((len(variants), len(gids)), -1.0)
  N = np.zeros((len(variants), len(gids), 3))
  for k, (p, v) in enumerate(variants):
    for j, g in enumerate(gids):
      D[k, j], N[k, j] = geom_dist(mjm, mjd, g, p, v)
  return D, N


def oracle(table, gids, elig):
  """RayPick.PickDist over the TLC-given eligible set.  Returns (dist, set of acceptable geoms, normal or None, stable, tol).
  stable = False when a nearby ray (see geom_table) changes hit/miss of an eligible geom that matters; the distance tolerance grows with the
  sensitivity of the distance to such a move (grazing incidence)."""
  D, N = table
  d0 = np.where(np.array(elig), D[0], -1.0)
  hit = d0 >= 0
  best = float(d0[hit].min()) if hit.any() else -1.0
  tol = 2e-4 * max(1.0, best)
  stable = True
  for j in range(len(gids)):
    if not elig[j]:
      continue
    col = D[:, j]
    flips = (col >= 0).any() and (col < 0).any()
    near = col[col >= 0].min() if (col >= 0).any() else np.inf
    matters = best < 0 or near <= best + 10 * tol
    if matters and flips:
      stable = False
    if matters and not flips and (col >= 0).all():
      spread = float(np.abs(col - col[0]).max())
      if spread > 1e-2 * max(1.0, best):
        stable = False
      tol = max(tol, 0.25 * spread)
  accept = {gids[j] for j in range(len(gids)) if elig[j] and d0[j] >= 0 and d0[j] <= best + 4 * tol} if best >= 0 else {-1}
  normal = None
  if best >= 0 and len(accept) == 1:
    j = gids.index(next(iter(accept)))
    if np.abs(N[:, j] - N[0, j]).max() < 2e-2:
      normal = N[0, j]
  return best, accept, normal, stable, tol


def build(c, seed, nray):
  import mujoco
  import warp as wp

  import mujoco_warp as mjw

  r = family.rng_for(c, seed, "ray")
  xml = scene_xml(c, r)
  mjm = mujoco.MjModel.from_xml_string(xml)
  ng = len(c["scene"])
  gids = [mjm.geom(f"g{i}").id for i in range(ng)]
  for i, g in enumerate(c["scene"]):
    b = int(mjm.geom_bodyid[gids[i]])
    if b != HOMES.index(g["home"]):
      raise RuntimeError(f"body numbering: geom g{i} on body {b}, spec says {g['home']}")
  nworld = int(c["nworld"])
  m = mjw.put_model(mjm)
  d = mjw.make_data(mjm, nworld=nworld)
  qpos = np.tile(mjm.qpos0, (nworld, 1))
  for w in range(nworld):
    qpos[w, :3] += r.uniform(-0.3, 0.3, size=3)
    qpos[w, 3:7] = family._unit(r, 4)
    qpos[w, 7:10] = r.uniform(-0.6, 0.6, size=3)   # hinge, slide, hinge; flex vertices (if any) stay at rest
  wp.copy(d.qpos, wp.array(qpos.astype(np.float32), dtype=float))
  mjw.kinematics(m, d)
  rc = mjw.create_render_context(mjm, nworld=nworld, enabled_geom_groups=[0, 1, 2, 3, 4, 5], cam_res=(2, 2))
  mjw.refit_bvh(m, d, rc)
  mjds = []
  for w in range(nworld):
    dd = mujoco.MjData(mjm)
    dd.qpos[:] = d.qpos.numpy()[w]
    mujoco.mj_kinematics(mjm, dd)
    # positions the rays are cast against are MJWarp's own (float32): the comparison is about picking, not about kinematics
    dd.geom_xpos[:] = d.geom_xpos.numpy()[w]
    dd.geom_xmat[:] = d.geom_xmat.numpy()[w].reshape(mjm.ngeom, 9)
    mjds.append(dd)
  shared = bool(c["shared_rays"]) or nworld == 1
  rays_w = [make_rays(mjm, mjds[w], gids, r, nray) for w in range(1 if shared else nworld)]
  nr = min(len(x[0]) for x in rays_w)
  P = np.stack([x[0][:nr] for x in rays_w])
  V = np.stack([x[1][:nr] for x in rays_w])
  classes = [x[2][:nr] for x in rays_w]
  return mjm, m, d, rc, mjds, gids, shared, P, V, classes


def _chunk(args):
  import mujoco
  import warp as wp

  import mujoco_warp as mjw
  from mujoco_warp._src.types import vec6

  cfgs, seed, nray = args
  out = []
  for rec in cfgs:
    c = rec["c"]
    where = {"cfg": c}
    try:
      mjm, m, d, rc, mjds, gids, shared, P, V, classes = build(c, seed, nray)
    except Exception as e:
      out.append(("MACHINERY", f"scene construction failed: {type(e).__name__} {e}", where))
      continue
    nworld, nr = int(c["nworld"]), P.shape[1]
    pnt = wp.array(P.astype(np.float32), dtype=wp.vec3)
    vec = wp.array(V.astype(np.float32), dtype=wp.vec3)
    stats = {"rays": 0, "unstable": 0, "hits": 0, "degenerate": 0}
    bads, machinery = {}, False
    tables = {}
    for qi in range(NQ):
      q = c["queries"][qi]
      elig = [bool(x) for x in c["eligible"][qi]]
      mask = list(q["mask"]) if len(q["mask"]) else None
      gg = vec6(*[float(x) for x in mask]) if mask else vec6(-1, -1, -1, -1, -1, -1)
      bex = wp.array(np.full(nr, int(q["bodyexclude"]), dtype=np.int32), dtype=int)
      res = {}
      for path, ctxr in (("brute", None), ("bvh", rc)):
        dist = wp.zeros((nworld, nr), dtype=float)
        gid = wp.zeros((nworld, nr), dtype=int)
        nrm = wp.zeros((nworld, nr), dtype=wp.vec3)
        mjw.rays(m, d, pnt, vec, gg, bool(q["flg_static"]), bex, dist, gid, nrm, ctxr)
        res[path] = (dist.numpy(), gid.numpy(), nrm.numpy())
      # the single-ray entry point, first ray
      p1 = wp.array(P[:, :1].astype(np.float32), dtype=wp.vec3)
      v1 = wp.array(V[:, :1].astype(np.float32), dtype=wp.vec3)
      sd, sg, sn = mjw.ray(m, d, p1, v1, gg if mask else None, bool(q["flg_static"]), int(q["bodyexclude"]))
      if not (np.allclose(sd.numpy()[:, 0], res["brute"][0][:, 0], atol=1e-6) and (sg.numpy()[:, 0] == res["brute"][1][:, 0]).all()):
        bads.setdefault("ray_vs_rays", ({"what": "ray() differs from rays() for the same ray"}, f"query {qi}: {sd.numpy()[:, 0]} vs {res['brute'][0][:, 0]}"))
      for w in range(nworld):
        dd = mjds[w]
        wi = 0 if shared else w
        for k in range(nr):
          p, v = P[wi, k], V[wi, k]
          if (w, k) not in tables:
            tables[(w, k)] = geom_table(mjm, dd, gids, p, v)
          best, accept, normal, stable, tol = oracle(tables[(w, k)], gids, elig)
          # the spec's eligibility must be MuJoCo's
          gout = np.zeros(1, dtype=np.int32)
          ref = mujoco.mj_ray(mjm, dd, p, v, np.array(mask, dtype=np.uint8) if mask else None, bool(q["flg_static"]), int(q["bodyexclude"]), gout)
          if (ref < 0) != (best < 0) or (best >= 0 and abs(ref - best) > 1e-9 * max(1, best)):
            out.append(("MACHINERY", f"RayPick.tla and mj_ray disagree: spec {best} {accept} mj_ray {ref} {gout} query {q} ray {p} {v}", where))
            machinery = True
            break
          stats["rays"] += 1
          if not stable:
            stats["unstable"] += 1
            continue
          stats["hits"] += best >= 0
          for path in ("brute", "bvh"):
            gd, gi, gn = res[path][0][w, k], int(res[path][1][w, k]), res[path][2][w, k]
            kind = classes[wi][k]
            tname = mjm.geom_type[gi] if gi >= 0 else -1
            key = None
            if best < 0:
              if gd != -1.0 or gi != -1:
                key, msg = "reports a hit where no eligible geom is hit", f"got dist {gd} geom {gi}"
            elif gd < 0:
              key, msg = "misses the nearest eligible hit", f"expected dist {best:.6g} geom {sorted(accept)}"
            elif abs(gd - best) > tol:
              key, msg = "distance is not the nearest eligible hit's", f"got {gd:.6g} (geom {gi}) expected {best:.6g} (geom {sorted(accept)})"
            elif gi not in accept:
              key, msg = "geom id is not the nearest eligible geom", f"got geom {gi} expected {sorted(accept)} at dist {best:.6g}"
            elif normal is not None and np.abs(gn - normal).max() > 5e-3:
              key, msg = "surface normal differs", f"got {gn.tolist()} expected {normal.tolist()} geom {gi}"
            if key:
              # a genuine error persists when the ray is moved by a few float32 ulps; an isolated flip is the rounding of a ray lying exactly in a face plane
              u_, w_ = perp(v)
              sh = [u_, -u_, w_, -w_, 0.7 * (u_ + w_), 0.7 * (u_ - w_), 0.7 * (w_ - u_), -0.7 * (u_ + w_)]  # a degenerate plane contains at most two of these
              PP = np.stack([p + 1e-6 * a for a in sh]).astype(np.float32)[None].repeat(nworld, axis=0)
              VV = np.tile(v.astype(np.float32), (nworld, 8, 1))
              cd, cg, cn = (wp.zeros((nworld, 8), dtype=float), wp.zeros((nworld, 8), dtype=int), wp.zeros((nworld, 8), dtype=wp.vec3))
              mjw.rays(m, d, wp.array(PP, dtype=wp.vec3), wp.array(VV, dtype=wp.vec3), gg, bool(q["flg_static"]), wp.array(np.full(8, int(q["bodyexclude"]), dtype=np.int32), dtype=int),
                       cd, cg, cn, rc if path == "bvh" else None)
              wrong = 0
              for j in range(8):
                xd, xg = float(cd.numpy()[w, j]), int(cg.numpy()[w, j])
                # against the oracle's answer for THAT ray (the unshifted answer may itself be the isolated one: a ray lying in the plane between a
                # height field's base box and its terrain); right for the moved ray or for the original one counts as right
                bj, aj, _nj, _sj, tj = oracle(geom_table(mjm, dd, gids, PP[0, j].astype(np.float64), v), gids, elig)
                okj = any((xd == -1.0 and xg == -1) if b_ < 0 else (xd >= 0 and abs(xd - b_) <= 2 * max(t_, tol) and xg in a_) for b_, a_, t_ in ((best, accept, tol), (bj, aj, tj)))
                wrong += not okj
              if wrong < 4:
                stats["degenerate"] += 1
                key = None
            if key:
              exp_t = sorted({int(mjm.geom_type[g]) for g in accept if g >= 0})
              kk = {"what": key, "path": path, "geomtype": exp_t[0] if exp_t else int(tname)}
              if exp_t == [0] and path == "bvh":
                # an infinite plane (size 0) sits in the BVH as a 2000 m square: hits farther out than that are beyond its box
                for g0 in sorted(accept):
                  loc = dd.geom_xmat[g0].reshape(3, 3).T @ (p + best * v - dd.geom_xpos[g0])
                  if (mjm.geom_size[g0][0] <= 0 or mjm.geom_size[g0][1] <= 0) and max(abs(loc[0]), abs(loc[1])) > 1000.0:
                    kk["part"] = "infinite_plane_beyond_1km"
              if 1 in exp_t:
                # which part of the height field the expected hit lies on: MuJoCo's hfield is the terrain surface plus a base box and side walls
                part = "top"
                for g0 in [g for g in sorted(accept) if int(mjm.geom_type[g]) == 1]:
                  loc = dd.geom_xmat[g0].reshape(3, 3).T @ (p + best * v - dd.geom_xpos[g0])
                  hs = mjm.hfield_size[mjm.geom_dataid[g0]]
                  if loc[2] <= 1e-4 or abs(loc[0]) >= hs[0] - 1e-4 or abs(loc[1]) >= hs[1] - 1e-4:
                    part = "base_or_side"
                if exp_t[0] == 1 or part == "base_or_side":  # (several geoms can tie for the nearest hit: the height field's base decides the class)
                  kk["geomtype"] = 1
                  kk["part"] = part
              bads.setdefault(core.jhash(kk), (kk, f"world {w} query {qi} {q} ray[{kind}] pnt {p.tolist()} vec {v.tolist()}: {msg}"))
        if machinery:
          break
      if machinery:
        break
    if machinery:
      continue
    for kk, msg in bads.values():
      out.append((kk, msg, where))
    out.append(("ok", stats, None))
  return out


def run(ctx: core.Ctx):
  ctx.rule = ("RayPick.tla: (mc) for every small scene, query, per-geom distance and bounding-box entry distance, and EVERY order in which the BVH "
              "offers its leaves, the BVH loop returns the brute-force answer provided every box bound is a lower bound of its geom's distance "
              "(BvhSame), and the pick is the nearest eligible hit (PickSound); without that proviso it does not (MC_RayPick_badbound must fail). "
              "(sim) TLC emits scenes (3..8 geoms of all 8 types on world / static child / free / jointed / grandchild bodies, groups 0..5, four "
              "visibility kinds), 6 queries each (group mask, flg_static, bodyexclude) with the spec's eligible set; rays of five classes "
              "(outside-in, from inside, grazing +-1e-3, parallel to local axes, non-unit direction) are cast in 1..3 worlds with distinct poses, "
              "through rays() brute force, rays() with the BVH and ray(); expected = nearest of MuJoCo's per-geom intersection distances over the "
              "SPEC's eligible set (cross-checked against mj_ray); rays whose answer flips under a 4e-5 perturbation are not compared")
  ctx.tlc("RayPick", "MC_RayPick.cfg", timeout=1800)
  rb = ctx.tlc("RayPick", "MC_RayPick_badbound.cfg", timeout=600, allow_violation=True)
  if rb.ok:
    raise RuntimeError("RayPick.tla: the BVH loop is insensitive to inadmissible bounds - the model does not constrain the real boxes")
  n = 56 if ctx.quick else 6000
  nray = 24 if ctx.quick else 64
  r = ctx.tlc("Gen_RayPick", "Gen_RayPick.cfg", gen=gen(n), workers=1, simulate="num=1", depth=n + 1, seed=ctx.seed % (1 << 30), timeout=900)
  cfgs, seen = [], set()
  for c in r.emit("cfg"):
    h = core.jhash(c["c"])
    if h not in seen:
      seen.add(h)
      cfgs.append(c)
      ctx.case({"cfg": c["c"]}, nontrivial=True, key=c["c"])
  ctx.traces_validated = len(cfgs)
  CH = max(1, len(cfgs) // 28 + 1)
  tot = {"rays": 0, "unstable": 0, "hits": 0, "degenerate": 0}
  done, crashes = core.pmap_chunks(_chunk, [(cfgs[i : i + CH], ctx.seed, nray) for i in range(0, len(cfgs), CH)], lambda ch: [([x], ch[1], ch[2]) for x in ch[0]])
  for single, cr in crashes:
    ctx.violation({"what": "the process dies", "signal": int(cr.returncode), "where": core.crash_site(cr)}, cr.stderr_tail[-600:], {"cfg": single[0][0]["c"]})
  for res in done:
    for key, msg, scen in res:
      if key == "MACHINERY":
        raise RuntimeError(msg)
      if key == "ok":
        for k in tot:
          tot[k] += int(msg[k])
        continue
      ctx.violation(key, msg, scen)
  ctx.assumptions.append(f"rays compared {tot['rays'] - tot['unstable']} (of which hits {tot['hits']}), skipped as ill-conditioned {tot['unstable']}, isolated float32 flips that vanish under a 1e-6 shift {tot['degenerate']}")
  if tot["rays"] and tot["hits"] < 0.1 * tot["rays"]:
    raise RuntimeError(f"vacuous: only {tot['hits']} of {tot['rays']} rays hit anything")
  ctx.assumptions += ["the BVH is built with all six geom groups enabled (a RenderContext only holds the groups it was created for)",
                      "geom poses are MJWarp's own float32 kinematics; tolerance 2e-4 relative on distance, 5e-3 on normals",
                      "flex and SDF geoms are not cast against"]


def replay(ctx, scen):
  run(ctx)


META = {
  "text": "RayPick.tla specifies eligibility (excluded body, invisibility via geom or material alpha, static flag, clamped group mask), the "
          "nearest-eligible pick, and the BVH loop under every leaf order; TLC proves the BVH loop equal to brute force exactly when box bounds "
          "are lower bounds, and emits scenes and queries with the eligible set; the real rays()/ray() (brute force and BVH) are compared "
          "with the spec's pick over MuJoCo per-geom intersection distances, which also tests the real bounding boxes against the obligation.",
  "note": "sampled scenes and rays (five ray classes); ill-conditioned rays skipped; BVH built for all groups",
  "technique": "TLA+ spec of eligibility/pick/BVH loop (RayPick.tla) model-checked by TLC + spec->code replay of TLC-emitted scenes and queries with per-geom MuJoCo distances as oracle",
}
