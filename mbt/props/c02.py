"""C02  Smooth dynamics agree with MuJoCo C  (ModelFamily.tla configurations; fwd_position + fwd_velocity + fwd_acceleration)."""

from __future__ import annotations

import numpy as np

from .. import core, family, parity

LEVEL = "exploration"
JOINTS = ("weld", "free", "ball", "hinge", "slide", "hinge2", "slidehinge", "ballslide")
GEOMS = ("sphere", "capsule", "box", "ellipsoid", "cylinder")
FEATS = ("spring", "damper", "armature", "gravcomp", "fluid", "fluid_ellipsoid", "tendon_fixed", "tendon_spatial", "tendon_spring", "tendon_armature",
         "wrap", "applied", "site")

FIELDS = ["qfrc_bias", "qfrc_spring", "qfrc_damper", "qfrc_gravcomp", "qfrc_fluid", "qfrc_passive", "cvel", "cdof_dot", "qfrc_smooth", "qacc_smooth",
          "ten_velocity", "subtree_linvel", "subtree_angmom"]


def full_m(mjw, m, d):
  """Dense inertia matrix of every world through the public mul_m (M e_j)."""
  import warp as wp

  nv = m.nv
  out = np.zeros((d.nworld, nv, nv))
  res = wp.zeros((d.nworld, nv), dtype=float)
  for j in range(nv):
    e = np.zeros((d.nworld, nv), dtype=np.float32)
    e[:, j] = 1.0
    mjw.mul_m(m, d, res, wp.array(e, dtype=float))
    out[:, :, j] = res.numpy()
  return out


def compare(rec, b, mjm, mjd, m, d, cmp, opts):
  import mujoco

  import mujoco_warp as mjw

  mujoco.mj_forward(mjm, mjd)
  mujoco.mj_subtreeVel(mjm, mjd)
  mjw.fwd_position(m, d)
  mjw.fwd_velocity(m, d)
  mjw.fwd_actuation(m, d)
  mjw.fwd_acceleration(m, d)
  mjw.subtree_vel(m, d)
  M = np.zeros((mjm.nv, mjm.nv))
  if mjm.nv:
    mujoco.mju_sym2dense(M, mjd.M, mjm.M_rownnz, mjm.M_rowadr, mjm.M_colind)
    Mw = full_m(mjw, m, d)
  # qacc_smooth = M^-1 qfrc_smooth: a float32 solve loses about eps * cond(M) (cond reaches 1e5 for light distal links on heavy roots); everything else
  # is a sum of products and keeps the flat tolerance
  kappa = float(np.linalg.cond(M)) if mjm.nv else 1.0
  tol_solve = max(opts.get("tol", 3e-4), 1.5e-8 * kappa)
  for w in range(d.nworld):
    if mjm.nv:
      cmp.close("M", Mw[w], M)
    cmp.fields(d, mjd, [f for f in FIELDS if f != "qacc_smooth"], world=w)
    cmp.close("qacc_smooth", d.qacc_smooth.numpy()[w], mjd.qacc_smooth, tol_solve)


def run(ctx: core.Ctx):
  ctx.rule = ("ModelFamily.tla configurations (forests <= 6 bodies, all joint-list codes, 5 geom types) x feature subsets {joint springs, dampers, "
              "armature, gravity compensation, fluid (inertia-box and ellipsoid models) with wind, fixed/spatial tendons with stiffness/damping/armature, "
              "applied generalized and Cartesian forces}; random qpos (incl. unnormalised quaternions) and qvel; fwd_position/velocity/acceleration "
              "compared with mj_forward: full M (through mul_m on unit vectors), qfrc_bias, each passive component, cvel, cdof_dot, qacc_smooth, subtree "
              "velocities; both worlds of a 2-world batch")
  n = 200 if ctx.quick else 3000
  recs = family.sample(ctx, n, maxbody=6, joints=JOINTS, geoms=GEOMS, feats=FEATS, maxfeat=5, qclasses=("rand", "unnorm"), vclasses=("rand", "zero"))
  ctx.traces_validated = len(recs)
  parity.run(ctx, __name__, "compare", recs, nworld=2, opts={"tol": 3e-4}, what="smooth-dynamics quantity differs from MuJoCo C")
  ctx.assumptions += ["MuJoCo C is the oracle; tolerance 3e-4 relative to max(1, field magnitude)"]


def replay(ctx, scen):
  rec = {"c": scen["scenario"]["cfg"]}
  for res in parity.chunk((__name__, "compare", [rec], scen.get("seed", ctx.seed), 2, {"tol": 1e-4})):
    ctx.case(rec)
    for name in sorted({x[0] for x in res["bad"]}):  # same keys as parity.run: one per field, class after the '@'
      fld, _, cls = name.partition("@")
      ctx.violation(dict({"what": "smooth-dynamics quantity differs from MuJoCo C", "field": fld}, **({"cls": cls} if cls else {})), str([x for x in res["bad"] if x[0] == name][:5]), scen["scenario"])


META = {
  "text": "TLC (-simulate over ModelFamily.tla, whose table invariants are checked on every emitted configuration) enumerates forests x joint lists x "
          "passive-force features; each configuration is concretised and the inertia matrix, bias force, every passive force component, body "
          "velocities and the unconstrained acceleration are compared with mj_forward in every world.",
  "note": "float comparison against MuJoCo C at 3e-4 relative; the numeric agreement is differential testing over a TLC-generated configuration space",
  "technique": "TLA+ model family (ModelFamily.tla) enumerated by TLC; spec->code replay with MuJoCo C as numeric oracle",
}
