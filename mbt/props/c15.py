"""C15  State get/set is MuJoCo-compatible and lossless.

TLC: StateSig.tla  (exhaustive small instance: invariants + action properties;
     full-size instance: layout of all 2^14 signatures; simulated behaviours for replay).
Bind: spec->code replay of every signature layout and of simulated get/set/touch behaviours into
      mujoco_warp.get_state / set_state, three-way with mujoco.mj_getState / mj_stateSize.
"""

from __future__ import annotations

import numpy as np

from .. import core

LEVEL = "model_checking"

XML = """
<mujoco>
  <option timestep="0.01"/>
  <size nuserdata="2"/>
  <worldbody>
    <body name="a" pos="0 0 1">
      <joint name="s" type="slide" axis="1 0 0"/>
      <joint name="h" type="hinge" axis="0 1 0"/>
      <geom size="0.1" mass="1"/>
      <body name="b" pos="0 0 0.5">
        <joint name="ball" type="ball"/>
        <geom size="0.1" mass="1"/>
      </body>
    </body>
    <body name="mc" mocap="true" pos="1 1 1"><geom size="0.05" contype="0" conaffinity="0"/></body>
  </worldbody>
  <equality><connect body1="a" body2="mc" anchor="0 0 0"/></equality>
  <actuator>
    <motor joint="s" delay="0.02" nsample="2"/>
    <general joint="h" dyntype="integrator"/>
  </actuator>
</mujoco>
"""

# component index -> (Data field, cells per world)
COMPS = ["time", "qpos", "qvel", "act", "history", "qacc_warmstart", "ctrl", "qfrc_applied", "xfrc_applied", "eq_active",
         "mocap_pos", "mocap_quat", "userdata", None]


def sizes(mjm):
  return [1, mjm.nq, mjm.nv, mjm.na, mjm.nhistory, mjm.nv, mjm.nu, mjm.nv, 6 * mjm.nbody, mjm.neq, 3 * mjm.nmocap,
          4 * mjm.nmocap, mjm.nuserdata, 0]


def _read(d, nworld):
  """data[w][i] -> flat float list per component."""
  out = []
  for w in range(nworld):
    row = []
    for name in COMPS:
      if name is None:
        row.append([])
        continue
      a = getattr(d, name).numpy()[w]
      row.append([float(x) for x in np.asarray(a, dtype=float).reshape(-1)])
    out.append(row)
  return out


def _write(d, nworld, data):
  from ..impl import setarr

  for i, name in enumerate(COMPS):
    if name is None:
      continue
    arr = getattr(d, name)
    cur = arr.numpy()
    new = np.array([np.asarray(data[w][i], dtype=float) for w in range(nworld)]).reshape(cur.shape)
    setarr(arr, new)


def _wgen(sz, nworld, sigspace, vals, maxlevel, inv_lines, pick="PickAll"):
  buflen = sum(sz)
  mod = f"""---- MODULE Gen_StateSig ----
EXTENDS StateSig
GSize == <<{", ".join(map(str, sz))}>>
GSigSpace == {{{", ".join(map(str, sigspace))}}}
GVals == {{{", ".join(map(str, vals))}}}
====
"""
  cfg = f"""CONSTANTS
  NComp = 14
  Size <- GSize
  NWorld = {nworld}
  Vals <- GVals
  SigSpace <- GSigSpace
  BufLen = {buflen}
  MaxLevel = {maxlevel}
  Pick <- {pick}
  Record = {"TRUE" if pick == "PickRand" else "FALSE"}
SPECIFICATION Spec
""" + "\n".join(inv_lines) + "\n"
  return {"Gen_StateSig.tla": mod, "Gen_StateSig.cfg": cfg}


def _mj_set(mjm, mjd, row):
  """Write one world's component vectors into an MjData."""
  mjd.time = row[0][0]
  mjd.qpos[:] = row[1]
  mjd.qvel[:] = row[2]
  mjd.act[:] = row[3]
  mjd.history[:] = row[4]
  mjd.qacc_warmstart[:] = row[5]
  mjd.ctrl[:] = row[6]
  mjd.qfrc_applied[:] = row[7]
  mjd.xfrc_applied[:] = np.array(row[8]).reshape(mjm.nbody, 6)
  mjd.eq_active[:] = np.array(row[9]) != 0
  mjd.mocap_pos[:] = np.array(row[10]).reshape(-1, 3)
  mjd.mocap_quat[:] = np.array(row[11]).reshape(-1, 4)
  mjd.userdata[:] = row[12]


def run(ctx: core.Ctx):
  import mujoco
  import warp as wp

  import mujoco_warp as mjw

  from ..impl import load, setarr

  ctx.rule = ("layout: every signature 0..2^14-1 on a model with all 13 components present, cells hold unique ids; "
              "non-trivial = signature with >=1 non-empty component; behaviours: TLC -simulate of Get/Set/Touch/Fill with "
              "masks over 3 worlds, distinct = distinct (op sequence) hash")
  # 1. exhaustive small instance
  ctx.tlc("MC_StateSig", "MC_StateSig.cfg", timeout=600)

  nworld = 3
  mjm, mjd, m, d = load(XML, nworld=nworld)
  sz = sizes(mjm)
  buflen = sum(sz)
  assert mjm.nhistory > 0 and mjm.na > 0 and mjm.neq > 0 and mjm.nmocap > 0 and mjm.nuserdata > 0

  # 2. layout of every signature on the real sizes
  allsigs = list(range(1 << 14))
  r = ctx.tlc("Gen_StateSig", "Gen_StateSig.cfg", gen=_wgen(sz, 1, allsigs, [0], 1, ["INVARIANT LayoutInv", "INVARIANT EmitLayout"]),
              workers=1, timeout=900)
  layouts = r.emit("layout")
  assert len(layouts) == 1 << 14, len(layouts)

  # unique cell ids: value = 1000*w + 100*? ... simply a running counter (exact in float32 below 2^24); eq_active cells 0/1
  uniq = []
  cnt = 1
  for w in range(nworld):
    row = []
    for i, s in enumerate(sz):
      if COMPS[i] == "eq_active":
        row.append([float((w + 1) % 2)] * s)
      else:
        row.append([float(cnt + k) for k in range(s)])
        cnt += s
    uniq.append(row)
  _write(d, nworld, uniq)
  got = _read(d, nworld)
  assert got == uniq, "harness write/read mismatch"
  _mj_set(mjm, mjd, uniq[1])

  buf = wp.zeros((nworld, buflen), dtype=float)
  for lay in layouts:
    sig, size = lay["sig"], lay["size"]
    ctx.case({"sig": sig, "size": size, "layout": lay["lay"]}, nontrivial=size > 0, key=("layout", sig))
    buf.fill_(-7.0)
    try:
      mjw.get_state(m, d, buf, sig)
    except Exception as e:
      ctx.violation({"api": "get_state", "what": "valid signature rejected", "sig": sig}, repr(e), lay)
      continue
    b = buf.numpy()
    ref_size = mujoco.mj_stateSize(mjm, sig)
    if ref_size != size:
      raise RuntimeError(f"spec/MuJoCo disagreement on size of sig {sig}: {size} vs {ref_size}")
    ref = np.zeros(ref_size)
    mujoco.mj_getState(mjm, mjd, ref, sig)
    for w in range(nworld):
      exp = np.full(buflen, -7.0)
      for e in lay["lay"]:
        exp[e["adr"] : e["adr"] + e["size"]] = uniq[w][e["comp"]]
      if not np.array_equal(b[w], exp):
        k = int(np.nonzero(b[w] != exp)[0][0])
        ctx.violation({"api": "get_state", "what": "layout differs from concatenation in bit order"},
                      f"sig={sig} world={w} first diff at cell {k}: got {b[w][k]} expected {exp[k]}", lay)
        break
    if not np.array_equal(b[1][:size], ref.astype(np.float32)):
      ctx.violation({"api": "get_state", "what": "differs from mj_getState"}, f"sig={sig}", lay)

  # 3. behaviours (simulate) replayed into the code
  rng = np.random.default_rng(ctx.seed)
  named = [int(x) for x in (mjw.State.PHYSICS, mjw.State.FULLPHYSICS, mjw.State.USER, mjw.State.INTEGRATION)]
  sigspace = sorted(set([-1, -(1 << 14), 1 << 14, (1 << 14) + 5, 1 << 20] + named + [1 << i for i in range(14)]
                        + [int(x) for x in rng.integers(0, 1 << 14, size=24)]))
  nbeh = 40 if ctx.quick else 400
  depth = 10
  r = ctx.tlc("Gen_StateSig", "Gen_StateSig.cfg", gen=_wgen(sz, nworld, sigspace, [0, 1], depth + 1, ["INVARIANT EmitBeh", "PROPERTY MaskedUntouched", "PROPERTY Rejected"], pick="PickRand"),
              workers=1, simulate=f"num={nbeh}", depth=depth, seed=ctx.seed % (1 << 30), timeout=900)
  init = {"data": {str(w): {str(i): [0] * sz[i] for i in range(14)} for w in range(nworld)},
          "buf": {str(w): [0] * buflen for w in range(nworld)}}
  behs = [[init] + b for b in r.emit("beh")]

  def spec_data(s):
    return [[[float(x) for x in s["data"][str(w)][str(i)]] for i in range(14)] for w in range(nworld)]

  def spec_buf(s):
    return np.array([s["buf"][str(w)] for w in range(nworld)], dtype=np.float32)

  for beh in behs:
    ops = [s["op"] for s in beh[1:]]
    ctx.case({"behaviour": ops[:6]}, nontrivial=any(o["kind"] in ("get", "set") and o.get("ok") for o in ops), key=("beh", ops))
    ctx.traces_validated += 1
    _write(d, nworld, spec_data(beh[0]))
    setarr(buf, spec_buf(beh[0]))
    for k, s in enumerate(beh[1:]):
      op = s["op"]
      kind = op["kind"]
      where = {"behaviour": ops[: k + 1]}
      if kind in ("get", "set"):
        act = None if op["mask"]["none"] else wp.array(np.array(op["mask"]["m"], dtype=bool), dtype=bool)
        fn = mjw.get_state if kind == "get" else mjw.set_state
        raised = None
        try:
          fn(m, d, buf, op["sig"], act)
        except ValueError as e:
          raised = e
        # reference agrees with the spec on validity?
        try:
          mujoco.mj_stateSize(mjm, op["sig"])
          ref_ok = True
        except Exception:
          ref_ok = False
        if ref_ok != op["ok"] and abs(op["sig"]) < (1 << 31):
          raise RuntimeError(f"spec/MuJoCo disagreement on validity of sig {op['sig']}")
        if op["ok"] and raised is not None:
          ctx.violation({"api": kind + "_state", "what": "valid signature rejected"}, repr(raised), where)
        if (not op["ok"]) and raised is None:
          ctx.violation({"api": kind + "_state", "what": "invalid signature accepted", "sign": "negative" if op["sig"] < 0 else "too large"},
                        f"sig={op['sig']} accepted", where)
          # the code may have written something; resynchronise with the spec state to keep checking the rest
          _write(d, nworld, spec_data(s))
          setarr(buf, spec_buf(s))
          continue
      elif kind == "touch":
        cur = _read(d, nworld)
        w, v = op["w"], float(op["v"])
        for i in range(14):
          for j in range(1, sz[i] + 1):
            if (i + j) % 2 == 0:
              cur[w][i][j - 1] = v
        _write(d, nworld, cur)
      elif kind == "fill":
        b = buf.numpy()
        b[op["w"], 0::2] = float(op["v"])
        setarr(buf, b)
      gd, gb = _read(d, nworld), buf.numpy()
      if gd != spec_data(s):
        bad = [(w, COMPS[i]) for w in range(nworld) for i in range(14) if gd[w][i] != spec_data(s)[w][i]]
        ctx.violation({"api": kind + "_state" if kind in ("get", "set") else kind, "what": "Data differs from spec after action"},
                      f"step {k} op={op} differing (world, component): {bad[:5]}", where)
        break
      if not np.array_equal(gb, spec_buf(s)):
        ctx.violation({"api": kind + "_state" if kind in ("get", "set") else kind, "what": "state buffer differs from spec after action"},
                      f"step {k} op={op}", where)
        break
  ctx.assumptions += ["cells are float32-exact small integers; eq_active cells are 0/1",
                      "spec validity/size cross-checked against mujoco.mj_stateSize (disagreement = machinery failure)"]


def replay(ctx, scen):
  run(ctx)

META = {
  "text": "TLC checks StateSig.tla exhaustively on a small instance (layout = concatenation in bit order, set/get round trips, masked worlds "
          "untouched, invalid signatures rejected) and enumerates the layout of all 2^14 signatures for the sizes of a real model; every "
          "layout and a few hundred TLC-simulated get/set/touch/fill behaviours over 3 worlds are replayed into get_state/set_state with "
          "Data and buffer compared to the spec state after every action, three-way with mj_getState/mj_stateSize.",
  "note": "one concrete model (all 13 components non-empty); cells hold float32-exact integers; MuJoCo C trusted as reference for size/validity",
  "technique": "TLA+ state machine (StateSig.tla) model-checked with TLC + spec->code behaviour replay",
}
