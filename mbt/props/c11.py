"""C11  Results are independent of parallel thread order  (interleaving models: RowAlloc / ContactBuf / Sleep / Island; schedule replay of whole steps)."""

from __future__ import annotations

import json
import os
import subprocess
import sys

import numpy as np

from .. import core
from ..scenes import rows_scene
from . import c10, c28, c38

LEVEL = "model_checking"

RUNNER = r"""
import sys, os, json
sys.path.insert(0, sys.argv[4])
from mbt import sched
sched.install(sys.argv[3])
import numpy as np, mujoco, warp as wp
wp.config.log_level = wp.LOG_WARNING
import mujoco_warp as mjw
xml = sys.argv[1]; nsteps = int(sys.argv[2])
mjm = mujoco.MjModel.from_xml_string(xml)
m = mjw.put_model(mjm)
nworld = 2
d = mjw.make_data(mjm, nworld=nworld)
rng = np.random.default_rng(5)
qv = rng.uniform(-0.5, 0.5, size=(nworld, mjm.nv)).astype(np.float32)
wp.copy(d.qvel, wp.array(qv, dtype=float))
if mjm.nu:
  wp.copy(d.ctrl, wp.array(rng.uniform(-1, 1, size=(nworld, mjm.nu)).astype(np.float32), dtype=float))
out = []
scratch = mujoco.MjData(mjm)
for s in range(nsteps):
  mjw.step(m, d)
  rec = {"qpos": d.qpos.numpy().tolist(), "qvel": d.qvel.numpy().tolist(), "qacc": d.qacc.numpy().tolist(), "sensordata": d.sensordata.numpy().tolist(),
         "nefc": d.nefc.numpy().tolist(), "ne": d.ne.numpy().tolist(), "nf": d.nf.numpy().tolist(), "nl": d.nl.numpy().tolist(), "nacon": int(d.nacon.numpy()[0]),
         "overflow": (d.overflow.numpy() & 63).tolist(), "asleep_sign": [[-1 if v < 0 else int(v) for v in row] for row in d.tree_asleep.numpy()],
         "asleep": d.tree_asleep.numpy().tolist(), "island": d.tree_island.numpy().tolist() if mjm.ntree else []}
  worlds = []
  for w in range(nworld):
    mjw.get_data_into(scratch, mjm, d, world_id=w)
    cons = sorted((int(scratch.contact.geom[i][0]), int(scratch.contact.geom[i][1]), round(float(scratch.contact.dist[i]), 5)) for i in range(scratch.ncon))
    rows = sorted((int(scratch.efc_type[i]), round(float(scratch.efc_pos[i]), 4), round(float(scratch.efc_D[i]), 1)) for i in range(scratch.nefc))
    worlds.append({"contacts": cons, "rows": rows, "force_sum": float(np.sum(np.abs(scratch.efc_force[: scratch.nefc])))})
  rec["worlds"] = worlds
  out.append(rec)
print("RESULT" + json.dumps(out))
"""


def catalogue():
  cat = {}
  cat["rows_dense"] = rows_scene([3, 1, 4], connects=1, hinges=2, hinge_limit=True, hinge_friction=True, jointeqs=1)
  cat["rows_sparse_elliptic"] = rows_scene([4, 3, 6], welds=1, hinges=2, hinge_limit=True, cone="elliptic", jacobian="sparse", chain=3)
  cat["rich"] = c10.SCENE
  cat["sleep_islands"] = c38.scene([6, 3, 6, 1], True)
  # trees that fork (a body with several children, grandchildren below): the branch / level traversals of kinematics, velocities and accelerations
  limb = lambda n, p, ax: (f'<body name="{n}" pos="{p}"><joint type="hinge" axis="{ax}" damping="0.1"/><geom type="capsule" fromto="0 0 0 0.15 0 -0.1" size="0.03"/>'
                           f'<body pos="0.15 0 -0.1"><joint type="ball" damping="0.05"/><geom type="capsule" fromto="0 0 0 0.12 0.05 -0.1" size="0.025"/>'
                           f'<body pos="0.12 0.05 -0.1"><joint type="slide" axis="0 0 1" range="-0.05 0.05" limited="true"/><geom type="sphere" size="0.04"/></body></body></body>')
  cat["forks"] = ('<mujoco><option timestep="0.004"/><worldbody><geom type="plane" size="5 5 .1"/>'
                  '<body name="torso" pos="0 0 0.6"><freejoint/><geom type="box" size="0.12 0.08 0.05"/>'
                  + limb("l1", "0.12 0.08 0", "0 1 0") + limb("l2", "0.12 -0.08 0", "1 0 0") + limb("l3", "-0.12 0.08 0", "0 1 0") + limb("l4", "-0.12 -0.08 0", "0 0 1")
                  + '</body><body name="base2" pos="1 0 0.5"><joint name="base2" type="hinge" axis="0 0 1"/><geom type="cylinder" size="0.05 0.1"/>'
                  + limb("m1", "0.05 0 0.1", "0 1 0") + limb("m2", "-0.05 0 0.1", "1 0 0") + '</body></worldbody>'
                  '<actuator><motor joint="base2" gear="2"/></actuator><sensor><framelinacc objtype="body" objname="l1"/><subtreecom body="torso"/><frameangvel objtype="body" objname="m2"/></sensor></mujoco>')
  return cat


def run_one(xml, nsteps, sched_code, cachedir):
  e = dict(os.environ)
  e["PYTHONPATH"] = core.REPO + os.pathsep + core.VERIF + os.pathsep + e.get("PYTHONPATH", "")
  e["MJW_VERIF_SCHED"] = sched_code
  r = subprocess.run([sys.executable, "-c", RUNNER, xml, str(nsteps), cachedir, core.VERIF], capture_output=True, text=True, timeout=3000, env=e, cwd="/")
  line = [l for l in r.stdout.splitlines() if l.startswith("RESULT")]
  if r.returncode != 0 or not line:
    return {"crash": r.returncode, "stderr": r.stderr[-800:]}
  return json.loads(line[0][6:])


def compare(ref, got):
  """discrete quantities exactly, floats up to reordered-sum round-off; returns (field, detail) or None"""
  for s, (a, b) in enumerate(zip(ref, got)):
    for f in ("nefc", "ne", "nf", "nl", "nacon", "overflow", "asleep_sign", "island"):
      if a[f] != b[f]:
        return f, f"step {s}: {f} {b[f]} vs forward order {a[f]}"
    for w, (x, y) in enumerate(zip(a["worlds"], b["worlds"])):
      if [c[:2] for c in x["contacts"]] != [c[:2] for c in y["contacts"]]:
        return "contacts", f"step {s} world {w}: contact pairs differ"
      if any(abs(c[2] - e[2]) > 2e-5 for c, e in zip(x["contacts"], y["contacts"])):
        return "contacts", f"step {s} world {w}: contact distances differ"
      if [r[0] for r in x["rows"]] != [r[0] for r in y["rows"]]:
        return "rows", f"step {s} world {w}: multiset of row types differs"
      if abs(x["force_sum"] - y["force_sum"]) > 2e-3 * max(1.0, x["force_sum"]):
        return "efc_force", f"step {s} world {w}: sum|force| {y['force_sum']} vs {x['force_sum']}"
    for f, tol in (("qpos", 2e-5), ("qvel", 5e-4), ("sensordata", 5e-3)):
      x, y = np.array(a[f]), np.array(b[f])
      sc = max(1.0, float(np.abs(x).max()) if x.size else 1.0)
      if x.size and float(np.abs(x - y).max()) > tol * sc * (s + 1):
        return f, f"step {s}: {f} differs by {float(np.abs(x - y).max()):.3g} (scale {sc:.3g})"
    x, y = np.array(a["qacc"]), np.array(b["qacc"])
    if float(np.abs(x - y).max()) > 5e-3 * max(1.0, float(np.abs(x).max())) * (s + 1):
      return "qacc", f"step {s}: qacc differs by {float(np.abs(x - y).max()):.3g}"
  return None


def run(ctx: core.Ctx):
  import concurrent.futures as cf

  ctx.rule = ("(1) interleaving models, all thread interleavings / orders: RowAlloc.tla and ContactBuf.tla (atomic-operation granularity: stored "
              "multiset independent of the schedule), Island.tla (dof-map kernel under every thread order), Sleep.tla (woken set independent of the "
              "order of contact threads). (2) schedule replay: whole step() runs of 4 scenes (dense/sparse, both cones, equalities, limits, friction, "
              "tendons, actuators, sensors, islands + sleeping) in a process whose Warp CPU launch loop executes the tasks of EVERY kernel launch in "
              "forward, reverse and affine-permuted order; canonicalised outputs (counts, contact and row multisets, island and sleep structure "
              "exactly; floats up to reordered-sum round-off) must equal the forward order's")
  ctx.tlc("MC_RowAlloc", "MC_RowAlloc_quick.cfg", timeout=1800)
  ctx.tlc("MC_ContactBuf", "MC_ContactBuf_nosleep.cfg", timeout=900)
  ctx.tlc("Gen_Island", "Gen_Island.cfg", gen=c28.gen(3, "all", emit=False), timeout=1800)
  ctx.tlc("Sleep", "MC_Sleep_relink_FALSE.cfg", timeout=1800)
  cachedir = os.path.join(core.VERIF, ".cache", "warp-sched")
  cat = catalogue()
  scheds = ["r", "a12345", "a777"] if ctx.quick else ["r", "a12345", "a777", "a31337", "a5", "a99991", "a424243"]
  nsteps = 4 if ctx.quick else 12
  # forward order first, one process at a time: it also compiles every kernel into the (separate) cache directory
  refs = {}
  for name, xml in cat.items():
    refs[name] = run_one(xml, nsteps, "f", cachedir)
    if "crash" in refs[name]:
      raise RuntimeError(f"forward-order run of {name} failed: {refs[name]}")
  jobs = [(name, s) for name in cat for s in scheds]
  with cf.ThreadPoolExecutor(max_workers=8) as ex:
    res = list(ex.map(lambda j: run_one(cat[j[0]], nsteps, j[1], cachedir), jobs))
  for (name, s), got in zip(jobs, res):
    ctx.case({"scene": name, "schedule": s, "steps": nsteps}, key=(name, s))
    where = {"scene": name, "schedule": s}
    if "crash" in got:
      ctx.violation({"what": "process crashed under a permuted schedule", "scene": name}, json.dumps(got)[:600], where)
      continue
    bad = compare(refs[name], got)
    if bad:
      ctx.violation({"what": "result depends on the thread order", "field": bad[0], "scene": name}, bad[1], where)
    else:
      # wake counters: known to depend on the order (F10); reported separately so that the structural comparison above stays exact
      if any(a["asleep"] != b["asleep"] for a, b in zip(refs[name], got)):
        ctx.violation({"what": "quiet counters of woken trees depend on the thread order", "cls": "wake_counters"}, f"scene {name} schedule {s}", where)
  ctx.traces_validated = len(jobs)
  ctx.assumptions += ["real code runs serial task orders only (CPU); sub-thread interleavings are covered by the TLA+ allocator models",
                      "native utilities (array_scan, segmented sort, copies) are not permuted", "iteration-exhaustion bits are excluded (round-off sensitive)"]


def replay(ctx, scen):
  run(ctx)


META = {
  "text": "The kernels whose correctness depends on thread order are modelled at atomic-operation granularity (RowAlloc.tla, ContactBuf.tla) or "
          "under every thread order (Island.tla dof maps, Sleep.tla contact wake-ups) and TLC checks that the result is the same function of the "
          "input for every interleaving. The real code is bound to this by schedule replay: whole step() runs with every kernel launch executed in "
          "forward, reverse and affine-permuted task order (patched Warp CPU launch loop, separate kernel cache) must give the same canonicalised "
          "results.",
  "note": "serial orders only on the real code; 4 scenes, 2 worlds; floats compared up to reordered-sum round-off",
  "technique": "TLA+/PlusCal interleaving models checked by TLC + schedule replay of the real kernels through a patched Warp CPU launch loop",
}
