"""C23  Rotations stay valid  (Rotations.tla: trace invariants over recorded long runs on ModelFamily.tla configurations)."""

from __future__ import annotations

import json
import os
import tempfile

import numpy as np

from .. import core, family, tlc

LEVEL = "exploration"
JOINTS = ("free", "ball", "hinge", "slide", "hinge2", "ballslide", "weld")
GEOMS = ("sphere", "capsule", "box", "ellipsoid")
FEATS = ("site", "camlight", "floor", "spring", "damper", "act_motor", "act_position", "eq_connect", "jlimit", "fluid", "gravcomp", "applied", "smalldt")
INTEGRATORS = ("Euler", "implicitfast", "implicit", "RK4")


def _chunk(args):
  import mujoco
  import warp as wp

  import mujoco_warp as mjw

  recs, seed, nsteps = args
  out = []
  for rec in recs:
    try:
      if "xml" in rec:  # catalogue scene
        class B:
          xml = rec["xml"]
        b = B()
      else:
        b = family.build(rec, seed)
      mjm = mujoco.MjModel.from_xml_string(b.xml)
      m = mjw.put_model(mjm)
    except Exception as e:
      out.append({"status": "skip:" + type(e).__name__, "rec": rec})
      continue
    c = rec["c"]
    nworld = 2
    d = mjw.make_data(mjm, nworld=nworld)
    mjd = mujoco.MjData(mjm)
    if "xml" in rec:
      # every free / ball quaternion far from unit length, everything exactly at rest
      rr = family.rng_for(c, seed, "still")
      q0 = mjm.qpos0.copy()
      for j in range(mjm.njnt):
        if mjm.jnt_type[j] in (0, 1):
          a = int(mjm.jnt_qposadr[j]) + (3 if mjm.jnt_type[j] == 0 else 0)
          q = rr.normal(size=4)
          q0[a : a + 4] = q / np.linalg.norm(q) * rr.choice([0.35, 2.5])
      st = {"qpos": q0, "qvel": np.zeros(mjm.nv)}
    else:
      st = family.make_state(rec, mjm, seed, vscale=6.0 if c["vc"] == "rand" else 1.0)  # large angular velocities
    family.apply_state(mjm, mjd, m, d, st)
    qadr = [(int(mjm.jnt_qposadr[j]) + (3 if mjm.jnt_type[j] == 0 else 0)) for j in range(mjm.njnt) if mjm.jnt_type[j] in (0, 1)]
    states = []
    ok_run = True
    for k in range(nsteps):
      mjw.step(m, d)
      qpos = d.qpos.numpy()
      fin = bool(np.isfinite(qpos).all() and np.isfinite(d.qvel.numpy()).all())
      if not fin:  # blow-ups of stiff random models are not this property's subject: stop recording here
        break
      qn = np.array([np.linalg.norm(qpos[:, a : a + 4], axis=1) for a in qadr]) if qadr else np.ones((1, nworld))
      xq = np.linalg.norm(d.xquat.numpy(), axis=2)
      mats = [getattr(d, n).numpy().reshape(-1, 3, 3) for n in ("xmat", "ximat", "geom_xmat", "site_xmat", "cam_xmat") if getattr(d, n).numpy().size]
      R = np.concatenate(mats) if mats else np.eye(3)[None]
      orth = np.abs(np.einsum("nij,nkj->nik", R, R) - np.eye(3)).max()
      det = np.linalg.det(R)
      states.append({"step": k + 1, "tick": int(round(float(d.time.numpy()[0]) / mjm.opt.timestep)), "quat_unit": bool(np.abs(qn - 1).max() < 1e-4),
                     "xquat_unit": bool(np.abs(xq - 1).max() < 1e-4), "rot_orthonormal": bool(orth < 1e-4), "rot_det_positive": bool((det > 0.999).all()),
                     "finite": fin, "worst": [float(np.abs(qn - 1).max()), float(orth), float(det.min())]})
    out.append({"status": "ok", "rec": rec, "st": states})
  return out


def run(ctx: core.Ctx):
  ctx.rule = ("ModelFamily.tla configurations with free / ball joints, 4 integrators, contacts, actuators, equalities, fluid, small and default "
              "timesteps; initial states with UNNORMALISED quaternions and angular velocities up to 6 rad/s; 60 (quick) / 400 (thorough) steps in 2 "
              "worlds; after every step the recorder evaluates |q|=1 for every free/ball quaternion, |xquat|=1, R R^T = I and det R > 0 for "
              "xmat/ximat/geom_xmat/site_xmat/cam_xmat (1e-4); TLC checks Rotations.tla on every recorded state. evaluations = recorded states")
  n = 70 if ctx.quick else 500
  nsteps = 60 if ctx.quick else 400
  recs = family.sample(ctx, n, seed_off=23, maxbody=5, joints=JOINTS, geoms=GEOMS, feats=FEATS, maxfeat=5, integrators=INTEGRATORS, qclasses=("unnorm", "rand"), vclasses=("rand", "zero"))
  # bodies that never start to rotate (no torque: free fall, a ball joint through the centre of mass): the integrator's zero-rotation path
  for integ in INTEGRATORS:
    xml = (f'<mujoco><option integrator="{integ}" timestep="0.004"/><worldbody>'
           '<body pos="0 0 2"><freejoint/><geom type="ellipsoid" size="0.1 0.07 0.05"/><site name="sa" pos="0.05 0 0"/><camera name="ca" pos="0 0 0.2"/></body>'
           '<body pos="1 0 1"><joint type="ball"/><geom type="sphere" size="0.1"/><site name="sb" pos="0 0.05 0"/>'
           '<body pos="0 0 0"><joint type="ball"/><geom type="sphere" size="0.05"/></body></body>'
           '<body pos="2 0 1"><joint type="slide" axis="0 0 1"/><joint type="ball"/><geom type="box" size="0.1 0.1 0.1"/></body></worldbody></mujoco>')
    recs.append({"xml": xml, "c": {"nb": 4, "jn": ["free", "ball", "ball", "ballslide"], "feats": ["still"], "integrator": integ, "qc": "unnorm", "vc": "zero", "catalogue": "still/" + integ}})
  CH = max(1, len(recs) // 28 + 1)
  traces, owners = [], []
  for res in core.pmap(_chunk, [(recs[i : i + CH], ctx.seed, nsteps) for i in range(0, len(recs), CH)], nproc=14):
    for r in res:
      if r["status"] != "ok":
        ctx.skip(r["status"])
        continue
      if not r["st"]:
        ctx.skip("skip:diverged_at_first_step")
        continue
      traces.append({"st": [{k: v for k, v in s.items() if k != "worst"} for s in r["st"]]})
      owners.append(r)
      ctx.case({"cfg": r["rec"]["c"], "steps_recorded": len(r["st"])}, nontrivial=any(j in ("free", "ball", "ballslide") for j in r["rec"]["c"]["jn"]), key=r["rec"]["c"])
  ctx.traces_validated = len(traces)
  ctx.extra["states_validated"] = sum(len(t["st"]) for t in traces)
  fd, path = tempfile.mkstemp(suffix=".json", dir=os.path.join(tlc.VERIF, ".cache", "tlc"))
  with os.fdopen(fd, "w") as f:
    json.dump(traces, f)
  try:
    r = ctx.tlc("Rotations", "Rotations.cfg", env={"TRACE_FILE": path}, workers=1, allow_violation=True, timeout=900)
  finally:
    os.unlink(path)
  bad = r.emit("bad")[0]["bad"] if r.emit("bad") else {}
  if isinstance(bad, list):
    bad = {str(i + 1): v for i, v in enumerate(bad)}
  for i, first in bad.items():
    o = owners[int(i) - 1]
    s = o["st"][first - 1] if first else None
    ctx.violation({"what": "invalid rotation after step", "clause": next((k for k in ("quat_unit", "xquat_unit", "rot_orthonormal", "rot_det_positive", "finite") if s and not s[k]), "trace")},
                  f"step {first}: {s}", {"cfg": o["rec"]["c"], "seed": ctx.seed, "step": first})
  ctx.assumptions += ["runs that diverge to non-finite values (stiff random models at large velocities) are truncated at the last finite state and counted"]


def replay(ctx, scen):
  run(ctx)


META = {
  "text": "step() is run for tens to hundreds of steps on TLC-generated configurations from unnormalised, fast-spinning initial states; after every "
          "step the recorder evaluates the unit-norm and proper-rotation predicates and TLC checks Rotations.tla (every state valid, no state "
          "skipped, time advancing) on all recorded traces.",
  "note": "runtime invariants over recorded executions; predicates thresholded at 1e-4",
  "technique": "TLA+ trace-invariant spec (Rotations.tla) validated by TLC on traces recorded from step() over ModelFamily.tla configurations",
}
