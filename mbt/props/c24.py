"""C24  Constraint forces are physically admissible  (Admissible.tla: row classification table, trace validation of recorded rows)."""

from __future__ import annotations

import json
import os
import tempfile

import numpy as np

from .. import core, efc, family, parity, tlc
from . import c05

LEVEL = "model_checking"


def record(rec, b, mjm, mjd, m, d, cmp, opts):
  """Runs forward() and records the discrete facts of every constraint row of every world (returned through cmp.rows)."""
  import mujoco

  import mujoco_warp as mjw

  if mjm.nv == 0:
    return "skip:nv0"
  mjw.forward(m, d)
  if d.overflow.numpy().any():
    return "skip:overflow"
  got = mujoco.MjData(mjm)
  rows, worlds = [], []
  T = mujoco.mjtConstraint
  for w in range(d.nworld):
    mjw.get_data_into(got, mjm, d, world_id=w)
    c05.localize_contact_ids(mjm, d, w, got)
    n = got.nefc
    f = np.array(got.efc_force[:n], dtype=np.float64)
    J = efc.dense_J(mjm, got)
    scale = max(1.0, float(np.abs(f).max()) if n else 1.0)
    eps = 1e-5 * scale
    jtf = float(np.abs(np.array(got.qfrc_constraint) - J.T @ f).max()) if n and mjm.nv else 0.0
    worlds.append({"jtf": bool(jtf <= 2e-4 * scale), "err": jtf, "scale": scale})
    con = efc.contacts(got)
    seen = {}
    for r in range(n):
      t, i = int(got.efc_type[r]), int(got.efc_id[r])
      kind = {int(T.mjCNSTR_EQUALITY): "eq", int(T.mjCNSTR_FRICTION_DOF): "fric", int(T.mjCNSTR_FRICTION_TENDON): "fric", int(T.mjCNSTR_LIMIT_JOINT): "limit",
              int(T.mjCNSTR_LIMIT_TENDON): "limit", int(T.mjCNSTR_CONTACT_FRICTIONLESS): "con1", int(T.mjCNSTR_CONTACT_PYRAMIDAL): "pyr",
              int(T.mjCNSTR_CONTACT_ELLIPTIC): "ell"}[t]
      k = seen.get((t, i), 0)
      seen[(t, i)] = k + 1
      row = {"kind": kind, "state": int(got.efc_state[r]), "fsign": int(f[r] > eps) - int(f[r] < -eps), "within": True, "atloss": True, "first": k == 0,
             "incone": True, "w": w, "r": r}
      if kind == "fric":
        loss = float(got.efc_frictionloss[r])
        row["within"] = bool(abs(f[r]) <= loss * (1 + 1e-4) + eps)
        row["atloss"] = bool(abs(abs(f[r]) - loss) <= 1e-3 * max(loss, eps) + eps)
      if kind == "ell" and k == 0 and 0 <= i < len(con):
        dim = con[i]["dim"]
        fr = con[i]["friction"]
        ff = f[r : r + dim]
        if len(ff) < dim or any(int(got.efc_id[r + j]) != i for j in range(dim)):
          rows.append(row)  # (efc_id of worlds > 0 is off by the earlier worlds' contacts - F26: the block is not this contact's, nothing to judge)
          continue
        tang = float(np.sqrt(sum((ff[j] / max(fr[j - 1], 1e-12)) ** 2 for j in range(1, dim))))
        row["incone"] = bool(tang <= ff[0] * (1 + 1e-3) + eps)
      rows.append(row)
  cmp.rows = rows
  cmp.worlds = worlds


def _chunk(args):
  """worker: like parity.chunk but returns the recorded rows."""
  import mujoco

  import mujoco_warp as mjw
  from .. import refcmp

  recs, seed, nworld = args
  out = []
  for rec in recs:
    try:
      if "xml" in rec:  # fixed catalogue scene (guarantees that every row kind is exercised whatever the random sample contains)
        class B:
          xml = rec["xml"]
        b = B()
        rec = {"c": {"nb": 0, "feats": [rec["name"]], "qc": "near", "vc": "rand", "catalogue": rec["name"]}}
      else:
        b = family.build(rec, seed)
      mjm = mujoco.MjModel.from_xml_string(b.xml)
      m = mjw.put_model(mjm)
    except Exception as e:
      out.append({"rec": rec, "status": "skip:" + type(e).__name__})
      continue
    mjd = mujoco.MjData(mjm)
    d = mjw.make_data(mjm, nworld=nworld)
    if nworld > 1 and int(mjm.opt.cone) == int(mujoco.mjtCone.mjCONE_ELLIPTIC):
      # per-world impedance ratio: the friction cone of the forces must hold in every world whatever its regularisation
      import warp as wp

      m.opt.impratio_invsqrt = wp.array(np.array([1.0 / np.sqrt(1.0 + 4.5 * (w % 3)) for w in range(nworld)], dtype=np.float32), dtype=float)
    st = family.make_state(rec, mjm, seed, vscale=0.5)
    if rec["c"].get("catalogue"):
      st["qvel"] = family.rng_for(rec["c"], seed, "v").uniform(-1, 1, size=mjm.nv)
    family.apply_state(mjm, mjd, m, d, st)
    cmp = refcmp.Cmp()
    note = record(rec, b, mjm, mjd, m, d, cmp, {})
    if isinstance(note, str):
      out.append({"rec": rec, "status": note})
    else:
      out.append({"rec": rec, "status": "ok", "rows": cmp.rows, "worlds": cmp.worlds})
  return out


def validate(ctx, rows, worlds, owners):
  """TLC evaluates Admissible.tla on the recorded rows; returns the indices TLC reports as bad."""
  fd, path = tempfile.mkstemp(suffix=".json", dir=os.path.join(tlc.VERIF, ".cache", "tlc"))
  with os.fdopen(fd, "w") as f:
    json.dump({"rows": [{k: v for k, v in r.items() if k not in ("w", "r")} for r in rows], "worlds": [{"jtf": w["jtf"]} for w in worlds]}, f)
  try:
    r = ctx.tlc("Admissible", "Admissible.cfg", env={"TRACE_FILE": path}, workers=1, allow_violation=True, timeout=900)
  finally:
    os.unlink(path)
  bad = r.emit("bad")[0] if r.emit("bad") else {"rows": [], "worlds": []}
  cov = r.emit("cov")[0] if r.emit("cov") else {}
  return bad, cov


def run(ctx: core.Ctx):
  ctx.rule = ("forward() is run on ModelFamily.tla configurations with contacts (every condim, both cones), joint/tendon limits, dof/tendon friction "
              "loss and equalities; for every constraint row of every world the discrete facts (kind, state, sign of force, |f| vs frictionloss, "
              "cone membership, ||qfrc_constraint - J^T f||) are recorded and TLC evaluates Admissible.tla (state/force table) on the whole batch of "
              "recorded rows; evaluations = rows validated; distinct = configurations")
  n = 220 if ctx.quick else 2500
  recs = c05.sample(ctx, n, seed_off=24)
  from ..scenes import rows_scene
  for cone in ("pyramidal", "elliptic"):
    for jac in ("dense", "sparse"):
      recs.append({"name": f"rows_{cone}_{jac}", "xml": rows_scene([1, 3, 4, 6], connects=1, welds=1, hinges=3, hinge_limit=True, hinge_friction=True, jointeqs=1,
                                                                  cone=cone, jacobian=jac)})
  CH = max(1, len(recs) // 40 + 1)
  work = [(recs[i : i + CH], ctx.seed, 2) for i in range(0, len(recs), CH)]
  rows, worlds, owners = [], [], []
  for res in core.pmap(_chunk, work, nproc=14):
    for r in res:
      if r["status"] != "ok":
        ctx.skip(r["status"].split(" ")[0])
        continue
      ctx.case({"cfg": r["rec"]["c"], "rows": len(r["rows"])}, nontrivial=len(r["rows"]) > 0, key=r["rec"]["c"])
      for x in r["rows"]:
        owners.append(r["rec"]["c"])
      rows += r["rows"]
      worlds += [dict(w, cfg=r["rec"]["c"]) for w in r["worlds"]]
  ctx.traces_validated = len(rows)
  bad, cov = validate(ctx, rows, worlds, owners)
  ctx.extra["rows_validated"] = len(rows)
  ctx.extra["kinds_states_seen"] = cov
  for i in bad.get("rows", []):
    r = rows[i - 1]
    ctx.violation({"what": "inadmissible constraint force", "kind": r["kind"], "state": r["state"]}, f"row {r}", {"cfg": owners[i - 1], "seed": ctx.seed})
  for i in bad.get("worlds", []):
    w = worlds[i - 1]
    ctx.violation({"what": "qfrc_constraint differs from J^T f"}, f"err {w['err']} scale {w['scale']}", {"cfg": w["cfg"], "seed": ctx.seed})
  need = {"eq", "fric", "limit", "con1", "pyr", "ell"}
  if not need <= set(cov.get("kinds", [])):
    raise RuntimeError(f"vacuous trace: kinds seen {cov.get('kinds')}")
  ctx.assumptions += ["facts are computed at record time in float64 with eps = 1e-5 * max|force|; cone membership to 1e-3 relative"]


def replay(ctx, scen):
  run(ctx)


META = {
  "text": "Admissible.tla holds the solver's row-classification table (which states a row kind may take, and what each state implies for the sign "
          "and bound of its force: satisfied => 0, unilateral rows >= 0, elliptic normal >= 0 and force in cone, friction rows within the loss and at "
          "the loss when saturated) and TLC evaluates it on the rows recorded after forward() on TLC-generated configurations (trace validation), "
          "together with qfrc_constraint = J^T f per world.",
  "note": "the recorded facts are thresholded floats (eps relative to the largest force); one TLC run validates all rows of the run",
  "technique": "TLA+ row-classification spec (Admissible.tla) + code->spec trace validation by TLC of rows recorded from forward() over ModelFamily.tla configurations",
}
