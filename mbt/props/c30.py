"""C30  Delayed controls and sensors read the right past sample  (History.tla)."""

from __future__ import annotations

import numpy as np

from .. import core

LEVEL = "model_checking"
DT = 2.0 ** -7


def xml(n, delay, interp):
  ip = {0: "zoh", 1: "linear", 2: "cubic"}[interp]
  return f"""<mujoco><option timestep="{DT}" gravity="0 0 0"/>
  <worldbody><body name="b"><joint name="s" type="slide" axis="1 0 0"/><geom size="0.1" mass="1"/></body></worldbody>
  <actuator><motor name="m" joint="s" gear="1" delay="{delay * DT}" nsample="{n}" interp="{ip}"/></actuator>
  <sensor><actuatorfrc actuator="m"/><jointvel joint="s" delay="{delay * DT}" nsample="{n}" interp="{ip}"/>
  <framelinvel objtype="body" objname="b" delay="{delay * DT}" nsample="{n}" interp="{ip}"/><framepos objtype="body" objname="b" delay="{delay * DT}" nsample="{n + 1}"/></sensor>
</mujoco>"""


def gen(n, delay, interp, record, pick, maxlevel, tmin=-2, tmax=8, extra=()):
  mod = f"""---- MODULE Gen_History ----
EXTENDS History
GVals == {{1, 2, 5}}
GTMin == {tmin}
====
"""
  cfg = f"""CONSTANTS
  N = {n}
  Delay = {delay}
  Interp = {interp}
  Vals <- GVals
  TMin <- GTMin
  TMax = {tmax}
  MaxLevel = {maxlevel}
  Record = {"TRUE" if record else "FALSE"}
  Pick <- {pick}
SPECIFICATION Spec
INVARIANT Sorted
INVARIANT CursorOK
INVARIANT FindOK
INVARIANT ReadZohOK
INVARIANT ReadLinOK
INVARIANT HoldsLastN
PROPERTY DelayOK
""" + "".join(f"INVARIANT {e}\n" for e in extra)
  return {"Gen_History.tla": mod, "Gen_History.cfg": cfg}


def _rat(r):
  return r[0] / r[1]


def _replay_chunk(args):
  """worker: behaviours of one (n, delay, interp) on the real code, from 3 origins, three-way with MuJoCo C."""
  import mujoco
  import warp as wp

  import mujoco_warp as mjw

  n, delay, interp, behs = args
  x = xml(n, delay, interp)
  mjm = mujoco.MjModel.from_xml_string(x)
  m = mjw.put_model(mjm)
  nworld = 2
  adr = int(mjm.actuator_historyadr[0])
  out = []

  def fresh(origin):
    mjd = mujoco.MjData(mjm)
    if origin == "make":
      d = mjw.make_data(mjm, nworld=nworld)
    elif origin == "put":
      d = mjw.put_data(mjm, mjd, nworld=nworld)
    else:  # reset after a junk history
      d = mjw.make_data(mjm, nworld=nworld)
      for k in range(n + 2):
        wp.copy(d.ctrl, wp.array(np.full((nworld, 1), 7.0 + k, dtype=np.float32), dtype=float))
        mjw.step(m, d)
      if origin == "reset_mask":
        mjw.reset_data(m, d, wp.array(np.array([True] * nworld), dtype=bool))
      else:
        mjw.reset_data(m, d)
    return mjd, d

  for beh in behs:
    for origin in ("make", "put", "reset", "reset_mask"):
      mjd, d = fresh(origin)
      ops = []
      for k, s in enumerate(beh):
        op = s["op"]
        ops.append(op)
        where = {"n": n, "delay": delay, "interp": interp, "origin": origin, "ops": ops[:]}
        kind = op["kind"]
        if kind == "step":
          v = float(op["v"])
          wp.copy(d.ctrl, wp.array(np.full((nworld, 1), v, dtype=np.float32), dtype=float))
          mjd.ctrl[0] = v
          mjw.step(m, d)
          mujoco.mj_step(mjm, mjd)
          exp = _rat(op["applied"])
          got = d.actuator_force.numpy()[:, 0]
          ref = float(mjd.actuator_force[0])
          if abs(ref - exp) > 1e-6:
            return out + [("MACHINERY", f"spec/MuJoCo disagree on applied ctrl: spec {exp} mujoco {ref} at {where}", where)]
          if not np.allclose(got, exp, atol=1e-5):
            out.append(({"what": "applied control is not the value recorded at t - delay", "origin": origin, "interp": interp},
                        f"step {k}: applied {got.tolist()} expected {exp} (mujoco {ref})", where))
            break
        elif kind == "settime":
          t = op["t"] * DT
          wp.copy(d.time, wp.array(np.full(nworld, t, dtype=np.float32), dtype=float))
          mjd.time = t
        elif kind == "read":
          tq = op["t"] * DT
          res = wp.zeros(nworld, dtype=float)
          mjw.read_ctrl(m, d, 0, wp.array(np.full(nworld, tq, dtype=np.float32), dtype=float), int(op["interp"]), res)
          exp = _rat(op["r"])
          ref = mujoco.mj_readCtrl(mjm, mjd, 0, tq, int(op["interp"]))
          if abs(ref - exp) > 1e-6:
            return out + [("MACHINERY", f"spec/MuJoCo disagree on read_ctrl: spec {exp} mujoco {ref} at {where}", where)]
          if not np.allclose(res.numpy(), exp, atol=1e-5):
            out.append(({"what": "read_ctrl differs from the spec", "origin": origin, "interp": int(op["interp"])},
                        f"step {k}: read {res.numpy().tolist()} expected {exp}", where))
            break
        # raw buffer of the actuator: [user, cursor, times, values]
        hbuf = d.history.numpy()
        expbuf = np.array([0.0, s["cursor"]] + [s["times"][str(i)] * DT for i in range(n)] + [float(s["vals"][str(i)]) for i in range(n)])
        refbuf = mjd.history[adr : adr + 2 + 2 * n]
        if not np.allclose(refbuf, expbuf, atol=1e-9):
          return out + [("MACHINERY", f"spec/MuJoCo disagree on buffer: spec {expbuf.tolist()} mujoco {refbuf.tolist()} at {where}", where)]
        bad = [w for w in range(nworld) if not np.allclose(hbuf[w, adr : adr + 2 + 2 * n], expbuf, atol=1e-6)]
        if bad:
          out.append(({"what": "history buffer differs from the spec", "origin": origin, "after": kind},
                      f"step {k} world {bad[0]}: got {hbuf[bad[0], adr:adr + 2 + 2 * n].tolist()} expected {expbuf.tolist()}", where))
          break
        # delayed sensor (second buffer) and whole history: three-way with MuJoCo
        if kind == "step":
          if not np.allclose(hbuf[0], mjd.history, atol=1e-5) or not np.allclose(d.sensordata.numpy()[0], mjd.sensordata, atol=1e-5):
            out.append(({"what": "sensor history / delayed sensordata differ from MuJoCo", "origin": origin},
                        f"step {k}: history {hbuf[0].tolist()} vs {mjd.history.tolist()}; sensordata {d.sensordata.numpy()[0].tolist()} vs {mjd.sensordata.tolist()}", where))
            break
  return out


def run(ctx: core.Ctx):
  ctx.rule = ("(nsample, delay, interp) in {1..4}x{1..3}x{zoh,linear}; TLC exhaustive to depth 7 per configuration (invariants FindOK, ReadZohOK, "
              "ReadLinOK, HoldsLastN, Sorted, DelayOK) + simulated behaviours of depth 12 mixing steps, user time changes and reads; each behaviour is "
              "replayed from 4 origins (make_data, put_data, reset_data, masked reset_data) three-way against the spec and MuJoCo C; non-trivial = "
              "contains a step")
  combos = [(n, dl, ip) for n in (1, 2, 3, 4) for dl in (1, 2, 3) for ip in (0, 1)]
  mc = [(3, 2, 1), (2, 1, 0), (4, 3, 1), (1, 1, 0)] if ctx.quick else combos
  for n, dl, ip in mc:
    ctx.tlc("Gen_History", "Gen_History.cfg", gen=gen(n, dl, ip, False, "PickAll", 6 if ctx.quick else 7, tmax=6), timeout=900)
  work = []
  nbeh = 6 if ctx.quick else 40
  for i, (n, dl, ip) in enumerate(combos):
    r = ctx.tlc("Gen_History", "Gen_History.cfg", gen=gen(n, dl, ip, True, "PickRand", 13, extra=("EmitBeh",)), workers=1, simulate=f"num={nbeh}", depth=12,
                seed=(ctx.seed + i) % (1 << 30), timeout=600)
    behs = r.emit("beh")
    for b in behs:
      ops = [s["op"] for s in b]
      ctx.case({"n": n, "delay": dl, "interp": ip, "ops": ops[:6]}, nontrivial=any(o["kind"] == "step" for o in ops), key=(n, dl, ip, ops))
    ctx.traces_validated += 4 * len(behs)
    work.append((n, dl, ip, behs))
  for res in core.pmap(_replay_chunk, work, nproc=14):
    for key, msg, scen in res:
      if key == "MACHINERY":
        raise RuntimeError(msg)
      ctx.violation(key, msg, scen)
  ctx.assumptions += ["timestep 2^-7 so that tick times are exact in float32; integer control values; cubic interpolation not modelled (compared with MuJoCo only through the sensor path)"]


def replay(ctx, scen):
  run(ctx)


META = {
  "text": "History.tla transcribes the circular binary search, the four insert cases and the ZOH/linear read of a delay buffer; TLC checks, for "
          "every nsample 1..4 x delay 1..3, that the search returns the bracketing index for every cursor position, reads equal the declarative "
          "sample, and in normal operation the applied control is the one recorded delay ticks earlier (incl. wrap-around, user time changes). "
          "TLC-generated behaviours are replayed from make_data / put_data / reset_data origins: raw history buffer, applied control and "
          "read_ctrl must equal the spec, and history + delayed sensordata must equal MuJoCo C after every step.",
  "note": "one actuator buffer is modelled exactly; the sensor buffer is compared against MuJoCo C only; dt = 2^-7, integer controls",
  "technique": "TLA+ transcription of the delay buffer (History.tla) model-checked with TLC + spec->code behaviour replay, three-way with MuJoCo C",
}
