"""C16  Capacity overflow is never silent.

TLC: RowAlloc.tla (constraint rows / Jacobian non-zeros; all interleavings; capacities swept 0..need+1)
     ContactBuf.tla (broadphase pairs / contacts in the shared buffer; two-pass sleeping collision)
Bind: spec->code replay.  For each scene the row requests (kind, rows, nnz per block) are measured on an
      ample-capacity run, TLC computes the outcome of the serial schedule for EVERY capacity pair
      (njmax 0..need+1 x {0, half, need-1, need, need+1} nnz), and the real step is run with exactly those
      capacities: counters, overflow bits, the stored row table and contact row addresses must equal the
      spec's, and with no bit set the step result must equal the ample run.
"""

from __future__ import annotations

import json

import numpy as np

from .. import core

LEVEL = "model_checking"

KIND = {0: "E", 1: "F", 2: "F", 3: "L", 4: "L", 5: "C", 6: "C", 7: "C"}
NEFC, NNZBIT, BROAD, NARROW, NVMAX = 1, 2, 4, 8, 128


def _scenes(quick):
  from ..scenes import rows_scene

  S = []
  for jac in ("dense", "sparse"):
    for cone in ("pyramidal", "elliptic"):
      S.append(dict(spheres=[3, 1, 4], connects=1, welds=0, hinges=2, hinge_limit=True, hinge_friction=True, jointeqs=1, cone=cone, jacobian=jac))
    S.append(dict(spheres=[3, 3], connects=1, welds=0, hinges=0, cone="pyramidal", jacobian=jac))  # last non-contact block is a connect
    S.append(dict(spheres=[], connects=0, hinges=2, hinge_limit=True, hinge_friction=False, jointeqs=1, jacobian=jac))
    S.append(dict(spheres=[1, 1, 3], connects=1, welds=1, hinges=0, cone="pyramidal", jacobian=jac, lifted=[0, 1, 2]))  # equality rows only
    if not quick:
      S.append(dict(spheres=[6, 3, 1, 4], connects=1, welds=1, hinges=3, hinge_limit=True, hinge_friction=True, jointeqs=2, cone="elliptic", jacobian=jac, chain=3))
      S.append(dict(spheres=[3, 3, 3], connects=2, welds=0, hinges=1, hinge_friction=True, cone="pyramidal", jacobian=jac, solver="CG"))
      S.append(dict(spheres=[4, 6], connects=0, welds=1, hinges=2, hinge_limit=True, jointeqs=1, cone="pyramidal", jacobian=jac))
  return [(s, rows_scene(**s)) for s in S]


def _blocks(d, w):
  """Row blocks of world w in table order: (kind, nrows, rnz, type, id)."""
  nefc = int(d.nefc.numpy()[w])
  typ = d.efc.type.numpy()[w][:nefc]
  idv = d.efc.id.numpy()[w][:nefc]
  sparse = d.efc.J_rownnz.numpy().shape[1] > 0
  rnz = d.efc.J_rownnz.numpy()[w][:nefc] if sparse else np.zeros(nefc, dtype=int)
  out = []
  r = 0
  while r < nefc:
    e = r
    while e + 1 < nefc and typ[e + 1] == typ[r] and idv[e + 1] == idv[r]:
      e += 1
    out.append(dict(kind=KIND[int(typ[r])], n=e - r + 1, rnz=int(rnz[r]), type=int(typ[r]), id=int(idv[r])))
    r = e + 1
  return out


def _gen(blocks, sparse, njset, nnzset, detector="counter", slack=0):
  recs = ", ".join(f'[launch |-> {i + 1}, kind |-> "{b["kind"]}", n |-> {b["n"]}, rnz |-> {b["rnz"]}]' for i, b in enumerate(blocks))
  mod = f"""---- MODULE Gen_RowAlloc ----
EXTENDS RowAlloc
GProfiles == {{ <<{recs}>> }}
GNJ(maxneed) == {{{", ".join(map(str, sorted(njset)))}}}
GNNZ(need) == {{{", ".join(map(str, sorted(nnzset)))}}}
====
"""
  cfg = f"""CONSTANTS
  MaxT = {len(blocks)}
  Profiles <- GProfiles
  NLaunch = {len(blocks)}
  Sparse = {"TRUE" if sparse else "FALSE"}
  Detector = "{detector}"
  ConnectGuardSlack = {slack}
  NJChoices <- GNJ
  NnzChoices <- GNNZ
SPECIFICATION Spec
INVARIANT NoSilentDrop
INVARIANT RightBit
INVARIANT NoBitAllStored
INVARIANT CountsOK
INVARIANT KindByPosition
INVARIANT AddrConsistent
INVARIANT IndexInRange
INVARIANT EmitOutcome
"""
  return {"Gen_RowAlloc.tla": mod, "Gen_RowAlloc.cfg": cfg}


def _setstate(d, nworld, lift_world1):
  """world 1 gets some spheres lifted (fewer contacts) so that worlds differ."""
  from ..impl import setarr

  if nworld > 1 and lift_world1:
    q = d.qpos.numpy()
    for i in lift_world1:
      q[1, 7 * i + 2] = 0.6
    setarr(d.qpos, q)


def _run_caps(args):
  """worker: one scene, list of (NJ, NNZ) -> observations per world."""
  import mujoco_warp as mjw

  from ..impl import load

  xml, nworld, lift, caps, sparse = args
  out = []
  import mujoco

  mjm = mujoco.MjModel.from_xml_string(xml)
  m = mjw.put_model(mjm)
  for NJ, NNZ in caps:
    kw = dict(njmax=NJ, nconmax=16)
    if sparse:
      kw["njmax_nnz"] = NNZ
    if NJ < 0:
      kw = {}  # make_data's own default capacities
    try:
      d = mjw.make_data(mjm, nworld=nworld, **kw)
    except Exception as e:
      out.append({"rejected": repr(e)})
      continue
    _setstate(d, nworld, lift)
    mjw.step(m, d)
    nacon = int(d.nacon.numpy()[0])
    obs = dict(
      nefc=d.nefc.numpy().tolist(), ne=d.ne.numpy().tolist(), nf=d.nf.numpy().tolist(), nl=d.nl.numpy().tolist(),
      overflow=d.overflow.numpy().tolist(), type=d.efc.type.numpy().tolist(), id=d.efc.id.numpy().tolist(),
      addr=d.contact.efc_address.numpy()[:nacon].tolist(), cw=d.contact.worldid.numpy()[:nacon].tolist(),
      qpos=d.qpos.numpy().tolist(), qvel=d.qvel.numpy().tolist(), nacon=nacon,
    )
    if sparse:
      obs["rowadr"] = d.efc.J_rowadr.numpy().tolist()
      obs["rownnz"] = d.efc.J_rownnz.numpy().tolist()
    out.append(obs)
  return out


def rows_part(ctx: core.Ctx):
  import mujoco

  import mujoco_warp as mjw

  from ..impl import load

  nworld = 2
  jobs = []
  for desc, xml in _scenes(ctx.quick):
    sparse = desc["jacobian"] == "sparse"
    lift = [0] if len(desc["spheres"]) > 1 and not desc.get("lifted") else []
    mjm = mujoco.MjModel.from_xml_string(xml)
    m = mjw.put_model(mjm)
    d = mjw.make_data(mjm, nworld=nworld, njmax=128, nconmax=16, **({"njmax_nnz": 128 * mjm.nv} if sparse else {}))
    _setstate(d, nworld, lift)
    mjw.step(m, d)
    assert not d.overflow.numpy().any(), "ample run overflowed"
    ample = dict(qpos=d.qpos.numpy(), qvel=d.qvel.numpy())
    nacon = int(d.nacon.numpy()[0])
    cw = d.contact.worldid.numpy()[:nacon]
    per_world = []
    allblocks = [_blocks(d, w) for w in range(nworld)]
    needs = [sum(b["n"] for b in bl) for bl in allblocks]
    nnzneeds = [sum(b["n"] * b["rnz"] for b in bl) for bl in allblocks]
    njset = set(range(0, max(needs) + 2))
    nnzset = {0}
    for z in nnzneeds:
      nnzset |= {z // 2, max(z - 1, 0), z, z + 1}
    if not sparse:
      nnzset = {0}
    for w in range(nworld):
      blocks = allblocks[w]
      if not blocks:
        per_world.append(None)
        continue
      r = ctx.tlc("Gen_RowAlloc", "Gen_RowAlloc.cfg", gen=_gen(blocks, sparse, njset, nnzset), workers=4, timeout=600)
      outs = {(o["NJ"], o["NNZ"]): o for o in r.emit("outcome")}
      per_world.append((blocks, outs))
    # capacities: union over worlds of what TLC explored (both worlds share njmax / njmax_nnz)
    caps = sorted(set().union(*[set(pw[1].keys()) for pw in per_world if pw]))
    # replay the njmax sweep with ample nnz, and the nnz sweep at exact-fit / ample njmax (TLC explored the full product)
    if sparse:
      nnz_ample = max(nnzset)
      keep_nj = set(needs) | {n + 1 for n in needs}
      caps = [c for c in caps if c[1] == nnz_ample or c[0] in keep_nj]
    caps = [(-1, -1)] + caps
    ample["type"], ample["id"], ample["nefc"] = d.efc.type.numpy(), d.efc.id.numpy(), d.nefc.numpy()
    jobs.append((desc, xml, lift, sparse, per_world, caps, ample, cw))

  # replay, fanned out in chunks of capacity pairs
  CH = 12
  work, owner = [], []
  for j, (desc, xml, lift, sparse, per_world, caps, ample, cw) in enumerate(jobs):
    for k in range(0, len(caps), CH):
      work.append((xml, nworld, lift, caps[k : k + CH], sparse))
      owner.append(j)
  chunks = core.pmap(_run_caps, work, nproc=14, crash_ok=True)
  # a chunk whose worker died is re-run one capacity pair at a time to pin down the crashing pair
  for i, ch in enumerate(chunks):
    if isinstance(ch, core.Crash):
      xml_, nw_, lift_, caps_, sp_ = work[i]
      singles = core.pmap(_run_caps, [(xml_, nw_, lift_, [c], sp_) for c in caps_], nproc=14, crash_ok=True)
      chunks[i] = [({"crash": r.returncode, "stderr": r.stderr_tail[-300:]} if isinstance(r, core.Crash) else r[0]) for r in singles]
  results = [[] for _ in jobs]
  for j, ch in zip(owner, chunks):
    results[j].extend(ch)
  for (desc, xml, lift, sparse, per_world, caps, ample, cw), obs_list in zip(jobs, results):
    for (NJ, NNZ), obs in zip(caps, obs_list):
      scen = {"scene": desc, "njmax": NJ, "njmax_nnz": NNZ if sparse else None, "nworld": nworld, "lift_world1": lift}
      if "rejected" in obs:
        ctx.skip("make_data rejected capacities")
        continue
      if "crash" in obs:
        ctx.violation(dict(part="rows", what="process crash", jacobian=desc["jacobian"], njmax_zero=(NJ == 0), nnz_zero=(sparse and NNZ == 0)),
                      f"step() killed the process (rc={obs['crash']}) with njmax={NJ} njmax_nnz={NNZ}: {obs['stderr']}", scen)
        ctx.case(scen, key=("rows", desc, NJ, NNZ))
        continue
      if NJ < 0:
        # default capacities chosen by make_data: either a bit is set or everything equals the ample run
        scen = {"scene": desc, "capacities": "make_data defaults", "nworld": nworld, "lift_world1": lift}
        ctx.case(scen, key=("rows-default", desc))
        for w in range(nworld):
          if obs["overflow"][w]:
            continue
          n = int(ample["nefc"][w])
          same = (obs["nefc"][w] == n and obs["type"][w][:n] == ample["type"][w][:n].tolist() and obs["id"][w][:n] == ample["id"][w][:n].tolist()
                  and np.allclose(obs["qvel"][w], ample["qvel"][w], rtol=1e-5, atol=1e-5))
          if not same:
            ctx.violation(dict(part="rows", what="default capacities drop rows without an overflow bit", jacobian=desc["jacobian"]),
                          f"world {w}: default make_data() result differs from ample-capacity run and overflow=0", scen)
        continue
      any_tight = False
      for w in range(nworld):
        if per_world[w] is None:
          continue
        blocks, outs = per_world[w]
        if (NJ, NNZ) not in outs:
          continue  # this world's spec run did not explore that pair (different nnz need); bits checked by the world that did
        o = outs[(NJ, NNZ)]
        need = sum(b["n"] for b in blocks)
        any_tight = any_tight or NJ <= need + 1
        key = lambda what, **kw: dict(part="rows", what=what, jacobian=desc["jacobian"], **kw)
        exp_bits = (NEFC if "NEFC" in o["bits"] else 0) | (NNZBIT if "NNZ" in o["bits"] else 0)
        got_bits = obs["overflow"][w] & (NEFC | NNZBIT)
        rows = o["rows"]
        # which block (if any) did the spec store last / drop first -> structured cause
        dropped = [blocks[t] for t in range(len(blocks)) if not all(
          any(rows[str(r)]["id"] == t + 1 and rows[str(r)]["sub"] == i for r in range(min(NJ, len(rows)))) for i in range(blocks[t]["n"]))]
        if got_bits != exp_bits:
          missing = exp_bits & ~got_bits
          what = "overflow bit not set" if missing else "spurious overflow bit"
          ctx.violation(key(what, bit="NJMAX_NNZ" if (missing | (got_bits & ~exp_bits)) & NNZBIT else "NEFC"),
                        f"world {w}: expected bits {exp_bits} got {got_bits}; need rows={need} njmax={NJ} njmax_nnz={NNZ}", scen)
          continue
        if obs["nefc"][w] != o["nefc"] or obs["ne"][w] != o["cnt"]["E"] or obs["nf"][w] != o["cnt"]["F"] or obs["nl"][w] != o["cnt"]["L"]:
          ctx.violation(key("row counters differ from spec"), f"world {w}: got nefc/ne/nf/nl={obs['nefc'][w]},{obs['ne'][w]},{obs['nf'][w]},{obs['nl'][w]} "
                        f"spec={o['nefc']},{o['cnt']}", scen)
          continue
        bad = None
        for r in range(min(NJ, len(rows))):
          sr = rows[str(r)]
          if sr["kind"] == "none":
            continue
          b = blocks[sr["id"] - 1]
          if obs["type"][w][r] != b["type"] or obs["id"][w][r] != b["id"]:
            bad = (r, b, obs["type"][w][r], obs["id"][w][r])
            break
          if sparse and not (exp_bits & NNZBIT) and (obs["rowadr"][w][r] != sr["rowadr"] or obs["rownnz"][w][r] != sr["rownnz"]):
            bad = (r, b, "rowadr", obs["rowadr"][w][r], sr["rowadr"])
            break
        if bad:
          blk = bad[1]
          ctx.violation(key("row the spec stores is not in the table", kind=blk["kind"], nrows=blk["n"], exact_fit=(o["nefc"] == NJ)),
                        f"world {w} row {bad[0]}: {bad}", scen)
          continue
        # contact addresses
        cons = [i for i, x in enumerate(obs["cw"]) if x == w]
        cblocks = [(t, b) for t, b in enumerate(blocks) if b["kind"] == "C"]
        if not (exp_bits & NNZBIT):
          for t, b in cblocks:
            conid = b["id"]
            exp_addr = o["addr"][t]
            got_addr = obs["addr"][conid][: b["n"]] if conid < len(obs["addr"]) else None
            if got_addr != exp_addr:
              ctx.violation(key("contact efc_address differs from spec"), f"world {w} contact {conid}: got {got_addr} spec {exp_addr}", scen)
              break
        if exp_bits == 0 and obs["overflow"][w] == 0:
          if not (np.allclose(obs["qpos"][w], ample["qpos"][w], rtol=1e-5, atol=1e-6) and np.allclose(obs["qvel"][w], ample["qvel"][w], rtol=1e-5, atol=1e-5)):
            ctx.violation(key("no bit set but result differs from ample-capacity run"),
                          f"world {w}: max|dqvel|={np.max(np.abs(np.array(obs['qvel'][w]) - ample['qvel'][w]))}", scen)
      ctx.case(scen, nontrivial=any_tight, key=("rows", desc, NJ, NNZ))
      ctx.traces_validated += 1


def run(ctx: core.Ctx):
  ctx.rule = ("scene x capacity pair; capacities are every njmax in 0..need+1 (and 5 njmax_nnz values when sparse) emitted by TLC from "
              "RowAlloc; non-trivial = capacity within need+1 (tight); contact part: naconmax swept around need for 3 broadphases")
  # design level: all interleavings
  cfgs = ["MC_RowAlloc_quick.cfg", "MC_RowAlloc_dense.cfg"] if ctx.quick else ["MC_RowAlloc.cfg", "MC_RowAlloc_dense.cfg"]
  for c in cfgs:
    ctx.tlc("MC_RowAlloc", c, timeout=1800)
  rows_part(ctx)
  try:
    from . import c16_contacts
  except ImportError:
    c16_contacts = None
  if c16_contacts:
    c16_contacts.contact_part(ctx)
  ctx.assumptions += ["serial (CPU) thread order for the replayed code; sub-thread interleavings are covered in the model only",
                      "row requests measured on an ample-capacity run of the same code"]


def replay(ctx, scen):
  run(ctx)


META = {
  "text": "TLC explores RowAlloc.tla/ContactBuf.tla (row, nnz, pair and contact allocators at atomic-operation granularity, all interleavings, "
          "capacities 0..need+1) for NoSilentDrop/RightBit/NoBitAllStored; for concrete scenes TLC computes the outcome for every capacity "
          "value and the real step is run with exactly those capacities: counters, overflow bits, stored rows, contact row addresses must "
          "equal the spec outcome and an un-flagged result must equal the ample-capacity result.",
  "note": "CPU serial thread order in the implementation runs; scenes are a fixed catalogue (equality/friction/limit/contact rows, dense+sparse, both cones, sleeping two-pass collision)",
  "technique": "PlusCal/TLA+ allocator model checked by TLC + spec->code replay over swept capacities",
}
