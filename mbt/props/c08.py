"""C08  Time integration agrees with MuJoCo C  (Integrate.tla exact lattice behaviours; ModelFamily.tla configurations in lock-step)."""

from __future__ import annotations

import numpy as np

from .. import core, family, parity

LEVEL = "model_checking"
JOINTS = ("weld", "free", "ball", "hinge", "slide", "hinge2", "slidehinge", "ballslide")
GEOMS = ("sphere", "capsule", "box", "ellipsoid")
FEATS = ("damper", "spring", "armature", "act_motor", "act_position", "act_velocity", "act_filter", "act_filterexact", "act_integrator", "act_intvelocity",
         "act_muscle", "act_limits", "actearly", "jlimit", "eq_connect", "eq_joint", "frictionloss", "gravcomp", "tendon_fixed", "tendon_spring", "applied",
         "fluid", "dis_eulerdamp", "smalldt")
INTEGRATORS = ("Euler", "implicitfast", "implicit", "RK4")
LATTICE_XML = """<mujoco><option timestep="0.25" gravity="0 0 0" integrator="{integ}"/>
<worldbody>
 <body><joint name="a" type="slide" axis="1 0 0"/><geom size="0.1" mass="1" contype="0" conaffinity="0"/></body>
 <body pos="0 1 0"><joint name="b" type="slide" axis="0 1 0"/><geom size="0.1" mass="1" contype="0" conaffinity="0"/></body>
</worldbody>
<actuator><motor joint="a"/><general joint="b" dyntype="integrator" gainprm="1"/></actuator></mujoco>"""


def gen(rk4, maxlevel, record=True, pick="PickRand"):
  mod = "---- MODULE Gen_Integrate ----\nEXTENDS MC_Integrate\n====\n"
  cfg = f"""CONSTANTS
  Ctrls <- McCtrls
  MaxLevel = {maxlevel}
  Record = {"TRUE" if record else "FALSE"}
  Pick <- {pick}
  RK4 = {"TRUE" if rk4 else "FALSE"}
SPECIFICATION Spec
INVARIANT Lattice
INVARIANT EmitBeh
PROPERTY TimeAdvances
PROPERTY WarmstartIsQacc
PROPERTY ActLags
"""
  return {"Gen_Integrate.tla": mod, "Gen_Integrate.cfg": cfg}


def _lattice_chunk(args):
  import mujoco
  import warp as wp

  import mujoco_warp as mjw

  integ, behs = args
  mjm = mujoco.MjModel.from_xml_string(LATTICE_XML.format(integ=integ))
  m = mjw.put_model(mjm)
  out = []
  nworld = 2
  for beh in behs:
    mjd = mujoco.MjData(mjm)
    d = mjw.make_data(mjm, nworld=nworld)
    for k, s in enumerate(beh):
      c = np.array([s["op"]["cA"], s["op"]["cB"]], dtype=np.float64)
      mjd.ctrl[:] = c
      wp.copy(d.ctrl, wp.array(np.tile(c.astype(np.float32), (nworld, 1)), dtype=float))
      mujoco.mj_step(mjm, mjd)
      mjw.step(m, d)
      exp = {"qpos": [s["qA"] / 64, s["qB"] / 64], "qvel": [s["vA"] / 64, s["vB"] / 64], "act": [s["act"] / 64], "time": s["t"] / 64,
             "qacc_warmstart": [s["warmA"] / 64, s["warmB"] / 64]}
      for name, e in exp.items():
        ref = np.atleast_1d(getattr(mjd, name))
        if not np.allclose(ref, e, atol=1e-9):
          return [("MACHINERY", f"spec/MuJoCo disagree on {name} at step {k} ({integ}): spec {e} mujoco {ref.tolist()}", None)]
        got = getattr(d, name).numpy()
        if not np.allclose(got, np.atleast_1d(e), atol=2e-6):
          out.append(({"what": "integration differs from Integrate.tla", "field": name, "integrator": integ},
                      f"step {k}: {name} got {got.tolist()} expected {e}", {"integrator": integ, "ops": [x["op"] for x in beh[: k + 1]]}))
          break
      else:
        continue
      break
  return out


FIELDS = ["qpos", "qvel", "act", "time", "qacc_warmstart"]


def compare(rec, b, mjm, mjd, m, d, cmp, opts):
  import mujoco

  import mujoco_warp as mjw

  if mjm.nv == 0:
    return "skip:nv0"
  nsteps = opts.get("nsteps", 3)
  # implicit integrators need d(force)/d(velocity) of every actuator; the muscle force-length-velocity gain has one (known finding F21)
  rot = bool(((mjm.jnt_type == mujoco.mjtJoint.mjJNT_FREE) | (mjm.jnt_type == mujoco.mjtJoint.mjJNT_BALL)).any())
  tag0 = "@implicitfast_rotational" if (mjm.opt.integrator == mujoco.mjtIntegrator.mjINT_IMPLICITFAST and rot) else ""
  tag = "@muscle_implicit" if (mjm.opt.integrator in (mujoco.mjtIntegrator.mjINT_IMPLICIT, mujoco.mjtIntegrator.mjINT_IMPLICITFAST)
                               and (mjm.actuator_gaintype == mujoco.mjtGain.mjGAIN_MUSCLE).any()) else tag0
  for k in range(nsteps):
    mujoco.mj_step(mjm, mjd)
    mjw.step(m, d)
    if not np.isfinite(mjd.qacc).all() or mjd.warning.number.any() or np.abs(mjd.qvel).max() > 100.0:
      return "skip:reference_unstable"
    tol = opts["tol"] * (k + 1)
    # when constraint rows are active the acceleration is a float32 solver output (repository tolerance 5e-3 relative): the state
    # inherits dt * that error
    dt = mjm.opt.timestep
    qa = float(np.abs(mjd.qacc).max()) if mjd.nefc else 0.0
    sc = {"qvel": 25 * dt * qa, "qpos": 25 * dt * dt * qa + 25 * dt * dt * qa * (k), "qacc_warmstart": qa, "act": 0.0, "time": 0.0}
    for w in range(d.nworld):
      for f in FIELDS:
        g = getattr(d, f).numpy()[w]
        cmp.close(f + tag, g, getattr(mjd, f), tol * (10 if f == "qacc_warmstart" else 1), scale=sc[f] * (k + 1))


def run(ctx: core.Ctx):
  ctx.rule = ("(1) Integrate.tla: exhaustive TLC check (depth 6, 4 controls) of the lattice integrator, and TLC -simulate behaviours of depth 24 replayed "
              "EXACTLY (2e-6 absolute) for Euler / implicitfast / implicit (motor + integrator-actuated slide bodies) and RK4 (motor only), three-way "
              "with mj_step: qpos, qvel, act, time, qacc_warmstart after every step. (2) ModelFamily.tla configurations x the 4 integrators x features "
              "(dampers, springs, armature, actuator dynamics, limits, equalities, friction loss, tendons, fluid, eulerdamp flag) stepped 3 times in "
              "lock-step with mj_step from a random state. distinct = distinct behaviour / configuration")
  for rk in ("FALSE", "TRUE"):
    ctx.tlc("MC_Integrate", f"MC_Integrate_{rk}.cfg", timeout=900)
  nbeh = 12 if ctx.quick else 120
  work = []
  for i, integ in enumerate(INTEGRATORS):
    r = ctx.tlc("Gen_Integrate", "Gen_Integrate.cfg", gen=gen(integ == "RK4", 25), workers=1, simulate=f"num={nbeh}", depth=24, seed=(ctx.seed + i) % (1 << 30), timeout=600)
    behs = r.emit("beh")
    for bh in behs:
      ctx.case({"integrator": integ, "ops": [s["op"] for s in bh][:6]}, key=(integ, [s["op"] for s in bh]))
    ctx.traces_validated += len(behs)
    work.append((integ, behs))
  for res in core.pmap(_lattice_chunk, work, nproc=4):
    for key, msg, scen in res:
      if key == "MACHINERY":
        raise RuntimeError(msg)
      ctx.violation(key, msg, scen)
  n = 240 if ctx.quick else 3000
  recs = family.sample(ctx, n, maxbody=5, joints=JOINTS, geoms=GEOMS, feats=FEATS, maxfeat=6, integrators=INTEGRATORS, qclasses=("rand", "unnorm"), vclasses=("rand",))
  ctx.traces_validated += len(recs)
  parity.run(ctx, __name__, "compare", recs, nworld=2, opts={"tol": 2e-4, "nsteps": 3}, what="state after step() differs from mj_step")
  ctx.assumptions += ["lattice: dt 1/4, unit masses, integer controls, no gravity; reference half: MuJoCo C oracle, 2e-4*k relative after k steps (10x for "
                      "qacc_warmstart, a solver output); scenarios in which MuJoCo itself raises a warning are skipped and counted"]


def replay(ctx, scen):
  run(ctx)


META = {
  "text": "Integrate.tla models step() on an exactly representable lattice (semi-implicit Euler family, RK4 with constant force, activation lag, time "
          "and warmstart updates); TLC checks it exhaustively to depth 6 and emits depth-24 behaviours that step() must reproduce exactly for all four "
          "integrators (three-way with mj_step). ModelFamily.tla configurations x integrators x features are stepped in lock-step with mj_step.",
  "note": "lattice part exact (2e-6); general part differential against MuJoCo C at 2e-4*k relative over TLC-generated configurations; contacts are exercised under C04-C06",
  "technique": "TLA+ lattice integrator spec (Integrate.tla) model-checked with TLC + behaviour replay; ModelFamily.tla enumeration with MuJoCo C oracle",
}
