"""C22  Jacobians are consistent with positions and velocities  (ModelFamily.tla configurations; runtime identities)."""

from __future__ import annotations

import numpy as np

from .. import core, efc, family, parity
from . import c05

LEVEL = "exploration"
FEATS = c05.FEATS + ("site", "act_tendon", "act_site", "act_slidercrank", "wrap")


def _lengths(mjw, m, d):
  mjw.kinematics(m, d)
  mjw.com_pos(m, d)
  mjw.tendon(m, d)
  mjw.transmission(m, d)
  return d.ten_length.numpy().astype(np.float64).copy(), d.actuator_length.numpy().astype(np.float64).copy(), d.xpos.numpy().astype(np.float64).copy(), d.xmat.numpy().astype(np.float64).copy()


def compare(rec, b, mjm, mjd, m, d, cmp, opts):
  import mujoco
  import warp as wp

  import mujoco_warp as mjw

  if mjm.nv == 0:
    return "skip:nv0"
  c05.forward_both(mjm, mjd, m, d)
  nworld = d.nworld
  qvel = np.array(mjd.qvel)
  # (1) each row: J qvel = efc.vel   (rows and velocities of MJWarp itself)
  got = mujoco.MjData(mjm)
  for w in range(nworld):
    mjw.get_data_into(got, mjm, d, world_id=w)
    if got.nefc:
      J = efc.dense_J(mjm, got)
      cmp.close("efc_J*qvel=efc_vel", J @ qvel, np.array(got.efc_vel), 2e-4, scale=float(np.abs(J).max() * np.abs(qvel).max()))
  # (2) point Jacobians vs mj_jac
  rng = family.rng_for(rec["c"], opts.get("seed", 0), "jac")
  body = int(rng.integers(1, mjm.nbody))
  point = np.array(mjd.xpos[body]) + rng.uniform(-0.2, 0.2, size=3)
  jp, jr = np.zeros((3, mjm.nv)), np.zeros((3, mjm.nv))
  mujoco.mj_jac(mjm, mjd, jp, jr, point, body)
  wjp = wp.zeros((nworld, 3, mjm.nv), dtype=float)
  wjr = wp.zeros((nworld, 3, mjm.nv), dtype=float)
  mjw.jac(m, d, wjp, wjr, wp.array(np.tile(point.astype(np.float32), (nworld, 1)), dtype=wp.vec3), wp.array(np.full(nworld, body, dtype=np.int32), dtype=int))
  for w in range(nworld):
    cmp.close("jacp", wjp.numpy()[w], jp, 1e-4)
    cmp.close("jacr", wjr.numpy()[w], jr, 1e-4)
  # (3) derivatives of lengths and positions along qvel (central differences through MJWarp's own kinematics, positions advanced with mj_integratePos)
  eps = 2e-3
  q0 = np.array(mjd.qpos)
  vals = []
  for sgn in (+1, -1):
    q = q0.copy()
    mujoco.mj_integratePos(mjm, q, qvel, sgn * eps)
    d2 = mjw.make_data(mjm, nworld=1)
    wp.copy(d2.qpos, wp.array(q.astype(np.float32).reshape(1, -1), dtype=float))
    wp.copy(d2.mocap_pos, d.mocap_pos.numpy()[:1] if False else wp.array(d.mocap_pos.numpy()[:1], dtype=wp.vec3))
    wp.copy(d2.mocap_quat, wp.array(d.mocap_quat.numpy()[:1], dtype=wp.quat))
    vals.append(_lengths(mjw, m, d2))
  fd_ten = (vals[0][0][0] - vals[1][0][0]) / (2 * eps)
  fd_act = (vals[0][1][0] - vals[1][1][0]) / (2 * eps)
  fd_pos = (vals[0][2][0][body] - vals[1][2][0][body]) / (2 * eps)
  vs = max(1.0, float(np.abs(qvel).max()))
  if mjm.ntendon:
    cmp.close("d(ten_length)/dt=ten_velocity", d.ten_velocity.numpy()[0], fd_ten, 3e-3, scale=vs)
  if mjm.nu:
    # a site transmission without refsite (and a body transmission) has length 0 by definition although its moment is not zero
    T = mujoco.mjtTrn
    haslen = np.array([not ((mjm.actuator_trntype[u] == T.mjTRN_SITE and mjm.actuator_trnid[u, 1] < 0) or mjm.actuator_trntype[u] == T.mjTRN_BODY) for u in range(mjm.nu)])
    if haslen.any():
      sc = np.array([mjm.actuator_trntype[u] == T.mjTRN_SLIDERCRANK for u in range(mjm.nu)])
      if (haslen & ~sc).any():
        cmp.close("d(actuator_length)/dt=actuator_velocity", d.actuator_velocity.numpy()[0][haslen & ~sc], fd_act[haslen & ~sc], 3e-3, scale=vs)
      if sc.any():  # slider-crank length has a square root: the finite difference is only accurate to a few percent near its singular poses
        cmp.close("d(slidercrank_length)/dt=actuator_velocity", d.actuator_velocity.numpy()[0][sc], fd_act[sc], 5e-2, scale=vs)
  jb = np.zeros((3, mjm.nv))
  mujoco.mj_jac(mjm, mjd, jb, None, np.array(mjd.xpos[body]), body)
  wjb = wp.zeros((nworld, 3, mjm.nv), dtype=float)
  mjw.jac(m, d, wjb, None, wp.array(np.tile(np.array(mjd.xpos[body]).astype(np.float32), (nworld, 1)), dtype=wp.vec3), wp.array(np.full(nworld, body, dtype=np.int32), dtype=int))
  cmp.close("jacp*qvel=d(xpos)/dt", wjb.numpy()[0] @ qvel, fd_pos, 3e-3, scale=vs)


def dense_vs_sparse(rec, b, mjm, mjd, m, d, cmp, opts):
  """the same model compiled with jacobian=dense and jacobian=sparse gives the same step"""
  import mujoco
  import warp as wp

  import mujoco_warp as mjw

  if mjm.nv == 0:
    return "skip:nv0"
  out = {}
  for jac in ("dense", "sparse"):
    x = b.xml.replace(f'jacobian="{rec["c"]["jacobian"]}"', f'jacobian="{jac}"')
    mm = mujoco.MjModel.from_xml_string(x)
    m2 = mjw.put_model(mm)
    d2 = mjw.make_data(mm, nworld=1)
    for f in ("qpos", "qvel", "ctrl", "act"):
      wp.copy(getattr(d2, f), wp.array(getattr(d, f).numpy()[:1], dtype=float))
    mjw.step(m2, d2)
    if d2.overflow.numpy().any():
      return "skip:overflow"
    out[jac] = (d2.qpos.numpy()[0].copy(), d2.qvel.numpy()[0].copy(), d2.qacc.numpy()[0].copy())
  sc = max(1.0, float(np.abs(out["dense"][2]).max()))
  cmp.close("dense_vs_sparse:qpos", out["sparse"][0], out["dense"][0], 2e-4)
  cmp.close("dense_vs_sparse:qvel", out["sparse"][1], out["dense"][1], 2e-4, scale=2e-2 * sc)
  cmp.close("dense_vs_sparse:qacc", out["sparse"][2], out["dense"][2], 2e-2)


def run(ctx: core.Ctx):
  ctx.rule = ("ModelFamily.tla configurations (constraints of every kind, tendons incl. wrapping, tendon/site/slider-crank actuators), random state: "
              "(1) efc.J qvel = efc.vel for every row of every world, (2) jac() vs mj_jac at a random body point, (3) ten_velocity / "
              "actuator_velocity / jacp*qvel vs central differences of ten_length / actuator_length / xpos along qvel (positions advanced with "
              "mj_integratePos, lengths recomputed by MJWarp's own kinematics), (4) the same model with dense and sparse Jacobian gives the same step")
  n = 200 if ctx.quick else 2500
  recs = family.sample(ctx, n, seed_off=22, maxbody=5, joints=c05.JOINTS, geoms=c05.GEOMS, feats=FEATS, maxfeat=8, cones=("pyramidal", "elliptic"),
                       jacobians=("dense", "sparse"), qclasses=("rand",), vclasses=("rand",))
  ctx.traces_validated = len(recs)
  parity.run(ctx, __name__, "compare", recs, nworld=2, opts={"tol": 1e-4, "vscale": 0.5, "seed": ctx.seed}, what="Jacobian inconsistent with positions / velocities")
  parity.run(ctx, __name__, "dense_vs_sparse", recs[: len(recs) // 2], nworld=1, opts={"tol": 2e-4, "vscale": 0.5}, what="dense and sparse Jacobian settings give different steps",
             key_extra={"part": "dense_vs_sparse"})
  ctx.assumptions += ["finite differences with eps = 2e-3 in float32 kinematics: 3e-3 relative to max(1, |qvel|); MuJoCo C for mj_jac and mj_integratePos"]


def replay(ctx, scen):
  run(ctx)


META = {
  "text": "On TLC-generated configurations the identities that tie Jacobians to positions and velocities are evaluated on the real outputs: J qvel "
          "= efc.vel per row, jac() = mj_jac, tendon/actuator/point velocities = finite differences of lengths/positions along qvel, and dense vs "
          "sparse Jacobian layouts give the same step.",
  "note": "numeric identities; the specification contributes the configuration space",
  "technique": "TLA+ model family (ModelFamily.tla) enumerated by TLC; spec->code replay with runtime identities and MuJoCo C (mj_jac)",
}
