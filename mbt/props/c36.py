"""C36  Results do not depend on what else ran in the process  (KernelCache.tla; programs in fresh processes; cache-key trace validation)."""

from __future__ import annotations

import concurrent.futures as cf
import json
import os
import tempfile

from .. import core, tlc
from ..scenes import rows_scene

LEVEL = "model_checking"

BOXES = """<mujoco><option {opt}>{flag}</option><worldbody><geom type="plane" size="5 5 .1"/>
 <body pos="0 0 0.099"><freejoint/><geom type="box" size="0.1 0.1 0.1"/></body>
 <body pos="0.05 0.02 0.29"><freejoint/><geom type="box" size="0.1 0.1 0.1"/></body>
 <body pos="1 0 0.09"><freejoint/><geom type="sphere" size="0.1"/></body>
 <body pos="1.15 0 0.12"><freejoint/><geom type="capsule" size="0.05 0.1"/></body></worldbody></mujoco>"""


def catalogue():
  """model configurations that differ in static kernel-specialisation arguments and in primitive dispatch sets"""
  return [
    ("boxes_nativeccd_off", BOXES.format(opt="", flag='<flag nativeccd="disable"/>'), {}),
    ("boxes_default", BOXES.format(opt="", flag=""), {}),
    ("boxes_elliptic_sparse", BOXES.format(opt='cone="elliptic" jacobian="sparse"', flag=""), {}),
    ("rows_dense_newton", rows_scene([3, 1], connects=1, hinges=2, hinge_limit=True, hinge_friction=True), {}),
    ("rows_sparse_cg", rows_scene([4, 3, 3], welds=1, hinges=1, jointeqs=0, cone="elliptic", jacobian="sparse", solver="CG", chain=3), {}),
    ("rows_sleep", rows_scene([3, 3], hinges=1, sleep=True), {}),
    ("boxes_small_capacity", BOXES.format(opt="", flag=""), {"nconmax": 24, "njmax": 80}),
    # numeric specialisation arguments: the largest contact dimension of the model (elliptic, sparse Newton: cone Hessian blocks sized by it)
    ("boxes_elliptic_sparse_condim4", BOXES.format(opt='cone="elliptic" jacobian="sparse"', flag="").replace("<worldbody>", '<default><geom condim="4"/></default><worldbody>'), {}),
    ("boxes_elliptic_sparse_condim6", BOXES.format(opt='cone="elliptic" jacobian="sparse"', flag="").replace("<worldbody>", '<default><geom condim="6"/></default><worldbody>'), {}),
  ]


RUNNER = r"""
import sys, json, hashlib
import numpy as np, mujoco, warp as wp
wp.config.log_level = wp.LOG_WARNING
import mujoco_warp as mjw
from mujoco_warp._src import warp_util
prog = json.loads(sys.argv[1]); record = sys.argv[2] == "1"
events = []
if record:
  # every cache_kernel-decorated builder (module attributes of mujoco_warp._src.*) is re-bound to a logging wrapper: one event per LOOKUP with the
  # key computed exactly as cache_kernel computes it and a description of the builder and its arguments
  import importlib, pkgutil, functools
  import mujoco_warp._src as _src

  def _hash_arg(a):
    if hasattr(a, "size"):
      return a.size
    if isinstance(a, list):
      return hash(tuple(a))
    return hash(a)

  def _desc(a):
    if isinstance(a, (bool, int, float, str)) or a is None:
      return repr(a)
    if hasattr(a, "item") and getattr(a, "shape", None) == ():
      return f"{type(a).__name__}({a.item()!r})"
    if isinstance(a, (list, tuple)):
      return "[" + ",".join(_desc(x) for x in a) + "]"
    if hasattr(a, "name") and hasattr(a, "value"):
      return f"{type(a).__name__}.{a.name}"
    return getattr(a, "__qualname__", None) or (f"{type(a).__name__}#{a.size}" if hasattr(a, "size") else type(a).__name__ + ":" + repr(a)[:80])

  def _log(fn):
    inner = fn.__wrapped__
    @functools.wraps(fn)
    def w(*args):
      key = tuple(_hash_arg(x) for x in args) + (hash(inner.__name__),)
      events.append([repr(key), f"{inner.__module__.split('.')[-1]}.{inner.__qualname__}(" + ", ".join(_desc(x) for x in args) + ")"])
      return fn(*args)
    return w

  for mi in pkgutil.iter_modules(_src.__path__):
    if mi.name.endswith("_test"):
      continue
    mod = importlib.import_module("mujoco_warp._src." + mi.name)
    for nm, obj in list(vars(mod).items()):
      if callable(obj) and hasattr(obj, "__wrapped__") and getattr(getattr(obj, "__code__", None), "co_filename", "").endswith("warp_util.py") and obj.__code__.co_name == "wrapper" and "func" in obj.__code__.co_freevars:
        setattr(mod, nm, _log(obj))
out = []
for name, xml, kw in prog:
  mjm = mujoco.MjModel.from_xml_string(xml)
  m = mjw.put_model(mjm)
  d = mjw.make_data(mjm, nworld=2, **kw)
  for _ in range(4):
    mjw.step(m, d)
  h = hashlib.sha1()
  for a in (d.qpos, d.qvel, d.qacc, d.nefc, d.nacon, d.overflow):
    h.update(np.ascontiguousarray(a.numpy()).tobytes())
  nacon = int(d.nacon.numpy()[0])
  out.append({"name": name, "hash": h.hexdigest(), "nacon": nacon, "nefc": d.nefc.numpy().tolist(), "qacc0": d.qacc.numpy()[0][:3].tolist()})
keys = events
print("RESULT" + json.dumps({"out": out, "keys": keys}))
"""


def run_prog(prog, record=False):
  p = core.run_isolated(RUNNER.replace("sys.argv[1]", "sys.argv[1]"), timeout=900, envs={}) if False else None
  import subprocess, sys

  e = dict(os.environ)
  e["PYTHONPATH"] = core.REPO + os.pathsep + core.VERIF + os.pathsep + e.get("PYTHONPATH", "")
  r = subprocess.run([sys.executable, "-c", RUNNER, json.dumps(prog), "1" if record else "0"], capture_output=True, text=True, timeout=900, env=e, cwd="/")
  line = [l for l in r.stdout.splitlines() if l.startswith("RESULT")]
  if r.returncode != 0 or not line:
    return {"crash": r.returncode, "stderr": r.stderr[-800:]}
  return json.loads(line[0][6:])


def gen(maxlen, n):
  mod = "---- MODULE Gen_KernelCache ----\nEXTENDS MC_KernelCache\nGConfigs == {[id |-> i, prim |-> {}, calls |-> {}] : i \\in 0..%d}\n====\n" % (n - 1)
  cfg = f"""CONSTANTS
  Configs <- GConfigs
  MaxLen = {maxlen}
  Dispatch = "local"
  Emit = TRUE
SPECIFICATION Spec
INVARIANT EmitProg
"""
  return {"Gen_KernelCache.tla": mod, "Gen_KernelCache.cfg": cfg}


def run(ctx: core.Ctx):
  ctx.rule = ("KernelCache.tla: TLC checks DispatchIndependent and KeyInjective over every program of <= 3 model configurations (and shows the as-found "
              "process-global dispatch list violates DispatchIndependent). TLC enumerates the programs (sequences over a catalogue of 9 configurations "
              "differing in nativeccd, cone, Jacobian layout, solver, sleeping, capacities, largest contact dimension); each program runs in a FRESH interpreter and the last "
              "model's results (hash of qpos/qvel/qacc/nefc/nacon/overflow after 4 steps, 2 worlds) must equal those of the same model run alone; "
              "the kernel-cache keys of a process that ran the whole catalogue are validated by TLC (CacheTrace.tla)")
  ctx.tlc("MC_KernelCache", "MC_KernelCache_local.cfg", timeout=600)
  r = ctx.tlc("MC_KernelCache", "MC_KernelCache_global.cfg", timeout=600, allow_violation=True)
  ctx.extra["design_flaw_demo"] = {"cfg": "MC_KernelCache_global.cfg (as-found: module-level dispatch list that only grows)", "tlc_violates": r.violated}
  cat = catalogue()
  n = len(cat)
  maxlen = 2 if ctx.quick else 3
  r = ctx.tlc("Gen_KernelCache", "Gen_KernelCache.cfg", gen=gen(maxlen, n), timeout=600)
  progs = [p for p in r.emit("prog")]
  progs = [p for p in progs if len(set(p)) > 1]  # the last model must have a different predecessor
  if ctx.quick:
    progs = progs[:: max(1, len(progs) // 30)]
  with cf.ThreadPoolExecutor(max_workers=10) as ex:
    alone = dict(zip(range(n), ex.map(lambda i: run_prog([cat[i]]), range(n))))
    res = list(ex.map(lambda p: run_prog([cat[i] for i in p]), progs))
  for i, a in alone.items():
    if "crash" in a:
      raise RuntimeError(f"model {cat[i][0]} alone crashed: {a}")
  for p, rr in zip(progs, res):
    names = [cat[i][0] for i in p]
    ctx.case({"program": names}, key=names)
    where = {"program": names}
    if "crash" in rr:
      ctx.violation({"what": "process crashed", "last": names[-1]}, json.dumps(rr)[:600], where)
      continue
    last, ref = rr["out"][-1], alone[p[-1]]["out"][0]
    if last["hash"] != ref["hash"]:
      ctx.violation({"what": "result depends on models simulated earlier in the process", "last": names[-1],
                     "channel": "contacts" if last["nacon"] != ref["nacon"] else "values"},
                    f"after {names[:-1]}: nacon {last['nacon']} nefc {last['nefc']} qacc {last['qacc0']}; alone: nacon {ref['nacon']} nefc {ref['nefc']} qacc {ref['qacc0']}", where)
  ctx.traces_validated = len(progs)
  # cache-key trace of a process that ran everything
  full = run_prog(cat, record=True)
  if "crash" in full:
    raise RuntimeError(f"catalogue process crashed: {full}")
  ev = [{"key": k, "desc": dsc} for k, dsc in full["keys"]]
  fd, path = tempfile.mkstemp(suffix=".json", dir=os.path.join(tlc.VERIF, ".cache", "tlc"))
  with os.fdopen(fd, "w") as f:
    json.dump(ev, f)
  try:
    r = ctx.tlc("CacheTrace", "CacheTrace.cfg", env={"TRACE_FILE": path}, workers=1, allow_violation=True, timeout=600)
  finally:
    os.unlink(path)
  bad = r.emit("bad")[0] if r.emit("bad") else {"bad": []}
  ctx.extra["cache_keys_recorded"] = len(ev)
  for k in bad.get("bad", []):
    ctx.violation({"what": "kernel cache key shared by different specialisations"}, str(k)[:300], {"key": k})
  ctx.assumptions += ["each program runs in its own interpreter with the shared on-disk Warp kernel cache (content-addressed by module hash)"]


def replay(ctx, scen):
  run(ctx)


META = {
  "text": "KernelCache.tla models the process-wide kernel cache (key function as the code computes it) and the primitive-narrowphase dispatch list; "
          "TLC checks that after any program prefix the current model is served kernels built for exactly its arguments and dispatches exactly its "
          "own pair types. Every TLC-enumerated program is executed in a fresh interpreter and the last model's results compared bitwise with the "
          "same model alone; recorded cache keys are validated by TLC for injectivity.",
  "note": "catalogue of 7 configurations; programs of length 2 (quick) / 3 (thorough); bitwise comparison on CPU",
  "technique": "TLA+ model of process-global caches (KernelCache.tla) model-checked with TLC + spec->code replay of TLC-enumerated programs in fresh processes + TLC validation of recorded cache keys",
}
