"""C26  Forward and inverse dynamics are consistent  (ModelFamily.tla configurations)."""

from __future__ import annotations

import numpy as np

from .. import core, family, parity
from . import c05

LEVEL = "exploration"


def compare(rec, b, mjm, mjd, m, d, cmp, opts):
  import mujoco
  import warp as wp

  import mujoco_warp as mjw

  if mjm.nv == 0:
    return "skip:nv0"
  discrete = bool(mjm.opt.enableflags & mujoco.mjtEnableBit.mjENBL_INVDISCRETE)
  mujoco.mj_forward(mjm, mjd)
  mjw.forward(m, d)
  if d.overflow.numpy().any() or mjd.warning.number.any():
    return "skip:overflow_or_warning"
  # applied + Cartesian-applied + actuator forces, from MuJoCo C (float64)
  expected = np.array(mjd.qfrc_applied) + np.array(mjd.qfrc_actuator)
  tmp = np.zeros(mjm.nv)
  for bid in range(1, mjm.nbody):
    if np.any(mjd.xfrc_applied[bid]):
      mujoco.mj_applyFT(mjm, mjd, mjd.xfrc_applied[bid, :3], mjd.xfrc_applied[bid, 3:], mjd.xipos[bid], bid, tmp)
  expected = expected + tmp
  fs = max([1.0] + [float(np.abs(x).max()) for x in (mjd.qfrc_constraint, mjd.qfrc_bias, mjd.qfrc_passive) if x.size])
  if mjd.nefc:
    # qfrc_constraint is a sum of row forces that may cancel (a deeply embedded box on a hinge: 5e6 N of contact force, 0.1 N m net):
    # float32 resolves it relative to the terms, not to the sum
    from .. import efc

    fs = max(fs, float((np.abs(efc.dense_J(mjm, mjd)).T @ np.abs(np.array(mjd.efc_force))).max()) * 5e-5)  # 2e-2 * 5e-5 = 1e-6 of the terms: a few float32 ulps
  if not discrete:
    mjw.inverse(m, d)
    for w in range(d.nworld):
      cmp.close("qfrc_inverse", d.qfrc_inverse.numpy()[w], expected, 2e-2, scale=fs)
    return
  # discrete-time inverse: the acceleration the step actually used is (qvel' - qvel) / dt
  st0 = {k: getattr(d, k).numpy().copy() for k in ("qpos", "qvel", "act", "time", "qacc_warmstart")}
  mjw.step(m, d)
  qacc_disc = (d.qvel.numpy() - st0["qvel"]) / mjm.opt.timestep
  for k, v in st0.items():
    wp.copy(getattr(d, k), wp.array(v, dtype=float))
  mjw.forward(m, d)
  wp.copy(d.qacc, wp.array(qacc_disc.astype(np.float32), dtype=float))
  mjw.inverse(m, d)
  for w in range(d.nworld):
    cmp.close("qfrc_inverse(discrete)", d.qfrc_inverse.numpy()[w], expected, 3e-2, scale=fs)


def run(ctx: core.Ctx):
  ctx.rule = ("ModelFamily.tla configurations (contacts, limits, friction loss, equalities, actuators, applied generalized and Cartesian forces) x "
              "integrator in {Euler, implicitfast} x invdiscrete flag on/off: after forward(), inverse() must return qfrc_applied + J^T xfrc_applied + "
              "qfrc_actuator (computed by MuJoCo C in float64); with invdiscrete the acceleration fed to inverse() is (qvel_next - qvel)/dt of the "
              "real step from the same state")
  n = 200 if ctx.quick else 2500
  recs = family.sample(ctx, n, seed_off=26, maxbody=4, joints=c05.JOINTS, geoms=c05.GEOMS,
                       feats=("floor", "jlimit", "frictionloss", "eq_connect", "eq_joint", "damper", "spring", "armature", "act_motor", "act_position", "applied", "invdiscrete",
                              "tendon_fixed", "gravcomp"), maxfeat=6, integrators=("Euler", "implicitfast"), cones=("pyramidal", "elliptic"), qclasses=("near", "zero"), vclasses=("rand", "zero"))
  ctx.traces_validated = len(recs)
  parity.run(ctx, __name__, "compare", recs, nworld=2, opts={"tol": 2e-2, "vscale": 0.3}, what="inverse dynamics does not return the applied forces")
  # unconstrained models at LARGE velocities with velocity-dependent passive forces: the discrete-time correction of the Euler / implicitfast
  # step (derivative of polynomial joint and tendon damping, armature) is then far above the solver's residual
  fast = family.sample(ctx, n // 2, seed_off=126, maxbody=4, joints=c05.JOINTS, geoms=c05.GEOMS,
                       feats=("damper", "poly", "spring", "armature", "act_motor", "applied", "invdiscrete", "tendon_fixed", "tendon_spring"), maxfeat=6,
                       integrators=("Euler", "implicitfast"), cones=("pyramidal",), qclasses=("near",), vclasses=("rand",))
  fast = [x for x in fast if "invdiscrete" in x["c"]["feats"] and "damper" in x["c"]["feats"]]
  ctx.traces_validated += len(fast)
  ctx.extra["discrete_inverse_large_velocity_cases"] = len(fast)
  if len(fast) < 5:
    raise RuntimeError("vacuous: too few discrete-inverse configurations with damping")
  parity.run(ctx, __name__, "compare", fast, nworld=2, opts={"tol": 2e-2, "vscale": 3.0}, what="inverse dynamics does not return the applied forces")
  ctx.assumptions += ["tolerance 2e-2 (3e-2 discrete) relative to the largest constraint / bias / passive force: the forward solver's float32 residual"]


def replay(ctx, scen):
  run(ctx)


META = {
  "text": "On TLC-generated configurations forward() is followed by inverse() on the same Data: qfrc_inverse must equal the applied, "
          "Cartesian-applied and actuator generalized forces (reference in float64 from MuJoCo C), and with the discrete-time inverse enabled the "
          "same must hold for the acceleration the real Euler / implicitfast step used.",
  "note": "numeric round-trip; the specification contributes the configuration space",
  "technique": "TLA+ model family (ModelFamily.tla) enumerated by TLC; spec->code replay of the forward/inverse round trip",
}
