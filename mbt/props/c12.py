"""C12  Next step depends only on the integration state  (Pipeline.tla: CopyState + histories)."""

from __future__ import annotations

import numpy as np

from .. import core, pipeline
from . import c13, c37

LEVEL = "model_checking"
OPS = ["step", "copy", "reset", "keyarray"]
PROPS = ("ResetSelected", "KeyframeOK")


def _havoc_chunk(args):
  """Allocator havoc: every wp.empty / wp.empty_like returns memory pre-filled with garbage (NaN or 1e30), as a
  recycled allocation legitimately may; results must be bitwise those of the normal run."""
  import warp as wp

  import mujoco_warp as mjw

  xml, nworld, nsteps, fill = args
  h = pipeline.Harness(xml, nworld)

  def run(havoc):
    d = mjw.make_data(h.mjm, nworld=nworld)
    oe, oel = wp.empty, wp.empty_like
    if havoc:
      def e(*a, **k):
        arr = oe(*a, **k)
        try:
          arr.fill_(fill)
        except Exception:
          pass
        return arr

      def el(*a, **k):
        arr = oel(*a, **k)
        try:
          arr.fill_(fill)
        except Exception:
          pass
        return arr

      wp.empty, wp.empty_like = e, el
    try:
      out = []
      for s in range(nsteps):
        h.set_ctrl(d, [(s + w) % 3 for w in range(nworld)])
        mjw.step(h.m, d)
        out.append((h.state(d), pipeline.derived(h, d)))
    finally:
      wp.empty, wp.empty_like = oe, oel
    return out

  a, b = run(False), run(True)
  bad = []
  for s, ((sa, da), (sb, db)) in enumerate(zip(a, b)):
    if not np.array_equal(sa, sb, equal_nan=True):
      bad.append((s, "state"))
    for n in da:
      if not np.array_equal(da[n], db[n], equal_nan=True):
        bad.append((s, n))
  return bad[:5]


def run(ctx: core.Ctx):
  ctx.rule = ("TLC -simulate behaviours of Pipeline.tla (ops: step, copy integration state of world a into world b via get_state/set_state, reset, "
              "keyframe reset, forward) over 3 worlds, depth 8, 3 models; non-trivial = contains a copy/reset after at least one step; the copied-to "
              "world (dirty derived data, stale rows/contacts) must afterwards follow the reference for its new term bitwise; plus allocator havoc runs")
  c13.run_generic(ctx, OPS, PROPS, c37.models(), depth=8, nbeh_quick=50, nbeh_thorough=500)
  # allocator havoc
  work = []
  from . import c38
  hv = dict(c37.models())
  # sleeping enabled (compacted solver) over dense and sparse Jacobians: first steps have worlds without constraint rows
  hv["sleep_dense"] = c38.scene([6, 3, 1], True).replace("<option ", '<option jacobian="dense" ')
  hv["sleep_sparse"] = c38.scene([6, 3, 1], True).replace("<option ", '<option jacobian="sparse" ')
  for name, xml in hv.items():
    for fill in (float("nan"), 1e30):
      work.append((xml, 2, 3 if ctx.quick else 8, fill))
  res = core.pmap(_havoc_chunk, work, nproc=6)
  for (xml, nworld, nsteps, fill), bad in zip(work, res):
    name = [n for n, x in hv.items() if x == xml][0]
    ctx.case({"havoc": name, "fill": str(fill), "steps": nsteps}, key=("havoc", name, str(fill)))
    if bad:
      ctx.violation(dict(what="result depends on the contents of freshly allocated scratch memory", model=name, field=bad[0][1]),
                    f"fill={fill}: first differences (step, field): {bad}", {"model": name, "fill": str(fill)})
  ctx.assumptions += ["histories are produced through the public API only; sleeping disabled; no overflow bit in these scenes"]


def replay(ctx, scen):
  run(ctx)


META = {
  "text": "TLC generates API histories from Pipeline.tla in which a world's integration state is copied into another world that has a different "
          "past (get_state/set_state of mjSTATE_INTEGRATION), mixed with steps, resets, keyframe resets and forwards; every later step of the dirty "
          "world must equal bitwise the reference evaluation of its new term on a fresh Data.  A second history dimension interposes wp.empty to return "
          "NaN / 1e30 filled scratch memory and requires bitwise identical results.",
  "note": "3 models (rich Euler, rich implicitfast, equalities+contacts+limits+friction); histories limited to depth 8",
  "technique": "TLA+ API state machine (Pipeline.tla) model-checked with TLC + spec->code behaviour replay against a term-evaluating reference",
}
