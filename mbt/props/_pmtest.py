def f(x):
  if x == 4:
    import ctypes

    ctypes.string_at(0)
  return x * x
