"""Run TLC on a module under /verif/spec and parse what it reports.

The specs emit scenarios / behaviours / verdicts with
  PrintT(<<"EMIT", tag, ToJson(value)>>)      (tag is a string)
which TLC prints as   <<"EMIT", "tag", "{...json with escaped quotes...}">>
"""

from __future__ import annotations

import json
import os
import re
import shutil
import subprocess
import tempfile
import time
from dataclasses import dataclass, field
from typing import Any, Dict, List, Optional

VERIF = os.path.dirname(os.path.dirname(os.path.abspath(__file__)))
SPEC = os.path.join(VERIF, "spec")
JAR = "/opt/veriftools/tla/tla2tools.jar:/opt/veriftools/tla/CommunityModules-deps.jar"


class TLCError(RuntimeError):
  """Machinery failure (parse error, TLC crash, timeout) - never a property verdict."""


@dataclass
class TLCResult:
  module: str
  cfg: str
  ok: bool  # no invariant/property violation, finished
  generated: int = 0
  distinct: int = 0
  depth: int = 0
  wall_s: float = 0.0
  emits: Dict[str, List[Any]] = field(default_factory=dict)
  violated: Optional[str] = None  # name of violated invariant / property
  coverage: Dict[str, int] = field(default_factory=dict)  # action -> count (distinct states)
  stdout: str = ""
  cmd: str = ""

  def emit(self, tag: str) -> List[Any]:
    return self.emits.get(tag, [])


_EMIT_RE = re.compile(r'^<<"EMIT", "([^"]*)", "(.*)">>$')
_STATS_RE = re.compile(r"(\d+) states generated, (\d+) distinct states found")
_DEPTH_RE = re.compile(r"depth of the complete state graph search is (\d+)")
_COV_RE = re.compile(r"^<(\w+) line \d+, col \d+ to line \d+, col \d+ of module (\w+)>: (\d+):(\d+)")


def _unescape(s: str) -> str:
  # TLC prints a TLA+ string literal: backslash escapes for \" and \\ (and \n, \t)
  out = []
  i = 0
  while i < len(s):
    c = s[i]
    if c == "\\" and i + 1 < len(s):
      n = s[i + 1]
      out.append({"n": "\n", "t": "\t", '"': '"', "\\": "\\"}.get(n, "\\" + n))
      i += 2
    else:
      out.append(c)
      i += 1
  return "".join(out)


def run(
  module: str,
  cfg: Optional[str] = None,
  *,
  workers: int = 16,
  simulate: Optional[str] = None,  # e.g. "num=200"
  depth: Optional[int] = None,
  seed: Optional[int] = None,
  timeout: int = 900,
  coverage: bool = False,
  env: Optional[Dict[str, str]] = None,
  deadlock: bool = False,
  extra: Optional[List[str]] = None,
  allow_violation: bool = False,
  jvm: Optional[List[str]] = None,
  heap: str = "8g",
  gen: Optional[Dict[str, str]] = None,  # generated files (wrapper module + cfg) written to a scratch dir
) -> TLCResult:
  """Run TLC; raises TLCError on machinery failure; result.ok False on a violated property."""
  cfg = cfg or module + ".cfg"
  meta = tempfile.mkdtemp(prefix="tlc-", dir=os.path.join(VERIF, ".cache", "tlc"))
  cwd = SPEC
  cmd = ["java", "-XX:+UseParallelGC", "-Xmx" + heap, "-Djava.io.tmpdir=" + meta] + (jvm or [])
  if gen:
    cwd = os.path.join(meta, "gen")
    os.makedirs(cwd)
    for name, content in gen.items():
      with open(os.path.join(cwd, name), "w") as f:
        f.write(content)
    cmd += ["-DTLA-Library=" + SPEC]
  cmd += ["-cp", JAR, "tlc2.TLC"]
  cmd += ["-workers", str(workers), "-noGenerateSpecTE", "-metadir", meta, "-config", cfg]
  if not deadlock:
    cmd += ["-deadlock"]
  if simulate is not None:
    cmd += ["-simulate", simulate]
  if depth is not None:
    cmd += ["-depth", str(depth)]
  if seed is not None:
    cmd += ["-seed", str(seed)]
  if coverage:
    cmd += ["-coverage", "1"]
  cmd += (extra or []) + [module]
  e = dict(os.environ)
  e.update(env or {})
  t0 = time.time()
  try:
    p = subprocess.run(cmd, cwd=cwd, env=e, capture_output=True, text=True, timeout=timeout)
  except subprocess.TimeoutExpired as ex:
    shutil.rmtree(meta, ignore_errors=True)
    raise TLCError(f"TLC timeout after {timeout}s on {module}/{cfg}") from ex
  finally:
    pass
  shutil.rmtree(meta, ignore_errors=True)
  out = p.stdout
  res = TLCResult(module=module, cfg=cfg, ok=True, wall_s=time.time() - t0, stdout=out, cmd=" ".join(cmd))
  for line in out.splitlines():
    m = _EMIT_RE.match(line)
    if m:
      try:
        res.emits.setdefault(m.group(1), []).append(json.loads(_unescape(m.group(2))))
      except json.JSONDecodeError as ex:
        raise TLCError(f"bad EMIT json from {module}: {line[:200]}") from ex
      continue
    m = _STATS_RE.search(line)
    if m:
      res.generated, res.distinct = int(m.group(1)), int(m.group(2))
    m = _DEPTH_RE.search(line)
    if m:
      res.depth = int(m.group(1))
    m = _COV_RE.match(line)
    if m:
      res.coverage[m.group(1)] = res.coverage.get(m.group(1), 0) + int(m.group(3))
  if simulate is not None and res.generated == 0:
    m = re.search(r"The number of states generated: (\d+)", out)
    if m:
      res.generated = res.distinct = int(m.group(1))
  m = re.search(r"Error: Invariant (\w+) is violated", out)
  if m:
    res.ok, res.violated = False, m.group(1)
  m = re.search(r"Error: The invariant of (\w+) is equal to FALSE", out)  # constant-level invariant (trace validation specs)
  if m:
    res.ok, res.violated = False, m.group(1)
  m = re.search(r"Error: Action property (\w+) is violated", out)
  if m:
    res.ok, res.violated = False, m.group(1)
  if "Temporal properties were violated" in out:
    res.ok, res.violated = False, "temporal"
  if "Error: Postcondition" in out or "Error: The postcondition" in out or "violated the postcondition" in out.lower():
    res.ok, res.violated = False, "postcondition"
  if res.ok and "Error:" in out and "No error has been found" not in out:
    # any other error is machinery (parse, evaluation, assumption)
    idx = out.index("Error:")
    raise TLCError(f"TLC error on {module}/{cfg}:\n{out[idx : idx + 3000]}")
  if p.returncode != 0 and res.ok:
    if simulate is None or "No error has been found" not in out:
      tail = out[-3000:] + p.stderr[-1500:]
      if simulate is None:
        raise TLCError(f"TLC exit {p.returncode} on {module}/{cfg}:\n{tail}")
  if not res.ok and not allow_violation:
    idx = out.index("Error:")
    raise TLCError(f"spec-level violation of {res.violated} in {module}/{cfg} (spec bug or design bug):\n{out[idx : idx + 4000]}")
  return res


def sany(module: str) -> None:
  p = subprocess.run(["java", "-cp", JAR, "tla2sany.SANY", module + ".tla"], cwd=SPEC, capture_output=True, text=True)
  if p.returncode != 0 or "Semantic errors" in p.stdout or "Parse Error" in p.stdout or "Fatal" in p.stdout:
    raise TLCError(f"SANY failed on {module}:\n{p.stdout[-3000:]}")
