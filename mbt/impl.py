"""Helpers around the implementation under test (mujoco_warp) and the reference (mujoco)."""

from __future__ import annotations

import os
from typing import Any, Dict, Optional

import numpy as np


def quiet_warp():
  import warp as wp

  wp.config.log_level = wp.LOG_WARNING
  return wp


def load(xml: str, nworld: int = 1, keyframe: Optional[int] = None, **make_kw):
  """Returns mjm, mjd, m, d.  d is made by make_data (not put_data) unless put=True in make_kw."""
  import mujoco

  import mujoco_warp as mjw

  quiet_warp()
  put = make_kw.pop("put", False)
  mjm = mujoco.MjModel.from_xml_string(xml) if xml.lstrip().startswith("<") else mujoco.MjModel.from_xml_path(xml)
  mjd = mujoco.MjData(mjm)
  if keyframe is not None:
    mujoco.mj_resetDataKeyframe(mjm, mjd, keyframe)
  mujoco.mj_forward(mjm, mjd)
  m = mjw.put_model(mjm)
  if put:
    d = mjw.put_data(mjm, mjd, nworld=nworld, **make_kw)
  else:
    d = mjw.make_data(mjm, nworld=nworld, **make_kw)
  return mjm, mjd, m, d


def setarr(arr, value) -> None:
  """Assign a numpy value to a warp array (same shape)."""
  import warp as wp

  a = np.asarray(value)
  cur = arr.numpy()
  a = a.astype(cur.dtype).reshape(cur.shape)
  wp.copy(arr, wp.array(a, dtype=arr.dtype, shape=arr.shape))


def npy(arr) -> np.ndarray:
  return arr.numpy().copy()


def overflow_bits(d) -> np.ndarray:
  return d.overflow.numpy().copy()
