"""Shared replay loop of the reference-oracle checks: ModelFamily configuration -> MJCF -> (MuJoCo C, MJWarp) -> compare."""

from __future__ import annotations

import importlib
import traceback
from typing import Any, Callable, Dict, List

import numpy as np

from . import core, family, refcmp


def chunk(args):
  """worker: args = (module name, function name, records, seed, nworld, opts).
  The property function has signature f(rec, built, mjm, mjd, m, d, cmp, opts) and fills cmp."""
  import mujoco
  import warp as wp

  import mujoco_warp as mjw

  modname, fname, recs, seed, nworld, opts = args
  f = getattr(importlib.import_module(modname), fname)
  out = []
  for rec in recs:
    res = {"rec": rec, "status": "ok", "bad": [], "tables": [], "nfields": 0, "worst": 0.0}
    try:
      b = family.build(rec, seed, axis_aligned=opts.get("axis_aligned", False))
      if opts.get("xml_edit"):
        b.xml = getattr(importlib.import_module(modname), opts["xml_edit"])(rec, b)
      mjm = mujoco.MjModel.from_xml_string(b.xml)
    except Exception as e:  # concretiser produced something the MJCF compiler rejects: not a verdict
      res["status"] = "skip:compile " + str(e)[:200]
      out.append(res)
      continue
    try:
      m = mjw.put_model(mjm)
    except NotImplementedError as e:
      res["status"] = "skip:unsupported " + str(e)[:120]
      out.append(res)
      continue
    mjd = mujoco.MjData(mjm)
    d = mjw.make_data(mjm, nworld=nworld, **opts.get("make_kw", {}))
    if "d" in rec:
      res["tables"] = family.check_tables(rec, mjm, m)
    st = family.make_state(rec, mjm, seed, vscale=opts.get("vscale", 1.0))
    family.apply_state(mjm, mjd, m, d, st)
    cmp = refcmp.Cmp(opts.get("tol", 1e-4))
    try:
      note = f(rec, b, mjm, mjd, m, d, cmp, opts)
    except Exception:
      res["status"] = "exc"
      res["exc"] = traceback.format_exc()[-1500:]
      res["xml"] = b.xml
      out.append(res)
      continue
    if isinstance(note, str) and note.startswith("skip"):
      res["status"] = note
    res["bad"] = cmp.bad
    res["nfields"] = cmp.nfields
    res["worst"] = cmp.worst
    res["worst_name"] = cmp.worst_name
    if cmp.bad or res["tables"]:
      res["xml"] = b.xml
    out.append(res)
  return out


def run(ctx, modname: str, fname: str, recs: List[Dict[str, Any]], nworld: int = 2, opts: Dict[str, Any] = None, nproc: int = 14, what: str = "",
        key_extra: Dict[str, Any] = None) -> None:
  """Fan the records out, account cases, turn mismatches into violations."""
  opts = opts or {}
  CH = max(1, len(recs) // (nproc * 3) + 1)
  work = [(modname, fname, recs[i : i + CH], ctx.seed, nworld, opts) for i in range(0, len(recs), CH)]
  worst = 0.0
  nf = 0
  for res in core.pmap(chunk, work, nproc=nproc):
    for r in res:
      c = r["rec"]["c"] if "c" in r["rec"] else r["rec"]
      scen = {"cfg": c, "seed": ctx.seed, "what": what}
      if r["status"].startswith("skip"):
        ctx.skip(r["status"].split(" ")[0])
        ctx.extra.setdefault("skip_examples", {}).setdefault(r["status"].split(" ")[0], r["status"][:200])
        continue
      if r["status"] == "exc":
        raise RuntimeError(f"harness exception on {c}:\n{r['exc']}\n{r.get('xml', '')[:3000]}")
      ctx.case({"cfg": c}, nontrivial=c["nb"] > 1 or bool(c.get("feats")), key=c)
      if r["worst"] > worst:
        worst = r["worst"]
        ctx.extra["worst_field"] = r.get("worst_name", "")
      nf += r["nfields"]
      for t in r["tables"]:
        ctx.violation(dict(key_extra or {}, what="put_model table differs from ModelFamily.tla", table=t.split(":")[0]), t, dict(scen, xml=r.get("xml")))
      for name in sorted({b[0] for b in r["bad"]}):  # one violation per distinct field, so that a known finding on one field hides no other
        fld, _, cls = name.partition("@")
        ctx.violation(dict(key_extra or {}, what=what or "field differs from MuJoCo C", field=fld, **({"cls": cls} if cls else {})),
                      "; ".join(f"{n}: err {e:.3g} scale {s:.3g}" for n, e, s in r["bad"] if n == name)[:600], dict(scen, xml=r.get("xml")))
  ctx.extra["fields_compared"] = ctx.extra.get("fields_compared", 0) + nf
  ctx.extra["worst_error_over_tolerance"] = round(max(worst, ctx.extra.get("worst_error_over_tolerance", 0.0)), 4)
