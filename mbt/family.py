"""Concretiser for ModelFamily.tla configurations: abstract configuration -> MJCF (+ state), deterministic numeric fill.

A configuration is the JSON record ModelFamily.tla emits:  {"c": cfg, "d": derived tables}.
Every number is drawn from a PRNG keyed by (configuration, seed); nothing depends on wall clock or
global numpy state.  Ranges are chosen well-conditioned (masses 0.1-4, lengths 0.05-0.5).
"""

from __future__ import annotations

import hashlib
import json
from typing import Any, Dict, List, Optional, Tuple

import numpy as np


def rng_for(cfg: Dict[str, Any], seed: int, salt: str = "") -> np.random.Generator:
  h = hashlib.sha256((json.dumps(cfg, sort_keys=True) + f"|{seed}|{salt}").encode()).digest()
  return np.random.default_rng(int.from_bytes(h[:8], "little"))


def _v(a, p=4):
  return " ".join(f"{float(x):.{p}g}" for x in np.atleast_1d(a))


def _unit(r, n=3):
  v = r.normal(size=n)
  return v / np.linalg.norm(v)


def _list(x, nb):
  """TLC functions with domain 1..n are emitted as JSON arrays; make it 1-based."""
  if isinstance(x, dict):
    return [None] + [x[str(i)] for i in range(1, nb + 1)]
  return [None] + list(x)


JOINTS = {
  "weld": [], "free": ["free"], "ball": ["ball"], "hinge": ["hinge"], "slide": ["slide"], "hinge2": ["hinge", "hinge"],
  "slidehinge": ["slide", "hinge"], "ballslide": ["ball", "slide"],
}
CAM_MODES = ["fixed", "track", "trackcom", "targetbody", "targetbodycom"]


class Built:
  """MJCF + bookkeeping the drivers need."""

  def __init__(self):
    self.xml = ""
    self.scalar_joints: List[str] = []  # names of hinge/slide joints
    self.joints: List[Tuple[str, str, int]] = []  # (name, type, body)
    self.feats: List[str] = []
    self.nb = 0


def build(rec: Dict[str, Any], seed: int, axis_aligned: bool = False) -> Built:
  c = rec["c"] if "c" in rec else rec
  r = rng_for(c, seed)
  nb = c["nb"]
  par = _list(c["parent"], nb)
  jn = _list(c["jn"], nb)
  mocap = _list(c["mocap"], nb)
  geom = _list(c["geom"], nb)
  feats = set(c.get("feats", []))
  out = Built()
  out.nb, out.feats = nb, sorted(feats)
  F = feats.__contains__
  collide = F("floor") or F("contacts")

  children = {b: [x for x in range(1, nb + 1) if par[x] == b] for b in range(0, nb + 1)}
  lim_j, lim_t = F("jlimit"), F("tlimit")

  def geom_xml(b):
    g = geom[b]
    s = r.uniform(0.05, 0.12, size=3)
    col = "" if collide else ' contype="0" conaffinity="0"'
    extra = ""
    if F("fluid_ellipsoid") and b % 2 == 1:
      extra += ' fluidshape="ellipsoid"'
    if F("condim"):
      extra += f' condim="{[1, 3, 4, 6][int(r.integers(4))]}"'
    if F("friction"):
      extra += f' friction="{_v(r.uniform(0.3, 1.2))} {_v(r.uniform(0.001, 0.01))} {_v(r.uniform(0.0001, 0.001))}"'
    if F("margin"):
      extra += f' margin="{_v(r.uniform(0.0, 0.02))}" gap="{_v(r.uniform(0.0, 0.005))}"'
    if F("priority") and r.random() < 0.5:
      extra += f' priority="{int(r.integers(0, 3))}"'
    if F("solmix"):
      extra += f' solmix="{_v(r.uniform(0.5, 2))}" solref="{_v(r.uniform(0.01, 0.04))} {_v(r.uniform(0.7, 1.2))}"'
    dens = r.uniform(300, 2000)
    pos = r.uniform(-0.05, 0.05, size=3)
    q = np.array([1.0, 0, 0, 0]) if axis_aligned else _unit(r, 4)
    if g == "sphere":
      sz = _v(s[:1])
    elif g in ("capsule", "cylinder"):
      sz = _v(s[:2])
    else:  # box, ellipsoid
      sz = _v(s)
    second = ""
    if F("fluid_ellipsoid") and b % 2 == 1:
      # a second, non-colliding geom with ellipsoid fluid interaction away from the body frame: the body's fluid force is a sum over geoms, each acting at
      # its own position (own stream of random numbers, so that everything else in the model stays as it was)
      r2 = rng_for(c, seed, f"fluidgeom{b}")
      if r2.random() < 0.6:
        s2 = r2.uniform(0.03, 0.08, size=3)
        q2 = np.array([1.0, 0, 0, 0]) if axis_aligned else _unit(r2, 4)
        second = (f'<geom name="g{b}x" type="ellipsoid" size="{_v(s2)}" pos="{_v(_unit(r2) * r2.uniform(0.1, 0.25))}" quat="{_v(q2)}" density="{_v(r2.uniform(300, 2000))}" '
                  f'contype="0" conaffinity="0" fluidshape="ellipsoid"' + (f' fluidcoef="{_v(r2.uniform(0.3, 1.5, size=5))}"' if r2.random() < 0.5 else "") + "/>")
    return f'<geom name="g{b}" type="{g}" size="{sz}" pos="{_v(pos)}" quat="{_v(q)}" density="{_v(dens)}"{col}{extra}/>' + second

  def joint_xml(b):
    xs = []
    for k, jt in enumerate(JOINTS[jn[b]]):
      name = f"j{b}_{k}"
      out.joints.append((name, jt, b))
      a = ""
      poly = lambda lo, hi: _v(r.uniform(lo, hi)) + (f" {_v(r.uniform(0.1, 0.5 * hi))} {_v(r.uniform(0.1, 0.5 * hi))}" if F("poly") or r.random() < 0.4 else "")
      if jt == "free":
        fa = ""
        if F("spring"):
          fa += f' stiffness="{poly(1, 10)}"'
        if F("damper"):
          fa += f' damping="{poly(0.05, 1)}"'
        if F("armature"):
          fa += f' armature="{_v(r.uniform(0.01, 0.1))}"'
        xs.append(f'<joint name="{name}" type="free"{fa}/>' if fa else f'<freejoint name="{name}"/>')
        continue
      if jt in ("hinge", "slide"):
        out.scalar_joints.append(name)
        ax = np.eye(3)[int(r.integers(3))] if axis_aligned else _unit(r)
        a += f' axis="{_v(ax)}"'
        if lim_j and r.random() < 0.7:
          lo, hi = sorted(r.uniform(-0.6, 0.6, size=2))
          a += f' limited="true" range="{_v(lo)} {_v(hi + 0.05)}"' + (f' margin="{_v(r.uniform(0, 0.05))}"' if F("margin") else "")
        if F("spring"):
          a += f' stiffness="{poly(1, 20)}" springref="{_v(r.uniform(-0.3, 0.3))}"'
      elif jt == "ball":
        if lim_j and r.random() < 0.7:
          a += f' limited="true" range="0 {_v(r.uniform(0.2, 1.0))}"'
        if F("spring"):
          a += f' stiffness="{poly(1, 20)}"'
      a += f' pos="{_v(r.uniform(-0.05, 0.05, size=3))}"'
      if F("damper"):
        a += f' damping="{poly(0.05, 2)}"'
      if F("armature"):
        a += f' armature="{_v(r.uniform(0.01, 0.3))}"'
      if F("frictionloss"):
        a += f' frictionloss="{_v(r.uniform(0.05, 0.5))}"'
      if F("actfrcrange") and jt in ("hinge", "slide"):
        a += f' actuatorfrclimited="true" actuatorfrcrange="{_v(-r.uniform(0.2, 2))} {_v(r.uniform(0.2, 2))}"'
      xs.append(f'<joint name="{name}" type="{jt}"{a}/>')
    return "".join(xs)

  def body_xml(b):
    pos = r.uniform(-0.3, 0.3, size=3)
    if collide:
      pos[2] = abs(pos[2]) * 0.5  # children stay above their parent so that only the lowest geoms touch the floor
    if par[b] == 0:
      pos = np.array([0.4 * b, 0.25 * r.uniform(-1, 1), r.uniform(0.04, 0.16)]) if collide else pos + np.array([0.5 * b, 0, 1.0])
    q = np.array([1.0, 0, 0, 0]) if axis_aligned else _unit(r, 4)
    a = f' pos="{_v(pos)}" quat="{_v(q)}"'
    if mocap[b]:
      a += ' mocap="true"'
    if F("gravcomp") and not mocap[b]:
      a += f' gravcomp="{_v(r.uniform(0.2, 1.5))}"'
    inner = joint_xml(b) + geom_xml(b)
    if F("site") or F("tendon_spatial") or F("act_site") or F("act_slidercrank") or F("sens_site"):
      inner += f'<site name="s{b}" pos="{_v(r.uniform(-0.1, 0.1, size=3))}" quat="{_v(_unit(r, 4))}" size="0.01"/>'
    if F("camlight"):
      mode = CAM_MODES[(b + int(r.integers(5))) % 5]
      tgt = f' target="b{1 + (b % nb)}"' if mode.startswith("target") and nb > 1 else ""
      if mode.startswith("target") and nb == 1:
        mode = "track"
      inner += f'<camera name="c{b}" mode="{mode}"{tgt} pos="{_v(r.uniform(-0.2, 0.2, size=3))}" quat="{_v(_unit(r, 4))}"/>'
      mode2 = CAM_MODES[(b + 1 + int(r.integers(5))) % 5]
      tgt2 = f' target="b{1 + (b % nb)}"' if mode2.startswith("target") and nb > 1 else ""
      if mode2.startswith("target") and nb == 1:
        mode2 = "trackcom"
      inner += f'<light name="l{b}" mode="{mode2}"{tgt2} pos="{_v(r.uniform(-0.2, 0.2, size=3))}" dir="{_v(_unit(r))}"/>'
    for ch in children[b]:
      inner += body_xml(ch)
    return f'<body name="b{b}"{a}>{inner}</body>'

  world = "".join(body_xml(b) for b in children[0])
  if F("floor"):
    world = '<geom name="floor" type="plane" size="5 5 .1" condim="1"/>' + world
  if F("tendon_spatial") and F("wrap"):
    world += ('<geom name="wrapg" type="sphere" size="0.08" pos="0.2 0.1 1.1" contype="0" conaffinity="0"/>'
              '<site name="wrapside" pos="0.2 0.1 1.3" size="0.01"/>')

  # ---- tendons
  tend = []
  tendon_names = []
  sj = out.scalar_joints
  tattr = ""
  if F("tendon_spring"):
    tpoly = (lambda hi: f" {_v(r.uniform(0.1, 0.5 * hi))} {_v(r.uniform(0.1, 0.5 * hi))}") if (F("poly") or r.random() < 0.4) else (lambda hi: "")
    tattr += f' stiffness="{_v(r.uniform(1, 20))}{tpoly(4)}" damping="{_v(r.uniform(0.1, 1))}{tpoly(1)}"'
  if F("tendon_armature"):
    tattr += f' armature="{_v(r.uniform(0.01, 0.2))}"'
  if F("frictionloss") and F("tendon_fixed"):
    tattr += f' frictionloss="{_v(r.uniform(0.05, 0.5))}"'
  if F("tendon_fixed") and sj:
    k = min(len(sj), 1 + int(r.integers(3)))
    pick = list(r.choice(len(sj), size=k, replace=False))
    lim = f' limited="true" range="{_v(-r.uniform(0.05, 0.3))} {_v(r.uniform(0.05, 0.3))}"' if lim_t else ""
    tend.append(f'<fixed name="tf"{lim}{tattr}>' + "".join(f'<joint joint="{sj[i]}" coef="{_v(r.uniform(0.3, 2) * r.choice([-1, 1]))}"/>' for i in pick) + "</fixed>")
    tendon_names.append("tf")
  if F("tendon_spatial") and nb >= 2:
    path = list(range(1, min(nb, 3) + 1))
    inner = f'<site site="s{path[0]}"/>'
    for i, b in enumerate(path[1:]):
      if F("wrap") and i == 0:
        inner += '<geom geom="wrapg" sidesite="wrapside"/>'
      if F("pulley") and i == 1:
        inner += '<pulley divisor="2"/>' + f'<site site="s{path[0]}"/>'
      inner += f'<site site="s{b}"/>'
    lim = f' limited="true" range="0 {_v(r.uniform(0.3, 0.8))}"' if lim_t else ""
    tend.append(f'<spatial name="ts"{lim}{tattr.replace("frictionloss", "frictionloss")}>{inner}</spatial>')
    tendon_names.append("ts")

  # ---- actuators
  act = []

  def lims():
    a = ""
    if F("act_limits"):
      a += f' ctrllimited="true" ctrlrange="{_v(-r.uniform(0.2, 1))} {_v(r.uniform(0.2, 1))}"'
      a += f' forcelimited="true" forcerange="{_v(-r.uniform(0.3, 3))} {_v(r.uniform(0.3, 3))}"'
    return a

  def actlim():
    return f' actlimited="true" actrange="{_v(-r.uniform(0.1, 0.5))} {_v(r.uniform(0.1, 0.5))}"' if F("act_limits") else ""

  early = ' actearly="true"' if F("actearly") else ""
  if sj:
    pj = lambda: sj[int(r.integers(len(sj)))]
    g = lambda: f' gear="{_v(r.uniform(0.5, 3) * r.choice([-1, 1]))}"'
    if F("act_motor"):
      act.append(f'<motor name="a_motor" joint="{pj()}"{g()}{lims()}/>')
    if F("act_position"):
      act.append(f'<position name="a_pos" joint="{pj()}" kp="{_v(r.uniform(1, 20))}" kv="{_v(r.uniform(0, 2))}"{g()}{lims()}/>')
    if F("act_velocity"):
      act.append(f'<velocity name="a_vel" joint="{pj()}" kv="{_v(r.uniform(0.5, 5))}"{g()}{lims()}/>')
    if F("act_intvelocity"):
      act.append(f'<intvelocity name="a_iv" joint="{pj()}" kp="{_v(r.uniform(1, 20))}" actrange="-1 1"{g()}/>')
    if F("act_damper"):
      act.append(f'<damper name="a_damp" joint="{pj()}" kv="{_v(r.uniform(0.5, 5))}" ctrlrange="0 1"{g()}/>')
    if F("act_cylinder"):
      act.append(f'<cylinder name="a_cyl" joint="{pj()}" timeconst="{_v(r.uniform(0.05, 0.5))}" area="{_v(r.uniform(0.5, 2))}" bias="{_v(r.uniform(-1, 1, size=3))}"{g()}{early}/>')
    if F("act_muscle"):
      act.append(f'<muscle name="a_mus" joint="{pj()}" lengthrange="-1 1" timeconst="{_v(r.uniform(0.01, 0.05))} {_v(r.uniform(0.02, 0.08))}"{early}/>')
    if F("act_filter"):
      act.append(f'<general name="a_flt" joint="{pj()}" dyntype="filter" dynprm="{_v(r.uniform(0.02, 0.3))}" gainprm="{_v(r.uniform(0.5, 3))}" '
                 f'biastype="affine" biasprm="{_v(r.uniform(-1, 1, size=3))}"{g()}{lims()}{actlim()}{early}/>')
    if F("act_filterexact"):
      act.append(f'<general name="a_fle" joint="{pj()}" dyntype="filterexact" dynprm="{_v(r.uniform(0.02, 0.3) if r.random() < 0.6 else r.uniform(0.004, 0.012))}" gainprm="{_v(r.uniform(0.5, 3))}"{g()}{actlim()}{early}/>')
    if F("act_integrator"):
      act.append(f'<general name="a_int" joint="{pj()}" dyntype="integrator" gainprm="{_v(r.uniform(0.5, 3))}" gaintype="affine" '
                 f'biastype="affine" biasprm="{_v(r.uniform(-1, 1, size=3))}"{g()}{lims()}{actlim()}{early}/>'.replace('gaintype="affine" ', ""))
    if F("act_affinegain"):
      act.append(f'<general name="a_aff" joint="{pj()}" gaintype="affine" gainprm="{_v(r.uniform(-1, 1, size=3))}" biastype="affine" biasprm="{_v(r.uniform(-1, 1, size=3))}"{g()}{lims()}/>')
    if F("act_dcmotor"):
      pass  # element availability differs between MuJoCo versions; not generated
  if F("act_tendon") and tendon_names:
    act.append(f'<motor name="a_ten" tendon="{tendon_names[0]}" gear="{_v(r.uniform(0.5, 2))}"{lims()}/>')
    act.append(f'<position name="a_tenp" tendon="{tendon_names[-1]}" kp="{_v(r.uniform(1, 10))}"/>')
  if F("act_site"):
    ref = f' refsite="s{1 + (1 % nb)}"' if nb > 1 and F("act_refsite") else ""
    act.append(f'<general name="a_site" site="s1"{ref} gear="{_v(r.uniform(-1, 1, size=6))}"{lims()}/>')
  if F("act_slidercrank") and nb >= 2:
    act.append(f'<general name="a_sc" cranksite="s1" slidersite="s{nb}" cranklength="{_v(r.uniform(0.3, 0.6))}" gear="{_v(r.uniform(0.5, 2))}"/>')
  if F("act_body"):
    act.append(f'<adhesion name="a_adh" body="b{nb}" ctrlrange="0 1" gain="{_v(r.uniform(0.5, 2))}"/>')
  if F("act_jointinparent") and sj:
    act.append(f'<general name="a_jip" jointinparent="{sj[0]}" gear="{_v(r.uniform(0.5, 2))}"/>')

  # ---- equalities
  eq = []
  sol = lambda: (f' solref="{_v(r.uniform(0.01, 0.05))} {_v(r.uniform(0.7, 1.3))}" solimp="{_v(r.uniform(0.8, 0.95))} {_v(r.uniform(0.95, 0.99))} {_v(r.uniform(0.0005, 0.01))}"'
                 if F("solparams") else "")
  if F("eq_connect"):
    b2 = f' body2="b{1 + (1 % nb)}"' if nb > 1 else ""
    eq.append(f'<connect body1="b1"{b2} anchor="{_v(r.uniform(-0.1, 0.1, size=3))}"{sol()}/>')
  if F("eq_weld"):
    b2 = f' body2="b{1}"' if nb > 1 else ""
    eq.append(f'<weld body1="b{nb}"{b2} torquescale="{_v(r.uniform(0.5, 2))}"{sol()}/>' if nb > 1 else f'<weld body1="b1"{sol()}/>')
  if F("eq_joint") and sj:
    j2 = f' joint2="{sj[1]}"' if len(sj) > 1 else ""
    eq.append(f'<joint joint1="{sj[0]}"{j2} polycoef="{_v(r.uniform(-0.2, 0.2))} {_v(r.uniform(0.5, 1.5))} {_v(r.uniform(-0.3, 0.3))} 0 0"{sol()}/>')
  if F("eq_tendon") and tendon_names:
    t2 = f' tendon2="{tendon_names[1]}"' if len(tendon_names) > 1 else ""
    eq.append(f'<tendon tendon1="{tendon_names[0]}"{t2} polycoef="{_v(r.uniform(-0.1, 0.1))} {_v(r.uniform(0.5, 1.5))} 0 0 0"{sol()}/>')

  # ---- sensors (each group matches a pipeline stage)
  sens = []
  cut = lambda: (f' cutoff="{_v(r.uniform(0.05, 2))}"' if F("cutoff") and r.random() < 0.6 else "")
  if F("sens_pos"):
    for name, jt, b in out.joints:
      if jt in ("hinge", "slide"):
        sens.append(f'<jointpos joint="{name}"{cut()}/>')
      if jt == "ball":
        sens.append(f'<ballquat joint="{name}"/>')
    for b in range(1, nb + 1):
      sens.append(f'<framepos objtype="body" objname="b{b}"{cut()}/><framequat objtype="xbody" objname="b{b}"/>')
      sens.append(f'<framexaxis objtype="geom" objname="g{b}"/><subtreecom body="b{b}"/>')
    if nb > 1:
      sens.append(f'<framepos objtype="body" objname="b{nb}" reftype="body" refname="b1"/><framezaxis objtype="body" objname="b1" reftype="xbody" refname="b{nb}"/>')
      sens.append(f'<framequat objtype="geom" objname="g{nb}" reftype="body" refname="b1"/>')
    for t in tendon_names:
      sens.append(f'<tendonpos tendon="{t}"{cut()}/>')
      if lim_t:
        sens.append(f'<tendonlimitpos tendon="{t}"/><tendonlimitvel tendon="{t}"/><tendonlimitfrc tendon="{t}"/>')
    if lim_j:
      for name, jt, b in out.joints:
        if jt in ("hinge", "slide"):
          sens.append(f'<jointlimitpos joint="{name}"/><jointlimitvel joint="{name}"/><jointlimitfrc joint="{name}"/>')
    sens.append('<clock/>')
    if F("camlight"):
      sens.append('<framepos objtype="camera" objname="c1"/><framequat objtype="camera" objname="c1"/>')
    if F("energy"):
      sens.append("<e_potential/>")
    for a in act:
      nm = a.split('name="')[1].split('"')[0]
      sens.append(f'<actuatorpos actuator="{nm}"/>')
  if F("sens_vel"):
    for name, jt, b in out.joints:
      if jt in ("hinge", "slide"):
        sens.append(f'<jointvel joint="{name}"{cut()}/>')
      if jt == "ball":
        sens.append(f'<ballangvel joint="{name}"/>')
    for b in range(1, nb + 1):
      sens.append(f'<framelinvel objtype="body" objname="b{b}"{cut()}/><frameangvel objtype="xbody" objname="b{b}"/>')
      sens.append(f'<subtreelinvel body="b{b}"/><subtreeangmom body="b{b}"/>')
    if nb > 1:
      sens.append(f'<framelinvel objtype="body" objname="b{nb}" reftype="body" refname="b1"/><frameangvel objtype="geom" objname="g1" reftype="xbody" refname="b{nb}"/>')
    for t in tendon_names:
      sens.append(f'<tendonvel tendon="{t}"/>')
    if F("site") or F("sens_site"):
      sens.append(f'<velocimeter site="s1"/><gyro site="s{nb}"{cut()}/>')
    if F("energy"):
      sens.append("<e_kinetic/>")
    for a in act:
      nm = a.split('name="')[1].split('"')[0]
      sens.append(f'<actuatorvel actuator="{nm}"/>')
  if F("sens_acc"):
    for b in range(1, nb + 1):
      sens.append(f'<framelinacc objtype="body" objname="b{b}"/><frameangacc objtype="xbody" objname="b{b}"/>')
    if F("site") or F("sens_site"):
      sens.append(f'<accelerometer site="s1"{cut()}/><force site="s{nb}"/><torque site="s1"/>')
    for name, jt, b in out.joints:
      if jt in ("hinge", "slide"):
        sens.append(f'<jointactuatorfrc joint="{name}"/>')
    for a in act:
      nm = a.split('name="')[1].split('"')[0]
      sens.append(f'<actuatorfrc actuator="{nm}"{cut()}/>')
    for t in tendon_names:
      sens.append(f'<tendonactuatorfrc tendon="{t}"/>')

  # ---- options
  opt = f'integrator="{c.get("integrator", "Euler")}" cone="{c.get("cone", "pyramidal")}" solver="{c.get("solver", "Newton")}" jacobian="{c.get("jacobian", "auto")}"'
  if F("fluid") or F("fluid_ellipsoid"):
    opt += f' density="{_v(r.uniform(1, 1000))}" viscosity="{_v(r.uniform(0.0001, 0.1))}" wind="{_v(r.uniform(-2, 2, size=3))}"'
  if F("nogravity"):
    opt += ' gravity="0 0 0"'
  if F("smalldt"):
    opt += ' timestep="0.001"'
  flags = ""
  if F("energy"):
    flags += ' energy="enable"'
  if F("invdiscrete"):
    flags += ' invdiscrete="enable"'
  for dis in ("constraint", "equality", "frictionloss", "limit", "contact", "spring", "damper", "gravity", "clampctrl", "warmstart", "filterparent", "actuation",
              "refsafe", "sensor", "eulerdamp"):
    if F("dis_" + dis):
      flags += f' {dis}="disable"'
  out.xml = f"""<mujoco>
  <compiler angle="radian"/>
  <option {opt}><flag{flags}/></option>
  <worldbody>{world}</worldbody>
  <tendon>{"".join(tend)}</tendon>
  <actuator>{"".join(act)}</actuator>
  <equality>{"".join(eq)}</equality>
  <sensor>{"".join(sens)}</sensor>
</mujoco>"""
  if F("tendon_spatial") and F("wrap") and nb >= 2 and rng_for(c, seed, "wrapbody").random() < 0.6:
    # move the wrapping sphere onto the body of the tendon's first site, right between the first two sites (so that the tendon really wraps and
    # the geom's body - with its own, possibly rotational, dofs - differs from the next site's body)
    try:
      import mujoco

      mm = mujoco.MjModel.from_xml_string(out.xml)
      dd = mujoco.MjData(mm)
      mujoco.mj_kinematics(mm, dd)
      p1, p2 = dd.site("s1").xpos.copy(), dd.site("s2").xpos.copy()
      gap = float(np.linalg.norm(p2 - p1))
      if gap > 0.08:
        rad = min(0.08, 0.3 * gap)
        u = np.cross(p2 - p1, np.array([0.3, -0.5, 0.8]))
        u /= max(np.linalg.norm(u), 1e-9)
        cw = 0.5 * (p1 + p2) + 0.4 * rad * u           # line s1-s2 passes 0.4 radii from the centre
        sw = cw + 1.6 * rad * u * -1.0                  # side site on the far side
        R, x0 = dd.body("b1").xmat.reshape(3, 3), dd.body("b1").xpos
        loc, sloc = R.T @ (cw - x0), R.T @ (sw - x0)
        g = (f'<geom name="wrapg" type="sphere" size="{rad:.4f}" pos="{_v(loc, 6)}" contype="0" conaffinity="0" mass="0.05"/>'
             f'<site name="wrapside" pos="{_v(sloc, 6)}" size="0.01"/>')
        old_world = ('<geom name="wrapg" type="sphere" size="0.08" pos="0.2 0.1 1.1" contype="0" conaffinity="0"/>'
                     '<site name="wrapside" pos="0.2 0.1 1.3" size="0.01"/>')
        i = out.xml.index('<body name="b1"')
        j = out.xml.index(">", i) + 1
        x2 = out.xml.replace(old_world, "")
        i = x2.index('<body name="b1"')
        j = x2.index(">", i) + 1
        x2 = x2[:j] + g + x2[j:]
        mujoco.MjModel.from_xml_string(x2)  # must compile
        out.xml = x2
    except Exception:
      pass
  return out


def make_state(rec: Dict[str, Any], mjm, seed: int, vscale: float = 1.0) -> Dict[str, np.ndarray]:
  """qpos / qvel / ctrl / act / mocap / applied forces for the configuration's state classes."""
  import mujoco

  c = rec["c"] if "c" in rec else rec
  r = rng_for(c, seed, "state")
  qc, vc = c.get("qc", "rand"), c.get("vc", "rand")
  qpos = mjm.qpos0.copy()
  if qc == "near":  # small perturbation of qpos0: equality constraints stay nearly satisfied
    for j in range(mjm.njnt):
      a = mjm.jnt_qposadr[j]
      t = mjm.jnt_type[j]
      if t == mujoco.mjtJoint.mjJNT_FREE:
        qpos[a : a + 3] += r.uniform(-0.01, 0.01, size=3)
        q = qpos[a + 3 : a + 7] + 0.03 * r.normal(size=4)
        qpos[a + 3 : a + 7] = q / np.linalg.norm(q)
      elif t == mujoco.mjtJoint.mjJNT_BALL:
        q = qpos[a : a + 4] + 0.03 * r.normal(size=4)
        qpos[a : a + 4] = q / np.linalg.norm(q)
      else:
        qpos[a] += r.uniform(-0.03, 0.03)
  elif qc != "zero":
    for j in range(mjm.njnt):
      a = mjm.jnt_qposadr[j]
      t = mjm.jnt_type[j]
      if t == mujoco.mjtJoint.mjJNT_FREE:
        qpos[a : a + 3] += r.uniform(-0.2, 0.2, size=3)
        qpos[a + 3 : a + 7] = _unit(r, 4) * (r.uniform(0.5, 2.0) if qc == "unnorm" else 1.0)
      elif t == mujoco.mjtJoint.mjJNT_BALL:
        qpos[a : a + 4] = _unit(r, 4) * (r.uniform(0.5, 2.0) if qc == "unnorm" else 1.0)
      else:
        qpos[a] += r.uniform(-0.7, 0.7)
  qvel = np.zeros(mjm.nv) if vc == "zero" else r.uniform(-1, 1, size=mjm.nv) * vscale
  st = {
    "qpos": qpos, "qvel": qvel,
    "ctrl": r.uniform(-1.5, 1.5, size=mjm.nu),
    "act": r.uniform(-0.4, 0.4, size=mjm.na),
    "mocap_pos": mjm.body_pos[mjm.body_mocapid >= 0][np.argsort(mjm.body_mocapid[mjm.body_mocapid >= 0])] + r.uniform(-0.2, 0.2, size=(mjm.nmocap, 3)),
    "mocap_quat": np.array([_unit(r, 4) * (r.uniform(0.5, 2.0) if qc == "unnorm" else 1.0) for _ in range(mjm.nmocap)]).reshape(mjm.nmocap, 4),
    "qfrc_applied": r.uniform(-1, 1, size=mjm.nv) if "applied" in c.get("feats", []) else np.zeros(mjm.nv),
    "xfrc_applied": r.uniform(-1, 1, size=(mjm.nbody, 6)) if "applied" in c.get("feats", []) else np.zeros((mjm.nbody, 6)),
  }
  if "muscle_ctrl" in c.get("feats", []) or "act_muscle" in c.get("feats", []):
    pass
  return st


def apply_state(mjm, mjd, m, d, st: Dict[str, np.ndarray]):
  """Writes the same state into an MjData and (every world of) an MJWarp Data."""
  import warp as wp

  for k, v in st.items():
    getattr(mjd, k)[...] = np.asarray(v).reshape(getattr(mjd, k).shape)
    arr = getattr(d, k)
    cur = arr.numpy()
    a = np.broadcast_to(np.asarray(v, dtype=np.float64).reshape((1,) + cur.shape[1:]), cur.shape).astype(cur.dtype)
    wp.copy(arr, wp.array(a, dtype=arr.dtype, shape=arr.shape))


# ---------------------------------------------------------------------------
# binding of the specification's derived tables to put_model's tables
# ---------------------------------------------------------------------------


def check_tables(rec: Dict[str, Any], mjm, m) -> List[str]:
  """Compares ModelFamily.tla's Derived(cfg) with the MjModel and with the tables put_model builds."""
  c, d = rec["c"], rec["d"]
  nb = c["nb"]
  bad = []

  def eq(name, got, exp):
    tl = lambda x: x.tolist() if hasattr(x, "tolist") else ([tl(y) for y in x] if isinstance(x, (list, tuple)) else x)
    got, exp = tl(got), tl(exp)
    if got != exp:
      bad.append(f"{name}: code {got} spec {exp}")

  eq("nbody", mjm.nbody, nb + 1)
  eq("nq", mjm.nq, d["nq"])
  eq("nv", mjm.nv, d["nv"])
  eq("njnt", mjm.njnt, d["njnt"])
  eq("ntree", mjm.ntree, d["ntree"])
  eq("nmocap", mjm.nmocap, d["nmocap"])
  eq("body_parentid", mjm.body_parentid[1:], _list(c["parent"], nb)[1:])
  eq("body_rootid", mjm.body_rootid[1:], _list(d["rootid"], nb)[1:])
  eq("body_treeid", mjm.body_treeid[1:], _list(d["treeid"], nb)[1:])
  eq("dof_bodyid", mjm.dof_bodyid, d["dofbody"])
  eq("dof_parentid", mjm.dof_parentid, d["dofparent"])
  # Model side (what the kernels traverse)
  eq("Model.nv", m.nv, d["nv"])
  eq("Model.body_tree", [sorted(x.numpy().tolist()) for x in m.body_tree], d["levels"])
  br = m.body_branches.numpy() if hasattr(m.body_branches, "numpy") else np.asarray(m.body_branches)
  bs = m.body_branch_start.numpy() if hasattr(m.body_branch_start, "numpy") else np.asarray(m.body_branch_start)
  eq("Model.nbranch", m.nbranch, len(d["branches"]))
  eq("Model.body_branches", [br[bs[i] : bs[i + 1]].tolist() for i in range(len(bs) - 1)], d["branches"])
  for name in ("body_parentid", "body_rootid", "dof_bodyid", "dof_parentid", "body_treeid", "dof_treeid"):
    if hasattr(m, name):
      eq("Model." + name, getattr(m, name).numpy(), getattr(mjm, name))
  return bad


def gen(maxbody: int, joints, geoms, feats, maxfeat: int, ncfg: int, integrators=("Euler",), cones=("pyramidal",), solvers=("Newton",),
        jacobians=("auto",), qclasses=("rand",), vclasses=("rand",), mode="sim", invariants=True):
  """Wrapper module + cfg for a TLC run of ModelFamily with the given constants."""
  s = lambda xs: "{" + ", ".join('"%s"' % x for x in xs) + "}"
  mod = f"""---- MODULE Gen_ModelFamily ----
EXTENDS ModelFamily
GJoints == {s(joints)}
GGeoms == {s(geoms)}
GInt == {s(integrators)}
GCones == {s(cones)}
GSolvers == {s(solvers)}
GJac == {s(jacobians)}
GFeats == {s(feats)}
GQ == {s(qclasses)}
GV == {s(vclasses)}
====
"""
  cfg = f"""CONSTANTS
  MaxBody = {maxbody}
  JointCodes <- GJoints
  GeomCodes <- GGeoms
  Integrators <- GInt
  Cones <- GCones
  Solvers <- GSolvers
  Jacobians <- GJac
  FeatUniverse <- GFeats
  MaxFeat = {maxfeat}
  QClasses <- GQ
  VClasses <- GV
  NCfg = {ncfg}
  Mode = "{mode}"
SPECIFICATION Spec
INVARIANT Emit
""" + ("INVARIANT WellFormed\nINVARIANT LevelsOK\nINVARIANT BranchesOK\nINVARIANT BranchPrefixOK\nINVARIANT DofParentOK\nINVARIANT TreesOK\n" if invariants else "")
  return {"Gen_ModelFamily.tla": mod, "Gen_ModelFamily.cfg": cfg}


def sample(ctx, n: int, seed_off: int = 0, **kw) -> List[Dict[str, Any]]:
  """n configurations from TLC -simulate (one behaviour of n states)."""
  kw.setdefault("ncfg", n)
  r = ctx.tlc("Gen_ModelFamily", "Gen_ModelFamily.cfg", gen=gen(**kw), workers=1, simulate="num=1", depth=n + 1,
              seed=(ctx.seed * 7919 + seed_off) % (1 << 30), timeout=900)
  return r.emit("cfg")


def enumerate_all(ctx, maxbody: int, joints, **kw) -> List[Dict[str, Any]]:
  kw.update(dict(maxbody=maxbody, joints=joints, geoms=kw.get("geoms", ("sphere",)), feats=(), maxfeat=0, ncfg=1, mode="all"))
  r = ctx.tlc("Gen_ModelFamily", "Gen_ModelFamily.cfg", gen=gen(**kw), timeout=1800)
  return r.emit("cfg")
