"""Compare a pytest junit xml with the stable_pass list of /root/.vp/BASELINE.json."""
import json
import sys
import xml.etree.ElementTree as ET

base = set(json.load(open("/root/.vp/BASELINE.json"))["stable_pass"])
t = ET.parse(sys.argv[1])
passed = set()
for tc in t.iter("testcase"):
  ok = not any(c.tag in ("failure", "error", "skipped") for c in tc)
  name = f"{tc.get('classname')}::{tc.get('name')}"
  if ok:
    passed.add(name)
missing = sorted(base - passed)
print(f"stable_pass={len(base)} passed_now={len(passed)} stable tests not passing now: {len(missing)}")
for m in missing[:40]:
  print("  ", m)
sys.exit(1 if missing else 0)
