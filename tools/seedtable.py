#!/usr/bin/env python3
"""Markdown table of the seeded changes and which checks report them (from seeded/*/meta.json; runs in chronological order)."""
import json, os
rows = []
for sid in sorted(os.listdir("/verif/seeded")):
  mp = f"/verif/seeded/{sid}/meta.json"
  if not os.path.exists(mp):
    continue
  m = json.load(open(mp))
  by = {}
  for r in m["check_runs"]:
    by.setdefault(r["check"], []).append("caught" if r["rc"] == 1 and r["violations"] else "missed" if r["rc"] == 0 else f"rc{r['rc']}")
  cells = []
  for chk, hist in by.items():
    first, last = hist[0], hist[-1]
    cells.append(f"{chk}: {last}" + (f" (first run: {first})" if first != last else ""))
  rows.append(f"| {sid} | {m['change']} | {'; '.join(cells)} |")
print("| seed (property) | change | checks run against it (latest result) |\n|---|---|---|")
print("\n".join(rows))
