#!/bin/bash
# tools/seedconfirm.sh <ID> [<wt>] : confirm a seeded change in its scratch worktree (demo passes without / fails with; suite unchanged),
# then store it under /verif/seeded/<ID>/
set -u
ID=$1; WT=${2:-/tmp/wt/$ID}; PATCH=${3:-/tmp/wt/$ID.patch.diff}
OUT=/verif/seeded/$ID; mkdir -p $OUT
cd $WT || exit 2
DEMO=$(ls demo_*.py | head -1)
# never `git stash` here: the stash is shared by all worktrees of the repository
git checkout -q -- mujoco_warp
/venv/bin/python $DEMO > $OUT/demo_without.log 2>&1; RC0=$?
git apply $PATCH || { echo "patch does not apply"; exit 2; }
/venv/bin/python $DEMO > $OUT/demo_with.log 2>&1; RC1=$?
/venv/bin/python -m pytest -q -p no:cacheprovider --timeout=900 -n 8 --junitxml=/tmp/wt/$ID.confirm.junit.xml > /tmp/wt/$ID.confirm.log 2>&1
BL=$(/venv/bin/python /verif/tools/baseline_check.py /tmp/wt/$ID.confirm.junit.xml | head -1)
cp $PATCH $OUT/patch.diff; cp $DEMO $OUT/
echo "{\"demo_rc_without\": $RC0, \"demo_rc_with\": $RC1, \"suite\": \"$BL\"}" > $OUT/confirm.json
cat $OUT/confirm.json
