#!/bin/bash
# tools/seedrun.sh <SEED_ID> <PROPERTY...> : run checks against a scratch worktree of /repo with the seeded patch applied (never /repo itself)
set -u
ID=$1; shift
WT=/tmp/wts/$ID; mkdir -p /tmp/wts
git -C /repo worktree remove --force $WT 2>/dev/null
git -C /repo worktree add --detach $WT HEAD -q || exit 2
git -C $WT apply /verif/seeded/$ID/patch.diff || { echo "patch does not apply"; exit 2; }
mkdir -p $WT.ev $WT.rp
for P in "$@"; do
  T=${TIER:-quick}
  ( cd /verif && VERIF_REPO=$WT VERIF_EVIDENCE_DIR=$WT.ev VERIF_REPLAY_DIR=$WT.rp timeout 3000 ./check $P --tier $T > $WT.$P.log 2>&1; echo "rc=$?" >> $WT.$P.log )
  RC=$(tail -1 $WT.$P.log); V=$(grep -c "^VIOLATION" $WT.$P.log); C=$(grep -m2 "cause:" $WT.$P.log | cut -c1-300)
  echo "seed=$ID check=$P tier=$T $RC violations=$V"; echo "$C"
  echo "seed=$ID check=$P tier=$T $RC violations=$V :: $C" >> /verif/seeded/$ID/results.txt
done
git -C /repo worktree remove --force $WT; rm -rf $WT.ev $WT.rp
