#!/usr/bin/env python3
"""Run repo test files (or the whole suite) and report which BASELINE stable_pass tests fail.  usage: basecheck.py [repo] [pytest args...]"""
import json, subprocess, sys, tempfile, xml.etree.ElementTree as ET
repo = sys.argv[1] if len(sys.argv) > 1 else "/repo"
args = sys.argv[2:] or []
with tempfile.NamedTemporaryFile(suffix=".xml") as f:
  p = subprocess.run(["/venv/bin/python", "-m", "pytest", "-q", "-p", "no:cacheprovider", "--timeout=900", "-n", "14", f"--junitxml={f.name}", *args], cwd=repo, capture_output=True, text=True)
  print(p.stdout.strip().splitlines()[-1] if p.stdout.strip() else p.stderr[-500:])
  base = set(json.load(open("/root/.vp/BASELINE.json"))["stable_pass"])
  seen, bad = 0, []
  for tc in ET.parse(f.name).getroot().iter("testcase"):
    name = f"{tc.get('classname')}::{tc.get('name')}"
    if name in base:
      seen += 1
      if any(ch.tag in ("failure", "error") for ch in tc):
        bad.append(name)
print(f"baseline tests seen {seen} of {len(base)}; failing: {bad}")
sys.exit(1 if bad else 0)
